(* Helper lemmas for the SRTP proofs: byte lists, big-endian codecs, XOR, bit masks. *)
From Coq Require Import ZArith List Bool Lia.
From RV Require Import Lib.Wrap Gen.Consts Gen.SrtpArith Model.Srtp.
Import ListNotations.
Open Scope Z_scope.
Ltac Zify.zify_post_hook ::= Z.div_mod_to_equations.

(* ------------------------------------------------------------------ lists *)
Lemma firstn_len_app {A} (a b : list A) n : n = length a -> firstn n (a ++ b) = a.
Proof.
  intros ->. rewrite firstn_app, Nat.sub_diag, firstn_all. cbn. apply app_nil_r.
Qed.

Lemma skipn_len_app {A} (a b : list A) n : n = length a -> skipn n (a ++ b) = b.
Proof.
  intros ->. rewrite skipn_app, Nat.sub_diag, skipn_all. reflexivity.
Qed.

Lemma zlen_app {A} (a b : list A) : zlen (a ++ b) = zlen a + zlen b.
Proof. unfold zlen. rewrite app_length. lia. Qed.

Lemma zlen_nonneg {A} (a : list A) : 0 <= zlen a.
Proof. unfold zlen. lia. Qed.

Lemma zlen_repeat {A} (x : A) n : zlen (repeat x n) = Z.of_nat n.
Proof. unfold zlen. rewrite repeat_length. reflexivity. Qed.

Lemma last_app_repeat (a : bytes) x n : (0 < n)%nat -> last (a ++ repeat x n) 0 = x.
Proof.
  intros Hn. destruct n as [|n]; [lia|].
  replace (S n) with (n + 1)%nat by lia. rewrite repeat_app, app_assoc. cbn [repeat].
  apply last_last.
Qed.

(* ------------------------------------------------------------------ byte-list equality *)
Lemma bytes_eqb_refl a : bytes_eqb a a = true.
Proof. induction a as [|x a IH]; cbn; [reflexivity|]. rewrite Z.eqb_refl, IH. reflexivity. Qed.

Lemma bytes_eqb_eq a : forall b, bytes_eqb a b = true -> a = b.
Proof.
  induction a as [|x a IH]; intros [|y b] H; cbn in H; try discriminate; [reflexivity|].
  apply andb_true_iff in H. destruct H as [H1 H2]. apply Z.eqb_eq in H1. subst. f_equal. auto.
Qed.

(* ------------------------------------------------------------------ XOR *)
Lemma xor_bytes_length d : forall s, length (xor_bytes d s) = length d.
Proof. induction d as [|x d IH]; intros [|y s]; cbn; auto. Qed.

Lemma xor_bytes_invol d : forall s, (length d <= length s)%nat -> xor_bytes (xor_bytes d s) s = d.
Proof.
  induction d as [|x d IH]; intros [|y s] H; cbn in *; try reflexivity; try lia.
  rewrite Z.lxor_assoc, Z.lxor_nilpotent, Z.lxor_0_r. f_equal. apply IH. lia.
Qed.

Lemma ctr_xor_length c k iv d : length (ctr_xor c k iv d) = length d.
Proof. unfold ctr_xor. apply xor_bytes_length. Qed.

Lemma ctr_xor_invol c k iv d : crypto_ok c -> ctr_xor c k iv (ctr_xor c k iv d) = d.
Proof.
  intros Hc. unfold ctr_xor. rewrite xor_bytes_length. apply xor_bytes_invol.
  rewrite (ks_len c Hc). lia.
Qed.

(* ------------------------------------------------------------------ big-endian *)
Lemma be16_length x : length (be16 x) = 2%nat.
Proof. reflexivity. Qed.
Lemma be32_length x : length (be32 x) = 4%nat.
Proof. reflexivity. Qed.

Lemma of_be_be16 x : 0 <= x < 65536 -> of_be (be16 x) = x.
Proof. intros H. unfold of_be, be16. cbn [fold_left]. lia. Qed.

Lemma of_be_be32 x : 0 <= x < 4294967296 -> of_be (be32 x) = x.
Proof. intros H. unfold of_be, be32. cbn [fold_left]. lia. Qed.

Lemma be32_inj x y : 0 <= x < 4294967296 -> 0 <= y < 4294967296 -> be32 x = be32 y -> x = y.
Proof. intros Hx Hy H. rewrite <- (of_be_be32 x Hx), <- (of_be_be32 y Hy), H. reflexivity. Qed.

Lemma flat_map_be32_length l : length (flat_map be32 l) = (4 * length l)%nat.
Proof. induction l as [|x l IH]; [reflexivity|]. cbn [flat_map]. rewrite app_length, IH, be32_length. cbn [length]. lia. Qed.

(* ------------------------------------------------------------------ masks *)
Lemma land_pow2_small a b n : 0 <= n -> 0 <= b < 2 ^ n -> Z.land (a * 2 ^ n) b = 0.
Proof.
  intros Hn Hb. apply Z.bits_inj'. intros m Hm. rewrite Z.land_spec, Z.bits_0.
  destruct (Z.ltb_spec m n) as [Hlt|Hge].
  - rewrite Z.mul_pow2_bits_low by lia. reflexivity.
  - destruct (Z.eq_dec b 0) as [->|Hnz]. { rewrite Z.bits_0. apply andb_false_r. }
    rewrite (Z.bits_above_log2 b m); [apply andb_false_r|lia|].
    assert (Z.log2 b < n) by (apply Z.log2_lt_pow2; lia). lia.
Qed.

Lemma lor_pow2_add a b n : 0 <= n -> 0 <= b < 2 ^ n -> Z.lor (a * 2 ^ n) b = a * 2 ^ n + b.
Proof.
  intros Hn Hb. pose proof (land_pow2_small a b n Hn Hb) as H0.
  rewrite (Z.add_nocarry_lxor _ _ H0). symmetry. apply Z.lxor_lor. exact H0.
Qed.

(* E-bit / index packing of SRTCP: index | 0x8000_0000 and its two projections *)
Lemma e_bit_pack i : 0 <= i < 2147483648 -> Z.lor i SRTCP_E_BIT = i + 2147483648.
Proof.
  intros H. unfold SRTCP_E_BIT. rewrite Z.lor_comm.
  change 2147483648 with (1 * 2 ^ 31) at 1. rewrite lor_pow2_add; [|lia|].
  - change (1 * 2 ^ 31) with 2147483648. lia.
  - change (2 ^ 31) with 2147483648. lia.
Qed.

Lemma e_bit_index i : 0 <= i < 2147483648 -> Z.land (i + 2147483648) SRTCP_INDEX_MASK = i.
Proof.
  intros H. unfold SRTCP_INDEX_MASK. change 2147483647 with (Z.ones 31).
  rewrite Z.land_ones by lia. change (2 ^ 31) with 2147483648. lia.
Qed.

Lemma e_bit_set i : 0 <= i < 2147483648 -> Z.land (i + 2147483648) SRTCP_E_MASK = 2147483648.
Proof.
  intros H. rewrite <- e_bit_pack by assumption. unfold SRTCP_E_BIT, SRTCP_E_MASK.
  rewrite Z.land_lor_distr_l.
  replace (Z.land i 2147483648) with 0.
  - rewrite Z.land_diag. reflexivity.
  - symmetry. rewrite Z.land_comm. change 2147483648 with (1 * 2 ^ 31).
    apply land_pow2_small; [lia|]. change (2 ^ 31) with 2147483648. lia.
Qed.
