(* C05 -- a rejected packet leaves the context untouched; dropping any set of rejected packets from
   a history changes nothing for the others (shadow receiver); the authenticated input covers every
   byte of the datagram, hence (under an ideal MAC / AEAD premise) forgeries are rejected. *)
From Coq Require Import ZArith List Bool Lia.
From RV Require Import Lib.Wrap Gen.Consts Gen.SrtpArith Model.Srtp Proofs.SrtpLib Proofs.SrtpRoc Proofs.SrtpRound.
Import ListNotations.
Open Scope Z_scope.
Ltac Zify.zify_post_hook ::= Z.div_mod_to_equations.

(* ------------------------------------------------------------------ the source orders the state
   update after authentication in all three receive paths (flags regenerated from src/srtp.rs) *)
Definition update_order_ok : bool :=
  rtp_update_after_auth && rtcp_hmac_update_after_auth && rtcp_gcm_update_after_auth.
Lemma update_order : update_order_ok = true.
Proof. reflexivity. Qed.

(* verbatim source-shape checks of the translator (Gen/SrtpArith.v is regenerated on every run) *)
Lemma tag_compare_translated : tag_compare_full_length = true.
Proof. reflexivity. Qed.
Lemma session_commit_translated : session_rx_commit_after_auth = true.
Proof. reflexivity. Qed.

(* ------------------------------------------------------------------ rejection preserves the context *)
Lemma finish_reject st sp seq roc pt r st' :
  unprotect_finish st sp seq roc pt = (r, st') -> is_ok r = false -> st' = st.
Proof.
  unfold unprotect_finish. intros H Hr.
  destruct (sp_pad sp).
  - destruct pt as [|x t]; [inversion H; reflexivity|].
    destruct ((last (x :: t) 0 =? 0) || (zlen (x :: t) <? last (x :: t) 0)).
    + inversion H; reflexivity.
    + inversion H; subst. discriminate.
  - inversion H; subst. discriminate.
Qed.

Theorem reject_preserves_rtp c st sp r st' :
  unprotect c st sp = (r, st') -> is_ok r = false -> st' = st.
Proof.
  unfold unprotect. intros H Hr.
  destruct (zlen (sp_body sp) <? tag_len (c_prof st)); [inversion H; reflexivity|].
  destruct (is_gcm (c_prof st)).
  - destruct (open c _ _ _ _); [eapply finish_reject; eassumption|inversion H; reflexivity].
  - destruct (negb (bytes_eqb _ _)); [inversion H; reflexivity|eapply finish_reject; eassumption].
Qed.

Theorem reject_preserves_rtcp c st pkt r st' :
  unprotect_rtcp c st pkt = (r, st') -> is_ok r = false -> st' = st.
Proof.
  unfold unprotect_rtcp. intros H Hr.
  destruct (zlen pkt <? rtcp_tag_len (c_prof st) + 4); [inversion H; reflexivity|].
  destruct (is_gcm (c_prof st)).
  - destruct (open c _ _ _ _); inversion H; subst; [discriminate|reflexivity].
  - destruct (negb (bytes_eqb _ _)); [inversion H; reflexivity|].
    destruct (_ && _); inversion H; subst; discriminate.
Qed.

(* the model never panics on receive *)
Lemma finish_no_panic st sp seq roc pt : fst (unprotect_finish st sp seq roc pt) <> Panic.
Proof.
  unfold unprotect_finish. destruct (sp_pad sp); [destruct pt|]; cbn; try congruence.
  destruct (_ || _); cbn; congruence.
Qed.
Theorem unprotect_no_panic c st sp : fst (unprotect c st sp) <> Panic.
Proof.
  unfold unprotect. destruct (_ <? _); [cbn; congruence|]. destruct (is_gcm _).
  - destruct (open c _ _ _ _); [apply finish_no_panic|cbn; congruence].
  - destruct (negb _); [cbn; congruence|apply finish_no_panic].
Qed.
Theorem unprotect_rtcp_no_panic c st pkt : fst (unprotect_rtcp c st pkt) <> Panic.
Proof.
  unfold unprotect_rtcp. destruct (_ <? _); [cbn; congruence|]. destruct (is_gcm _).
  - destruct (open c _ _ _ _); cbn; congruence.
  - destruct (negb _); [cbn; congruence|]. destruct (_ && _); cbn; congruence.
Qed.

(* one receive step of a context on either kind of datagram *)
Definition rx_step (c : crypto) (st : ctx) (i : spkt + bytes) : res (rtp + bytes) * ctx :=
  match i with
  | inl sp => let '(r, st') := unprotect c st sp in
              (match r with Ok p => Ok (inl p) | Err e => Err e | Panic => Panic end, st')
  | inr pkt => let '(r, st') := unprotect_rtcp c st pkt in
               (match r with Ok p => Ok (inr p) | Err e => Err e | Panic => Panic end, st')
  end.

Lemma rx_step_reject c st i r st' : rx_step c st i = (r, st') -> is_ok r = false -> st' = st.
Proof.
  destruct i as [sp|pkt]; cbn [rx_step]; intros H Hr.
  - destruct (unprotect c st sp) as [r0 s0] eqn:E. inversion H; subst.
    apply (reject_preserves_rtp c st sp r0 st' E). destruct r0; cbn in *; congruence.
  - destruct (unprotect_rtcp c st pkt) as [r0 s0] eqn:E. inversion H; subst.
    apply (reject_preserves_rtcp c st pkt r0 st' E). destruct r0; cbn in *; congruence.
Qed.

(* ------------------------------------------------------------------ shadow receiver, generically *)
Section Shadow.
  Variables (S I O : Type) (step : S -> I -> res O * S).
  Hypothesis reject_preserves : forall s i r s', step s i = (r, s') -> is_ok r = false -> s' = s.

  Fixpoint run (s : S) (l : list I) : list (res O) * S :=
    match l with
    | [] => ([], s)
    | i :: r => let '(o, s1) := step s i in let '(os, s2) := run s1 r in (o :: os, s2)
    end.

  (* a history with a mark on every element: true = keep, false = drop *)
  Definition kept (l : list (bool * I)) : list I := map snd (filter fst l).

  (* full run; outputs of the kept elements only *)
  Fixpoint run_kept (s : S) (l : list (bool * I)) : list (res O) * S :=
    match l with
    | [] => ([], s)
    | (k, i) :: r => let '(o, s1) := step s i in let '(os, s2) := run_kept s1 r in
                     (if k then o :: os else os, s2)
    end.

  (* every dropped element was rejected in the full run *)
  Fixpoint dropped_rejected (s : S) (l : list (bool * I)) : bool :=
    match l with
    | [] => true
    | (k, i) :: r => let '(o, s1) := step s i in (k || negb (is_ok o)) && dropped_rejected s1 r
    end.

  Theorem shadow : forall l s, dropped_rejected s l = true -> run s (kept l) = run_kept s l.
  Proof.
    induction l as [|[k i] l IH]; intros s H; [reflexivity|].
    cbn [dropped_rejected] in H. cbn [run_kept]. unfold kept. cbn [filter fst].
    destruct (step s i) as [o s1] eqn:E. apply andb_true_iff in H. destruct H as [H1 H2].
    destruct k; cbn [map snd run].
    - rewrite E. fold (kept l). rewrite (IH s1 H2). destruct (run_kept s1 l). reflexivity.
    - cbn [orb] in H1. apply negb_true_iff in H1.
      rewrite (reject_preserves s i o s1 E H1) in *. fold (kept l). rewrite (IH s H2).
      destruct (run_kept s l). reflexivity.
  Qed.

  (* in particular: the accepted sub-history alone reproduces all accepted outputs and the final state *)
  Fixpoint mark_accepted (s : S) (l : list I) : list (bool * I) :=
    match l with
    | [] => []
    | i :: r => let '(o, s1) := step s i in (is_ok o, i) :: mark_accepted s1 r
    end.

  Lemma mark_accepted_ok : forall l s, dropped_rejected s (mark_accepted s l) = true.
  Proof.
    induction l as [|i l IH]; intros s; [reflexivity|]. cbn [mark_accepted].
    destruct (step s i) as [o s1] eqn:E. cbn [dropped_rejected]. rewrite E.
    rewrite IH. destruct (is_ok o); reflexivity.
  Qed.

  Lemma run_kept_mark : forall l s,
    run_kept s (mark_accepted s l) = (filter is_ok (fst (run s l)), snd (run s l)).
  Proof.
    induction l as [|i l IH]; intros s; [reflexivity|]. cbn [mark_accepted run].
    destruct (step s i) as [o s1] eqn:E. cbn [run_kept]. rewrite E, IH.
    destruct (run s1 l) as [os s2]. cbn [fst snd filter]. destruct (is_ok o); reflexivity.
  Qed.

  Theorem shadow_accepted : forall l s,
    run s (kept (mark_accepted s l)) = (filter is_ok (fst (run s l)), snd (run s l)).
  Proof. intros l s. rewrite shadow by apply mark_accepted_ok. apply run_kept_mark. Qed.
End Shadow.

(* instance: one context receiving any interleaving of SRTP and SRTCP datagrams, genuine or forged *)
Theorem ctx_shadow c : forall l st,
  dropped_rejected _ _ _ (rx_step c) st l = true ->
  run _ _ _ (rx_step c) st (kept _ l) = run_kept _ _ _ (rx_step c) st l.
Proof. intros l st. apply shadow. intros s i r s'. apply rx_step_reject. Qed.

Theorem ctx_shadow_accepted c : forall l st,
  run _ _ _ (rx_step c) st (kept _ (mark_accepted _ _ _ (rx_step c) st l)) =
  (filter is_ok (fst (run _ _ _ (rx_step c) st l)), snd (run _ _ _ (rx_step c) st l)).
Proof. intros l st. apply shadow_accepted. intros s i r s'. apply rx_step_reject. Qed.

(* ------------------------------------------------------------------ coverage *)
(* the datagram a parsed SRTP packet stands for (Proofs/SrtpHdr.v: parse is injective, so this is
   the datagram received) *)
Definition datagram (sp : spkt) : bytes := write_hdr (sp_pad sp) (sp_hdr sp) ++ sp_body sp.

Lemma app_inv_tail_len {A} (x y a b : list A) : length a = length b -> x ++ a = y ++ b -> x = y /\ a = b.
Proof.
  revert y. induction x as [|h x IH]; intros [|k y] Hl H; cbn in *.
  - auto.
  - subst a. cbn in Hl. rewrite app_length in Hl. lia.
  - subst b. cbn in Hl. rewrite app_length in Hl. lia.
  - inversion H; subst. destruct (IH y Hl H2) as [-> ->]. auto.
Qed.

(* the HMAC input determines the unauthenticated part of the datagram and the rollover count *)
Lemma rtp_mac_input_inj hb ct roc hb' ct' roc' :
  0 <= roc < 4294967296 -> 0 <= roc' < 4294967296 ->
  rtp_mac_input hb ct roc = rtp_mac_input hb' ct' roc' -> hb ++ ct = hb' ++ ct' /\ roc = roc'.
Proof.
  intros Hr Hr' H. unfold rtp_mac_input in H. rewrite !app_assoc in H.
  apply app_inv_tail_len in H; [|reflexivity]. destruct H as [H1 H2].
  split; [exact H1|]. apply be32_inj; assumption.
Qed.

Lemma estimate_roc_range l roc s : 0 <= roc < 4294967296 -> 0 <= estimate_roc l roc s < 4294967296.
Proof.
  intros H. unfold estimate_roc. destruct l as [x|]; [|exact H].
  cbv zeta. destruct (_ <? _); [unfold cast_u32, wrapu; change (2 ^ 32) with 4294967296; lia|].
  destruct (_ >? _); [unfold cast_u32, wrapu; change (2 ^ 32) with 4294967296; lia|exact H].
Qed.

(* what acceptance means for an HMAC profile: the received tag is the truncated MAC of
   header || body-without-tag || estimated ROC under the context's RTP auth key *)
Definition hmac_split (st : ctx) (sp : spkt) : bytes * bytes :=
  let split := (length (sp_body sp) - Z.to_nat (tag_len (c_prof st)))%nat in
  (firstn split (sp_body sp), skipn split (sp_body sp)).

Lemma accept_hmac c st sp :
  is_gcm (c_prof st) = false -> is_ok (fst (unprotect c st sp)) = true ->
  let '(ct, tag) := hmac_split st sp in
  let roc := est_rl (ctx_rl st) (h_seq (sp_hdr sp)) in
  tag = rtp_tag c st (write_hdr (sp_pad sp) (sp_hdr sp)) ct roc /\
  tag_len (c_prof st) <= zlen (sp_body sp).
Proof.
  intros Hg H. unfold unprotect in H. unfold hmac_split.
  destruct (Z.ltb_spec (zlen (sp_body sp)) (tag_len (c_prof st))) as [|Hlen]; [discriminate H|].
  rewrite Hg in H.
  destruct (bytes_eqb _ _) eqn:E; [|discriminate H].
  apply bytes_eqb_eq in E. split; [exact E|exact Hlen].
Qed.

(* C05_forgery_rejected (HMAC profiles).  `genuine` lists the (packet, ROC) pairs the key holder
   protected.  mac_ideal is the only security premise: a tag that verifies under the auth key
   belongs to a MAC input the key holder produced.  Then a datagram that differs from every
   genuine datagram -- in any bit of header, extension, payload or tag -- is rejected, and so is a
   genuine datagram replayed against a different ROC. *)
Definition genuine_input (c : crypto) (st : ctx) (g : spkt * Z) : bytes :=
  let '(ct, _) := hmac_split st (fst g) in
  rtp_mac_input (write_hdr (sp_pad (fst g)) (sp_hdr (fst g))) ct (snd g).

Definition genuine_wf (c : crypto) (st : ctx) (g : spkt * Z) : Prop :=
  let '(ct, tag) := hmac_split st (fst g) in
  0 <= snd g < 4294967296 /\ tag_len (c_prof st) <= zlen (sp_body (fst g)) /\
  tag = rtp_tag c st (write_hdr (sp_pad (fst g)) (sp_hdr (fst g))) ct (snd g).

Theorem forgery_rejected_hmac c st sp genuine :
  is_gcm (c_prof st) = false -> 0 <= c_roc st < 4294967296 ->
  Forall (genuine_wf c st) genuine ->
  (* mac_ideal *)
  (forall m, snd (hmac_split st sp) = firstn (Z.to_nat (tag_len (c_prof st))) (mac c (k_auth (c_rtp st)) m) ->
             m = genuine_input c st (sp, est_rl (ctx_rl st) (h_seq (sp_hdr sp))) ->
             In m (map (genuine_input c st) genuine)) ->
  (forall g, In g genuine ->
     datagram sp <> datagram (fst g) \/ est_rl (ctx_rl st) (h_seq (sp_hdr sp)) <> snd g) ->
  is_ok (fst (unprotect c st sp)) = false.
Proof.
  intros Hg Hroc Hwf Hideal Hdiff.
  destruct (is_ok (fst (unprotect c st sp))) eqn:Hacc; [exfalso|reflexivity].
  pose proof (accept_hmac c st sp Hg Hacc) as Ha.
  destruct (hmac_split st sp) as [ct tag] eqn:Es. cbv zeta in Ha. destruct Ha as [Htag Hlen].
  set (roc := est_rl (ctx_rl st) (h_seq (sp_hdr sp))) in *.
  assert (Hr : 0 <= roc < 4294967296) by (apply estimate_roc_range; exact Hroc).
  specialize (Hideal (rtp_mac_input (write_hdr (sp_pad sp) (sp_hdr sp)) ct roc)).
  cbn [snd] in Hideal. unfold genuine_input in Hideal at 1. cbn [fst snd] in Hideal. rewrite Es in Hideal.
  specialize (Hideal Htag eq_refl).
  apply in_map_iff in Hideal. destruct Hideal as (g & Hin & Hg_in).
  rewrite Forall_forall in Hwf. pose proof (Hwf g Hg_in) as Hw.
  unfold genuine_wf in Hw. unfold genuine_input in Hin.
  destruct (hmac_split st (fst g)) as [ctg tagg] eqn:Eg. destruct Hw as (Hrg & Hlg & Htg).
  apply rtp_mac_input_inj in Hin; [|assumption|assumption]. destruct Hin as [Hbytes Hrocs].
  destruct (Hdiff g Hg_in) as [Hd|Hd]; [|congruence].
  apply Hd. unfold datagram.
  (* bodies are ct ++ tag on both sides, tags are the MAC of equal inputs *)
  assert (Hb : sp_body sp = ct ++ tag).
  { unfold hmac_split in Es. inversion Es. symmetry. apply firstn_skipn. }
  assert (Hbg : sp_body (fst g) = ctg ++ tagg).
  { unfold hmac_split in Eg. inversion Eg. symmetry. apply firstn_skipn. }
  rewrite Hb, Hbg, !app_assoc, Hbytes. f_equal.
  rewrite Htag, Htg. unfold rtp_tag, rtp_mac_input. rewrite !app_assoc, Hbytes, Hrocs. reflexivity.
Qed.

(* GCM: acceptance means the AEAD opened (nonce from ssrc/roc/seq, AAD = clear header, body = ct||tag);
   under aead_ideal the triple was produced by the key holder, and the triple determines the datagram *)
Lemma accept_gcm c st sp :
  is_gcm (c_prof st) = true -> is_ok (fst (unprotect c st sp)) = true ->
  exists pt, open c (k_cipher (c_rtp st))
                  (gcm_nonce st (h_seq (sp_hdr sp)) (est_rl (ctx_rl st) (h_seq (sp_hdr sp))))
                  (write_hdr (sp_pad sp) (sp_hdr sp)) (sp_body sp) = Some pt.
Proof.
  intros Hg H. unfold unprotect in H.
  destruct (_ <? _); [discriminate H|]. rewrite Hg in H.
  destruct (open c _ _ _ _) as [pt|]; [eauto|discriminate H].
Qed.

Theorem forgery_rejected_gcm c st sp (sealed : list (bytes * bytes * bytes)) :
  is_gcm (c_prof st) = true ->
  (* aead_ideal: whatever opens under the key was sealed by the key holder as (nonce, aad, ct||tag) *)
  (forall n a b pt, open c (k_cipher (c_rtp st)) n a b = Some pt -> In (n, a, b) sealed) ->
  (forall n a b, In (n, a, b) sealed -> datagram sp <> a ++ b) ->
  is_ok (fst (unprotect c st sp)) = false.
Proof.
  intros Hg Hideal Hdiff.
  destruct (is_ok (fst (unprotect c st sp))) eqn:Hacc; [exfalso|reflexivity].
  destruct (accept_gcm c st sp Hg Hacc) as [pt Ho].
  apply Hideal in Ho. apply Hdiff in Ho. apply Ho. reflexivity.
Qed.

(* SRTCP, HMAC profiles: the MAC input is the whole datagram without its tag (header, encrypted
   part, E bit and index), the tag is compared in full *)
Theorem forgery_rejected_rtcp_hmac c st pkt (signed : list bytes) :
  is_gcm (c_prof st) = false -> crypto_ok c ->
  (forall m, skipn (length pkt - Z.to_nat (rtcp_tag_len (c_prof st))) pkt = rtcp_tag c st m -> In m signed) ->
  (forall m, In m signed -> pkt <> m ++ rtcp_tag c st m) ->
  is_ok (fst (unprotect_rtcp c st pkt)) = false.
Proof.
  intros Hg Hc Hideal Hdiff.
  destruct (is_ok (fst (unprotect_rtcp c st pkt))) eqn:Hacc; [exfalso|reflexivity].
  unfold unprotect_rtcp in Hacc.
  destruct (_ <? _); [discriminate Hacc|]. rewrite Hg in Hacc.
  destruct (bytes_eqb _ _) eqn:E; [|discriminate Hacc]. apply bytes_eqb_eq in E.
  pose proof (Hideal _ E) as Hin. apply (Hdiff _ Hin).
  rewrite <- E. symmetry. apply firstn_skipn.
Qed.

(* SRTCP, GCM: nonce from ssrc and index, AAD = first 8 bytes || E+index word, ct||tag = the middle *)
Theorem forgery_rejected_rtcp_gcm c st pkt (sealed : list (bytes * bytes * bytes)) :
  is_gcm (c_prof st) = true ->
  (forall n a b pt, open c (k_cipher (c_rtcp st)) n a b = Some pt -> In (n, a, b) sealed) ->
  (forall n a b, In (n, a, b) sealed ->
     (firstn 8 pkt ++ be32 (of_be (skipn (length pkt - 4) pkt)), firstn (length pkt - 4 - 8) (skipn 8 pkt)) <> (a, b)) ->
  is_ok (fst (unprotect_rtcp c st pkt)) = false.
Proof.
  intros Hg Hideal Hdiff.
  destruct (is_ok (fst (unprotect_rtcp c st pkt))) eqn:Hacc; [exfalso|reflexivity].
  unfold unprotect_rtcp in Hacc.
  destruct (_ <? _); [discriminate Hacc|]. rewrite Hg in Hacc.
  destruct (open c _ _ _ _) as [pt|] eqn:Ho; [|discriminate Hacc].
  apply Hideal in Ho. apply Hdiff in Ho. apply Ho. reflexivity.
Qed.
