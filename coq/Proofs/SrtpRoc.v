(* C04 -- rollover-counter estimation and index tracking (SrtpContext::estimate_roc / update),
   over the functions translated into Gen/SrtpArith.v. *)
From Coq Require Import ZArith List Bool Lia.
From RV Require Import Lib.Wrap Gen.Consts Gen.SrtpArith Model.Srtp.
Import ListNotations.
Open Scope Z_scope.
Ltac Zify.zify_post_hook ::= Z.div_mod_to_equations.

(* ------------------------------------------------------------------ the translated leaf functions *)
Lemma estimate_roc_spec roc last seq :
  0 <= roc < 4294967296 -> 0 <= last < 65536 -> 0 <= seq < 65536 ->
  estimate_roc (Some last) roc seq =
    if seq - last <? -32768 then (roc + 1) mod 4294967296
    else if seq - last >? 32768 then (roc - 1) mod 4294967296 else roc.
Proof.
  intros Hr Hl Hs. unfold estimate_roc. unfold_casts.
  change (2 ^ (32 - 1)) with 2147483648. change (2 ^ 32) with 4294967296.
  replace ((seq + 2147483648) mod 4294967296 - 2147483648) with seq by lia.
  replace ((last + 2147483648) mod 4294967296 - 2147483648) with last by lia.
  replace ((seq - last + 2147483648) mod 4294967296 - 2147483648) with (seq - last) by lia.
  replace ((- 32768 + 2147483648) mod 4294967296 - 2147483648) with (-32768) by lia.
  reflexivity.
Qed.

Lemma estimate_roc_none roc seq : estimate_roc None roc seq = roc.
Proof. reflexivity. Qed.

Lemma land_shift_small a b : 0 <= b < 65536 -> Z.land (a * 65536) b = 0.
Proof.
  intros Hb. apply Z.bits_inj'. intros n Hn. rewrite Z.land_spec, Z.bits_0.
  destruct (Z.ltb_spec n 16) as [Hlt|Hge].
  - change 65536 with (2 ^ 16). rewrite Z.mul_pow2_bits_low by lia. reflexivity.
  - destruct (Z.eq_dec b 0) as [->|Hnz]. { rewrite Z.bits_0. apply andb_false_r. }
    rewrite (Z.bits_above_log2 b n); [apply andb_false_r|lia|].
    assert (Z.log2 b < 16) by (apply Z.log2_lt_pow2; lia). lia.
Qed.

Lemma lor_shift_add a b : 0 <= b < 65536 -> Z.lor (a * 65536) b = a * 65536 + b.
Proof.
  intros Hb. pose proof (land_shift_small a b Hb) as H0.
  rewrite (Z.add_nocarry_lxor _ _ H0). symmetry. apply Z.lxor_lor. exact H0.
Qed.

Lemma update_newer_spec sroc last seq roc :
  0 <= sroc < 4294967296 -> 0 <= last < 65536 -> 0 <= seq < 65536 -> 0 <= roc < 4294967296 ->
  update_newer sroc last seq roc = (roc * 65536 + seq >? sroc * 65536 + last).
Proof.
  intros H1 H2 H3 H4. unfold update_newer. rewrite !Z.shiftl_mul_pow2 by lia.
  change (2 ^ 16) with 65536.
  unfold cast_u64, wrapu. change (2 ^ 64) with 18446744073709551616.
  rewrite (Z.mod_small sroc), (Z.mod_small roc), (Z.mod_small last), (Z.mod_small seq) by lia.
  rewrite (Z.mod_small (sroc * 65536)), (Z.mod_small (roc * 65536)) by lia.
  rewrite !lor_shift_add by lia.
  rewrite !Z.mod_small by lia. reflexivity.
Qed.

(* ------------------------------------------------------------------ C04_roc_estimate *)
(* for ANY integer index i within 2^15 of the receiver's index the estimate is the true
   rollover count modulo the 2^32 wrap of the counter ... *)
Lemma roc_estimate_mod roc last i :
  0 <= roc < 4294967296 -> 0 <= last < 65536 ->
  Z.abs (i - (roc * 65536 + last)) < 32768 ->
  estimate_roc (Some last) roc (i mod 65536) = (i / 65536) mod 4294967296.
Proof.
  intros Hr Hl Hd.
  rewrite estimate_roc_spec by lia.
  destruct (Z.ltb_spec (i mod 65536 - last) (-32768)) as [H1|H1].
  - assert (i / 65536 = roc + 1) by lia. congruence.
  - destruct (Z.gtb_spec (i mod 65536 - last) 32768) as [H2|H2].
    + assert (i / 65536 = roc - 1) by lia. congruence.
    + assert (i / 65536 = roc) by lia. rewrite Z.mod_small; lia.
Qed.

(* ... and exactly the true rollover count for every 48-bit index *)
Lemma roc_estimate roc last i :
  0 <= roc < 2 ^ 32 -> 0 <= last < 2 ^ 16 -> 0 <= i < 2 ^ 48 ->
  Z.abs (i - (roc * 2 ^ 16 + last)) < 2 ^ 15 ->
  estimate_roc (Some last) roc (i mod 2 ^ 16) = i / 2 ^ 16.
Proof.
  change (2 ^ 32) with 4294967296. change (2 ^ 16) with 65536. change (2 ^ 48) with 281474976710656.
  change (2 ^ 15) with 32768.
  intros Hr Hl Hi Hd. rewrite roc_estimate_mod by lia. apply Z.mod_small. lia.
Qed.

(* pair form (all (last, current) pairs): the estimate always lies in {roc-1, roc, roc+1} and,
   away from the two ends of the counter, selects an index within 2^15 of the receiver's *)
Lemma roc_estimate_closest roc last seq :
  1 <= roc < 2 ^ 32 - 1 -> 0 <= last < 2 ^ 16 -> 0 <= seq < 2 ^ 16 ->
  Z.abs (estimate_roc (Some last) roc seq * 2 ^ 16 + seq - (roc * 2 ^ 16 + last)) <= 2 ^ 15.
Proof.
  change (2 ^ 32) with 4294967296. change (2 ^ 16) with 65536. change (2 ^ 15) with 32768.
  intros Hr Hl Hs. rewrite estimate_roc_spec by lia.
  destruct (Z.ltb_spec (seq - last) (-32768)); [rewrite Z.mod_small by lia; lia|].
  destruct (Z.gtb_spec (seq - last) 32768); [rewrite Z.mod_small by lia; lia|]. lia.
Qed.

(* distance exactly 2^15 is outside the guarantee (RFC 3711 3.3.1 is itself ambiguous there) *)
Lemma roc_boundary_ahead :
  exists roc last i, 0 <= roc < 2 ^ 32 /\ 0 <= last < 2 ^ 16 /\ 0 <= i < 2 ^ 48 /\
    i - (roc * 2 ^ 16 + last) = 2 ^ 15 /\ estimate_roc (Some last) roc (i mod 2 ^ 16) <> i / 2 ^ 16.
Proof. exists 0, 40000, 72768. vm_compute. repeat split; congruence. Qed.

Lemma roc_boundary_behind :
  exists roc last i, 0 <= roc < 2 ^ 32 /\ 0 <= last < 2 ^ 16 /\ 0 <= i < 2 ^ 48 /\
    (roc * 2 ^ 16 + last) - i = 2 ^ 15 /\ estimate_roc (Some last) roc (i mod 2 ^ 16) <> i / 2 ^ 16.
Proof. exists 1, 100, 32868. vm_compute. repeat split; congruence. Qed.

(* ------------------------------------------------------------------ C04_index_tracking *)
Definition repr (hi : Z) : rl := (hi / 65536, Some (hi mod 65536)).
Definition pk_of (i : Z) : Z * Z := (i mod 65536, i / 65536).

(* each received index is a 48-bit index within 2^15 of the highest index accepted so far *)
Fixpoint in_window (hi : Z) (l : list Z) : Prop :=
  match l with
  | [] => True
  | i :: r => 0 <= i < 2 ^ 48 /\ Z.abs (i - hi) < 2 ^ 15 /\ in_window (Z.max hi i) r
  end.

Fixpoint running_max (hi : Z) (l : list Z) : list Z :=
  match l with
  | [] => []
  | i :: r => Z.max hi i :: running_max (Z.max hi i) r
  end.

Fixpoint rx_state (st : rl) (pks : list (Z * Z)) : rl :=
  match pks with
  | [] => st
  | pk :: r => rx_state (snd (rx_decide_step st pk)) r
  end.

Lemma track_step hi i :
  0 <= hi < 2 ^ 48 -> 0 <= i < 2 ^ 48 -> Z.abs (i - hi) < 2 ^ 15 ->
  est_rl (repr hi) (i mod 65536) = i / 65536 /\
  update_rl (repr hi) (i mod 65536) (i / 65536) = repr (Z.max hi i).
Proof.
  change (2 ^ 48) with 281474976710656. change (2 ^ 15) with 32768.
  intros Hh Hi Hd. split.
  - unfold est_rl, repr. cbn [fst snd].
    pose proof (roc_estimate (hi / 65536) (hi mod 65536) i) as H.
    change (2 ^ 32) with 4294967296 in H. change (2 ^ 16) with 65536 in H.
    change (2 ^ 48) with 281474976710656 in H. change (2 ^ 15) with 32768 in H.
    apply H; lia.
  - unfold update_rl, repr. cbn [fst snd].
    rewrite update_newer_spec by lia.
    destruct (Z.gtb_spec (i / 65536 * 65536 + i mod 65536) (hi / 65536 * 65536 + hi mod 65536)) as [Hgt|Hle].
    + replace (Z.max hi i) with i by lia. reflexivity.
    + replace (Z.max hi i) with hi by lia. reflexivity.
Qed.

Lemma first_step i :
  0 <= i < 2 ^ 16 ->
  est_rl (0, None) (i mod 65536) = i / 65536 /\ update_rl (0, None) (i mod 65536) (i / 65536) = repr i.
Proof.
  change (2 ^ 16) with 65536. intros Hi. unfold est_rl, update_rl, repr. cbn [fst snd].
  rewrite estimate_roc_none. split; [lia|]. reflexivity.
Qed.

Lemma decide_step_genuine st i hi' :
  est_rl st (i mod 65536) = i / 65536 ->
  update_rl st (i mod 65536) (i / 65536) = hi' ->
  rx_decide_step st (pk_of i) = (true, hi').
Proof.
  intros He Hu. unfold rx_decide_step, pk_of. rewrite He, Z.eqb_refl, Hu. reflexivity.
Qed.

Lemma index_tracking_from l : forall hi,
  0 <= hi < 2 ^ 48 -> in_window hi l ->
  rx_decide (repr hi) (map pk_of l) = map (fun m => (true, m / 65536)) (running_max hi l) /\
  rx_state (repr hi) (map pk_of l) = repr (fold_left Z.max l hi) /\
  tx_rocs (repr hi) (map (fun i => i mod 65536) l) = map (fun i => i / 65536) l.
Proof.
  induction l as [|i r IH]; intros hi Hh Hw.
  - cbn. auto.
  - cbn [in_window] in Hw. destruct Hw as (Hi & Hd & Hw).
    destruct (track_step hi i Hh Hi Hd) as [He Hu].
    assert (Hm : 0 <= Z.max hi i < 2 ^ 48) by lia.
    destruct (IH (Z.max hi i) Hm Hw) as (IH1 & IH2 & IH3).
    cbn [map rx_decide rx_state running_max fold_left tx_rocs].
    rewrite (decide_step_genuine _ _ _ He Hu). cbn [snd fst].
    rewrite He, Hu, IH1, IH2, IH3. repeat split.
Qed.

(* a fresh context (ROC 0, no sequence seen): the first index must lie in the first epoch *)
Lemma index_tracking l i0 :
  0 <= i0 < 2 ^ 16 -> in_window i0 l ->
  rx_decide (0, None) (map pk_of (i0 :: l)) =
    map (fun m => (true, m / 65536)) (i0 :: running_max i0 l) /\
  rx_state (0, None) (map pk_of (i0 :: l)) = repr (fold_left Z.max l i0) /\
  tx_rocs (0, None) (map (fun i => i mod 65536) (i0 :: l)) = map (fun i => i / 65536) (i0 :: l).
Proof.
  intros H0 Hw. destruct (first_step i0 H0) as [He Hu].
  assert (Hh : 0 <= i0 < 2 ^ 48) by (change (2 ^ 16) with 65536 in H0; change (2 ^ 48) with 281474976710656; lia).
  destruct (index_tracking_from l i0 Hh Hw) as (IH1 & IH2 & IH3).
  cbn [map rx_decide rx_state tx_rocs].
  rewrite (decide_step_genuine _ _ _ He Hu). cbn [snd fst].
  rewrite He, Hu, IH1, IH2, IH3. repeat split.
Qed.

(* the premises are satisfiable across several wraps, with loss and reordering *)
Example in_window_example :
  in_window 65000 [65001; 65535; 65536; 65534; 70000; 98000; 97000; 130000; 131072; 131071; 163000; 190000; 196608].
Proof.
  cbn [in_window]. change (2 ^ 48) with 281474976710656. change (2 ^ 15) with 32768.
  repeat (split; [lia|]). exact I.
Qed.

(* outside the window the estimate is wrong: a packet 2^15+1 behind a wrap is taken for the next epoch *)
Example out_of_window_misestimates :
  est_rl (repr 65536) (32767 mod 65536) <> 32767 / 65536.
Proof. vm_compute. congruence. Qed.
