(* C04 -- round trip of SRTP / SRTCP protection over symbolic cryptography, the length formulas,
   whole-history round trip (sender and receiver tracking combined), per-SSRC independence,
   key split. *)
From Coq Require Import ZArith List Bool Lia.
From RV Require Import Lib.Wrap Gen.Consts Gen.SrtpArith Model.Srtp Proofs.SrtpLib Proofs.SrtpRoc.
Import ListNotations.
Open Scope Z_scope.
Ltac Zify.zify_post_hook ::= Z.div_mod_to_equations.

(* ------------------------------------------------------------------ vocabulary *)
Definition same_keys (a b : ctx) : Prop :=
  c_ssrc a = c_ssrc b /\ c_prof a = c_prof b /\ c_rtp a = c_rtp b /\ c_rtcp a = c_rtcp b.

Lemma same_keys_refl a : same_keys a a.
Proof. repeat split. Qed.
Lemma same_keys_sym a b : same_keys a b -> same_keys b a.
Proof. intros (H1 & H2 & H3 & H4). repeat split; congruence. Qed.
Lemma same_keys_trans a b c : same_keys a b -> same_keys b c -> same_keys a c.
Proof. intros (H1 & H2 & H3 & H4) (G1 & G2 & G3 & G4). repeat split; congruence. Qed.
Lemma same_keys_update st seq roc : same_keys (update st seq roc) st.
Proof. repeat split. Qed.
Lemma same_keys_set_index st i : same_keys (set_rtcp_index st i) st.
Proof. repeat split. Qed.
Lemma ctx_rl_update st seq roc : ctx_rl (update st seq roc) = update_rl (ctx_rl st) seq roc.
Proof. unfold update, ctx_rl, set_rl. cbn. destruct (update_rl _ _ _). reflexivity. Qed.

(* a packet the sender may protect: RtpHeader::validate holds, padding length is a u8 *)
Definition valid_rtp (p : rtp) : Prop := hdr_valid (r_hdr p) = true /\ 0 <= r_padlen p <= 255.

(* the protected datagram as a function of the rollover count the sender used *)
Definition pad_bit (p : rtp) : bool := negb (r_padlen p =? 0).
Definition protect_body (c : crypto) (st : ctx) (p : rtp) (roc : Z) : bytes :=
  let seq := h_seq (r_hdr p) in
  let hb := write_hdr (pad_bit p) (r_hdr p) in
  let body := rtp_body p in
  if is_gcm (c_prof st) then seal c (k_cipher (c_rtp st)) (gcm_nonce st seq roc) hb body
  else
    let enc := if negb (zlen body =? 0) && negb (is_null (c_prof st))
               then ctr_xor c (k_cipher (c_rtp st)) (build_iv st seq roc) body else body in
    enc ++ rtp_tag c st hb enc roc.
Definition protect_out (c : crypto) (st : ctx) (p : rtp) (roc : Z) : bytes :=
  write_hdr (pad_bit p) (r_hdr p) ++ protect_body c st p roc.
(* what SrtpPacket::parse makes of it (Proofs/SrtpHdr.v: spkt_parse (protect_out ..) = Some (spkt_of ..)) *)
Definition spkt_of (c : crypto) (st : ctx) (p : rtp) (roc : Z) : spkt :=
  mkSpkt (r_hdr p) (protect_body c st p roc) (pad_bit p).

Lemma protect_body_keys c a b p roc : same_keys a b -> protect_body c a p roc = protect_body c b p roc.
Proof.
  destruct a, b. intros (H1 & H2 & H3 & H4). cbn in *. subst. reflexivity.
Qed.

Lemma protect_eq c st p :
  hdr_valid (r_hdr p) = true ->
  protect c st p =
    (Ok (protect_out c st p (est_rl (ctx_rl st) (h_seq (r_hdr p)))),
     update st (h_seq (r_hdr p)) (est_rl (ctx_rl st) (h_seq (r_hdr p)))).
Proof.
  intros Hv. unfold protect, protect_out, protect_body, pad_bit. rewrite Hv. cbn [negb].
  destruct (is_gcm (c_prof st)); reflexivity.
Qed.

Lemma tag_len_range p : 0 <= tag_len p <= SHA1_LEN.
Proof. destruct p; vm_compute; split; congruence. Qed.
Lemma rtcp_tag_len_range p : 0 <= rtcp_tag_len p <= SHA1_LEN.
Proof. destruct p; vm_compute; split; congruence. Qed.
Lemma gcm_tag_len p : is_gcm p = true -> tag_len p = GCM_TAG /\ rtcp_tag_len p = GCM_TAG.
Proof. destruct p; cbn; intros H; try discriminate. split; reflexivity. Qed.

Lemma rtp_tag_length c st hb enc roc :
  crypto_ok c -> length (rtp_tag c st hb enc roc) = Z.to_nat (tag_len (c_prof st)).
Proof.
  intros Hc. unfold rtp_tag. rewrite firstn_length, (mac_len c Hc).
  pose proof (tag_len_range (c_prof st)). lia.
Qed.
Lemma rtcp_tag_length c st m :
  crypto_ok c -> length (rtcp_tag c st m) = Z.to_nat (rtcp_tag_len (c_prof st)).
Proof.
  intros Hc. unfold rtcp_tag. rewrite firstn_length, (mac_len c Hc).
  pose proof (rtcp_tag_len_range (c_prof st)). lia.
Qed.

(* ------------------------------------------------------------------ RTP round trip *)
Lemma unprotect_finish_genuine st p seq roc :
  0 <= r_padlen p <= 255 ->
  unprotect_finish st (mkSpkt (r_hdr p) (rtp_body p) (pad_bit p)) seq roc (rtp_body p) =
  (Ok p, update st seq roc).
Proof.
  intros Hp. unfold unprotect_finish, pad_bit. cbn [sp_pad sp_hdr].
  destruct p as [h pay pl]. cbn [r_padlen r_hdr r_payload] in *. unfold rtp_body. cbn [r_payload r_padlen].
  destruct (Z.eqb_spec pl 0) as [->|Hnz]; cbn [negb].
  - cbn [Z.to_nat repeat]. rewrite app_nil_r. reflexivity.
  - assert (Hn : (0 < Z.to_nat pl)%nat) by lia.
    destruct (pay ++ repeat pl (Z.to_nat pl)) as [|x t] eqn:E.
    + apply (f_equal (@length Z)) in E. rewrite app_length, repeat_length in E. cbn in E. lia.
    + rewrite <- E. rewrite last_app_repeat by assumption.
      destruct (Z.eqb_spec pl 0); [contradiction|]. cbn [orb].
      destruct (Z.ltb_spec (zlen (pay ++ repeat pl (Z.to_nat pl))) pl) as [Hlt|_].
      * rewrite zlen_app, zlen_repeat in Hlt. pose proof (zlen_nonneg pay). lia.
      * rewrite firstn_len_app; [reflexivity|]. rewrite app_length, repeat_length. lia.
Qed.

(* the fields of unprotect_finish's packet argument that matter are header and padding bit *)
Lemma unprotect_finish_body st h b1 b2 pad seq roc pt :
  unprotect_finish st (mkSpkt h b1 pad) seq roc pt = unprotect_finish st (mkSpkt h b2 pad) seq roc pt.
Proof. reflexivity. Qed.

Theorem rtp_roundtrip c st st' p roc :
  crypto_ok c -> valid_rtp p -> same_keys st st' ->
  est_rl (ctx_rl st) (h_seq (r_hdr p)) = roc ->
  unprotect c st (spkt_of c st' p roc) = (Ok p, update st (h_seq (r_hdr p)) roc).
Proof.
  intros Hc [Hv Hp] Hk Hr.
  unfold spkt_of. rewrite <- (protect_body_keys c st st' p roc Hk). clear Hk st'.
  unfold unprotect, protect_body. cbn [sp_body sp_hdr sp_pad]. rewrite Hr.
  destruct (is_gcm (c_prof st)) eqn:Hg.
  - destruct (gcm_tag_len _ Hg) as [Ht _]. rewrite Ht.
    destruct (Z.ltb_spec (zlen (seal c (k_cipher (c_rtp st)) (gcm_nonce st (h_seq (r_hdr p)) roc)
                 (write_hdr (pad_bit p) (r_hdr p)) (rtp_body p))) GCM_TAG) as [Hlt|_].
    { unfold zlen in Hlt. rewrite (seal_len c Hc) in Hlt. unfold GCM_TAG in *. lia. }
    rewrite (open_seal c Hc).
    rewrite (unprotect_finish_body st _ _ (rtp_body p)). apply unprotect_finish_genuine; assumption.
  - set (body := rtp_body p).
    set (enc := if negb (zlen body =? 0) && negb (is_null (c_prof st))
                then ctr_xor c (k_cipher (c_rtp st)) (build_iv st (h_seq (r_hdr p)) roc) body else body).
    set (hb := write_hdr (pad_bit p) (r_hdr p)).
    set (tag := rtp_tag c st hb enc roc).
    assert (Htl : length tag = Z.to_nat (tag_len (c_prof st))) by (apply rtp_tag_length; assumption).
    assert (Hel : length enc = length body).
    { subst enc. destruct (negb (zlen body =? 0) && negb (is_null (c_prof st))); [apply ctr_xor_length|reflexivity]. }
    pose proof (tag_len_range (c_prof st)) as Hrng.
    destruct (Z.ltb_spec (zlen (enc ++ tag)) (tag_len (c_prof st))) as [Hlt|_].
    { rewrite zlen_app in Hlt. unfold zlen in Hlt. rewrite Htl in Hlt. lia. }
    assert (Hsplit : (length (enc ++ tag) - Z.to_nat (tag_len (c_prof st)))%nat = length enc).
    { rewrite app_length, Htl. lia. }
    rewrite Hsplit. rewrite firstn_len_app by reflexivity. rewrite skipn_len_app by reflexivity.
    fold tag. rewrite bytes_eqb_refl. cbn [negb].
    assert (Hz : (zlen enc =? 0) = (zlen body =? 0)) by (unfold zlen; rewrite Hel; reflexivity).
    rewrite Hz.
    assert (Hdec : (if negb (zlen body =? 0) && negb (is_null (c_prof st))
                    then ctr_xor c (k_cipher (c_rtp st)) (build_iv st (h_seq (r_hdr p)) roc) enc else enc) = body).
    { subst enc. destruct (negb (zlen body =? 0) && negb (is_null (c_prof st))); [apply ctr_xor_invol; assumption|reflexivity]. }
    rewrite Hdec. subst body.
    rewrite (unprotect_finish_body st _ _ (rtp_body p)). apply unprotect_finish_genuine; assumption.
Qed.

(* protect then unprotect through two contexts holding the same keys whose rollover estimates agree *)
Corollary rtp_protect_unprotect c tx rx p :
  crypto_ok c -> valid_rtp p -> same_keys rx tx ->
  est_rl (ctx_rl rx) (h_seq (r_hdr p)) = est_rl (ctx_rl tx) (h_seq (r_hdr p)) ->
  exists raw tx',
    protect c tx p = (Ok raw, tx') /\
    raw = write_hdr (pad_bit p) (r_hdr p) ++ sp_body (spkt_of c tx p (est_rl (ctx_rl tx) (h_seq (r_hdr p)))) /\
    fst (unprotect c rx (spkt_of c tx p (est_rl (ctx_rl tx) (h_seq (r_hdr p))))) = Ok p.
Proof.
  intros Hc Hv Hk Hr. destruct Hv as [Hv Hp].
  eexists. eexists. split; [apply protect_eq; assumption|]. split; [reflexivity|].
  rewrite (rtp_roundtrip c rx tx p _ Hc (conj Hv Hp) Hk Hr). reflexivity.
Qed.

(* ---- length formula: |protect p| = header + payload + padding + tag_len *)
Lemma write_hdr_length pad h : hdr_valid h = true -> zlen (write_hdr pad h) = hdr_len h.
Proof.
  intros Hv. unfold write_hdr, hdr_len, zlen. cbn [length]. rewrite !app_length.
  rewrite be16_length, !be32_length, flat_map_be32_length.
  destruct (h_ext h) as [e|]; [rewrite !app_length, !be16_length|cbn [length]]; lia.
Qed.

Lemma rtp_body_length p : 0 <= r_padlen p -> zlen (rtp_body p) = zlen (r_payload p) + r_padlen p.
Proof. intros H. unfold rtp_body. rewrite zlen_app, zlen_repeat. lia. Qed.

Theorem protect_length c st p roc :
  crypto_ok c -> valid_rtp p -> zlen (protect_out c st p roc) = protected_rtp_len st p.
Proof.
  intros Hc [Hv Hp]. unfold protect_out, protected_rtp_len. rewrite zlen_app, write_hdr_length by assumption.
  unfold protect_body.
  destruct (is_gcm (c_prof st)) eqn:Hg.
  - destruct (gcm_tag_len _ Hg) as [Ht _]. rewrite Ht. unfold zlen at 1. rewrite (seal_len c Hc).
    pose proof (rtp_body_length p ltac:(lia)) as Hb. unfold zlen in Hb. unfold zlen, GCM_TAG. lia.
  - set (enc := if negb (zlen (rtp_body p) =? 0) && negb (is_null (c_prof st))
                then ctr_xor c (k_cipher (c_rtp st)) (build_iv st (h_seq (r_hdr p)) roc) (rtp_body p)
                else rtp_body p).
    pose proof (tag_len_range (c_prof st)).
    assert (Hel : zlen enc = zlen (rtp_body p)).
    { subst enc. destruct (negb (zlen (rtp_body p) =? 0) && negb (is_null (c_prof st))); [|reflexivity].
      unfold zlen. rewrite ctr_xor_length. reflexivity. }
    assert (Htl : zlen (rtp_tag c st (write_hdr (pad_bit p) (r_hdr p)) enc roc) = tag_len (c_prof st)).
    { unfold zlen. rewrite rtp_tag_length by assumption. lia. }
    rewrite zlen_app, Htl, Hel, rtp_body_length by lia. lia.
Qed.

(* ------------------------------------------------------------------ whole histories at context level *)
Fixpoint tx_run (c : crypto) (st : ctx) (ps : list rtp) : list (res bytes) * ctx :=
  match ps with
  | [] => ([], st)
  | p :: r => let '(o, st1) := protect c st p in let '(os, st2) := tx_run c st1 r in (o :: os, st2)
  end.
Fixpoint rx_run (c : crypto) (st : ctx) (sps : list spkt) : list (res rtp) * ctx :=
  match sps with
  | [] => ([], st)
  | sp :: r => let '(o, st1) := unprotect c st sp in let '(os, st2) := rx_run c st1 r in (o :: os, st2)
  end.

(* a stream element: (true 48-bit index, packet carrying that index's low 16 bits) *)
Definition stream_ok (s : list (Z * rtp)) : Prop :=
  Forall (fun ip => valid_rtp (snd ip) /\ h_seq (r_hdr (snd ip)) = fst ip mod 65536) s.

Lemma tx_run_tracks c tx0 : forall s st hi,
  stream_ok s -> same_keys st tx0 -> 0 <= hi < 2 ^ 48 -> ctx_rl st = repr hi -> in_window hi (map fst s) ->
  exists st', tx_run c st (map snd s) =
                (map (fun ip => Ok (protect_out c tx0 (snd ip) (fst ip / 65536))) s, st') /\
              same_keys st' tx0 /\ ctx_rl st' = repr (fold_left Z.max (map fst s) hi).
Proof.
  induction s as [|[i p] s IH]; intros st hi Hs Hk Hh Hr Hw.
  - exists st. cbn. auto.
  - inversion Hs as [|x y [Hv Hq] Hs']; subst. cbn [fst snd] in *.
    cbn [map fst in_window] in Hw. destruct Hw as (Hi & Hd & Hw).
    destruct (track_step hi i Hh Hi Hd) as [He Hu].
    cbn [map snd tx_run]. rewrite protect_eq by apply Hv. rewrite Hq, Hr, He.
    assert (Hm : 0 <= Z.max hi i < 2 ^ 48) by lia.
    destruct (IH (update st (i mod 65536) (i / 65536)) (Z.max hi i) Hs'
                (same_keys_trans _ _ _ (same_keys_update _ _ _) Hk) Hm
                ltac:(rewrite ctx_rl_update, Hr; exact Hu) Hw) as (st' & E & Hk' & Hr').
    exists st'. rewrite E. cbn [map fold_left fst snd]. split; [|split; assumption].
    f_equal. f_equal. f_equal. unfold protect_out. f_equal. apply protect_body_keys. exact Hk.
Qed.

Lemma rx_run_tracks c tx0 : forall s st hi,
  crypto_ok c -> stream_ok s -> same_keys st tx0 -> 0 <= hi < 2 ^ 48 -> ctx_rl st = repr hi ->
  in_window hi (map fst s) ->
  exists st', rx_run c st (map (fun ip => spkt_of c tx0 (snd ip) (fst ip / 65536)) s) =
                (map (fun ip => Ok (snd ip)) s, st') /\
              same_keys st' tx0 /\ ctx_rl st' = repr (fold_left Z.max (map fst s) hi).
Proof.
  induction s as [|[i p] s IH]; intros st hi Hc Hs Hk Hh Hr Hw.
  - exists st. cbn. auto.
  - inversion Hs as [|x y [Hv Hq] Hs']; subst. cbn [fst snd] in *.
    cbn [map fst in_window] in Hw. destruct Hw as (Hi & Hd & Hw).
    destruct (track_step hi i Hh Hi Hd) as [He Hu].
    cbn [map snd fst rx_run].
    rewrite (rtp_roundtrip c st tx0 p (i / 65536) Hc Hv Hk) by (rewrite Hq, Hr; exact He).
    rewrite Hq.
    assert (Hm : 0 <= Z.max hi i < 2 ^ 48) by lia.
    destruct (IH (update st (i mod 65536) (i / 65536)) (Z.max hi i) Hc Hs'
                (same_keys_trans _ _ _ (same_keys_update _ _ _) Hk) Hm
                ltac:(rewrite ctx_rl_update, Hr; exact Hu) Hw) as (st' & E & Hk' & Hr').
    exists st'. rewrite E. cbn [map fold_left fst snd]. auto.
Qed.

(* fresh contexts: the first index lies in epoch 0 *)
Lemma fresh_step st i :
  ctx_rl st = (0, None) -> 0 <= i < 2 ^ 16 ->
  est_rl (ctx_rl st) (i mod 65536) = i / 65536 /\
  ctx_rl (update st (i mod 65536) (i / 65536)) = repr i.
Proof.
  intros Hr Hi. destruct (first_step i Hi) as [He Hu]. rewrite ctx_rl_update, Hr. auto.
Qed.

(* C04_history_roundtrip: a sender protecting a stream whose indices stay within its window, and a
   receiver (same keys, fresh) that is handed ANY list of those datagrams (any subset, order,
   repetition) whose indices stay within 2^15 of the highest one it has accepted: every datagram
   decodes to exactly the packet protected *)
Theorem history_roundtrip c tx0 rx0 i0 p0 sent j0 q0 recv :
  crypto_ok c -> same_keys rx0 tx0 -> ctx_rl tx0 = (0, None) -> ctx_rl rx0 = (0, None) ->
  stream_ok ((i0, p0) :: sent) -> 0 <= i0 < 2 ^ 16 -> in_window i0 (map fst sent) ->
  stream_ok ((j0, q0) :: recv) -> 0 <= j0 < 2 ^ 16 -> in_window j0 (map fst recv) ->
  fst (tx_run c tx0 (map snd ((i0, p0) :: sent))) =
    map (fun ip => Ok (protect_out c tx0 (snd ip) (fst ip / 65536))) ((i0, p0) :: sent) /\
  fst (rx_run c rx0 (map (fun ip => spkt_of c tx0 (snd ip) (fst ip / 65536)) ((j0, q0) :: recv))) =
    map (fun ip => Ok (snd ip)) ((j0, q0) :: recv).
Proof.
  intros Hc Hk Ht Hr Hs Hi Hw Hs' Hj Hw'.
  assert (B : forall x, 0 <= x < 2 ^ 16 -> 0 <= x < 2 ^ 48)
    by (intros x; change (2 ^ 16) with 65536; change (2 ^ 48) with 281474976710656; lia).
  split.
  - inversion Hs as [|x y [Hv Hq] Hs0]; subst. cbn [fst snd] in *.
    destruct (fresh_step tx0 i0 Ht Hi) as [He Hu].
    cbn [map snd fst tx_run]. rewrite protect_eq by apply Hv. rewrite Hq, He.
    destruct (tx_run_tracks c tx0 sent (update tx0 (i0 mod 65536) (i0 / 65536)) i0 Hs0
                (same_keys_update _ _ _) (B _ Hi) Hu Hw) as (st' & E & _ & _).
    rewrite E. reflexivity.
  - inversion Hs' as [|x y [Hv Hq] Hs0]; subst. cbn [fst snd] in *.
    destruct (fresh_step rx0 j0 Hr Hj) as [He Hu].
    cbn [map snd fst rx_run].
    rewrite (rtp_roundtrip c rx0 tx0 q0 (j0 / 65536) Hc Hv Hk) by (rewrite Hq; exact He).
    rewrite Hq.
    destruct (rx_run_tracks c tx0 recv (update rx0 (j0 mod 65536) (j0 / 65536)) j0 Hc Hs0
                (same_keys_trans _ _ _ (same_keys_update _ _ _) Hk) (B _ Hj) Hu Hw') as (st' & E & _ & _).
    rewrite E. reflexivity.
Qed.

(* ------------------------------------------------------------------ SRTCP round trip *)
Lemma firstn8_length (pkt : bytes) : 8 <= zlen pkt -> length (firstn 8 pkt) = 8%nat.
Proof. intros H. rewrite firstn_length. unfold zlen in H. lia. Qed.

Lemma keys_rtcp_eq a b : same_keys a b ->
  c_prof a = c_prof b /\ k_cipher (c_rtcp a) = k_cipher (c_rtcp b) /\
  (forall i, gcm_rtcp_nonce a i = gcm_rtcp_nonce b i) /\ (forall i, rtcp_iv a i = rtcp_iv b i) /\
  (forall c m, rtcp_tag c a m = rtcp_tag c b m).
Proof.
  destruct a, b. intros (H1 & H2 & H3 & H4). cbn in *. subst. repeat split.
Qed.

Theorem rtcp_roundtrip c tx rx pkt :
  crypto_ok c -> same_keys rx tx -> 8 <= zlen pkt ->
  0 <= c_rtcp_index tx -> c_rtcp_index tx + 1 < 2 ^ 31 ->
  exists out,
    protect_rtcp c tx pkt = (Ok out, set_rtcp_index tx (c_rtcp_index tx + 1)) /\
    zlen out = zlen pkt + 4 + rtcp_tag_len (c_prof tx) /\
    firstn 8 out = firstn 8 pkt /\
    unprotect_rtcp c rx out = (Ok pkt, bump_rtcp_index rx (c_rtcp_index tx + 1)).
Proof.
  change (2 ^ 31) with 2147483648.
  intros Hc Hk H8 H0 H31.
  destruct (keys_rtcp_eq rx tx Hk) as (Kp & Kc & Kn & Kiv & Kt).
  set (index := c_rtcp_index tx + 1).
  assert (Hcast : cast_u32 (c_rtcp_index tx + 1) = index).
  { unfold cast_u32, wrapu. change (2 ^ 32) with 4294967296. apply Z.mod_small. lia. }
  assert (Hiwe : Z.lor index SRTCP_E_BIT = index + 2147483648) by (apply e_bit_pack; lia).
  assert (Hof : of_be (be32 (index + 2147483648)) = index + 2147483648) by (apply of_be_be32; lia).
  assert (Hidx : Z.land (index + 2147483648) SRTCP_INDEX_MASK = index) by (apply e_bit_index; lia).
  assert (H8n : length (firstn 8 pkt) = 8%nat) by (apply firstn8_length; assumption).
  assert (Hlp : (8 <= length pkt)%nat) by (unfold zlen in H8; lia).
  unfold protect_rtcp, unprotect_rtcp. rewrite Hcast, Hiwe, Kp.
  destruct (is_gcm (c_prof tx)) eqn:Hg.
  - destruct (gcm_tag_len _ Hg) as [_ Ht]. rewrite Ht.
    destruct (Z.ltb_spec (zlen pkt) 8) as [Hlt|_]; [lia|].
    set (aad := firstn 8 pkt ++ be32 (index + 2147483648)).
    set (ct := seal c (k_cipher (c_rtcp tx)) (gcm_rtcp_nonce tx index) aad (skipn 8 pkt)).
    assert (Hct : length ct = (length pkt - 8 + 16)%nat).
    { subst ct. rewrite (seal_len c Hc), skipn_length. unfold GCM_TAG. lia. }
    set (out := firstn 8 pkt ++ ct ++ be32 (index + 2147483648)).
    assert (Hout : length out = (length pkt + 20)%nat).
    { subst out. rewrite !app_length, H8n, Hct, be32_length. lia. }
    exists out. split; [reflexivity|]. split.
    { unfold zlen, GCM_TAG. rewrite Hout. lia. }
    split. { subst out. apply firstn_len_app. symmetry. exact H8n. }
    destruct (Z.ltb_spec (zlen out) (GCM_TAG + 4)) as [Hlt|_].
    { unfold zlen, GCM_TAG in Hlt. rewrite Hout in Hlt. lia. }
    assert (E1 : skipn (length out - 4) out = be32 (index + 2147483648)).
    { subst out. rewrite app_assoc. apply skipn_len_app. rewrite !app_length, H8n, be32_length. lia. }
    assert (E2 : firstn 8 out = firstn 8 pkt).
    { subst out. apply firstn_len_app. symmetry. exact H8n. }
    assert (E3 : firstn (length out - 4 - 8) (skipn 8 out) = ct).
    { subst out. rewrite skipn_len_app by (symmetry; exact H8n).
      apply firstn_len_app. rewrite !app_length, H8n, be32_length. lia. }
    rewrite E1, E2, E3, Hof, Hidx, Kc, Kn. fold aad. subst ct. rewrite (open_seal c Hc).
    rewrite firstn_skipn. reflexivity.
  - set (enc := if 8 <? zlen pkt
                then firstn 8 pkt ++ ctr_xor c (k_cipher (c_rtcp tx)) (rtcp_iv tx index) (skipn 8 pkt)
                else pkt).
    assert (Hel : length enc = length pkt).
    { subst enc. destruct (8 <? zlen pkt); [|reflexivity].
      rewrite app_length, H8n, ctr_xor_length, skipn_length. lia. }
    set (m := enc ++ be32 (index + 2147483648)).
    assert (Hml : length m = (length pkt + 4)%nat) by (subst m; rewrite app_length, Hel, be32_length; lia).
    set (tag := rtcp_tag c tx m).
    assert (Htl : length tag = Z.to_nat (rtcp_tag_len (c_prof tx))) by (apply rtcp_tag_length; assumption).
    pose proof (rtcp_tag_len_range (c_prof tx)) as Hrng.
    exists (m ++ tag). split; [reflexivity|]. split.
    { rewrite zlen_app. unfold zlen. rewrite Hml, Htl. lia. }
    split.
    { subst m enc. destruct (8 <? zlen pkt).
      - rewrite <- !app_assoc. apply firstn_len_app. symmetry. exact H8n.
      - rewrite <- app_assoc. rewrite firstn_app. replace (8 - length pkt)%nat with 0%nat by lia.
        cbn [firstn]. apply app_nil_r. }
    destruct (Z.ltb_spec (zlen (m ++ tag)) (rtcp_tag_len (c_prof tx) + 4)) as [Hlt|_].
    { rewrite zlen_app in Hlt. unfold zlen in Hlt. rewrite Hml, Htl in Hlt. lia. }
    assert (Hsplit : (length (m ++ tag) - Z.to_nat (rtcp_tag_len (c_prof tx)))%nat = length m).
    { rewrite app_length, Htl. lia. }
    rewrite Hsplit, firstn_len_app, skipn_len_app by reflexivity.
    rewrite Kt. fold tag. rewrite bytes_eqb_refl. cbn [negb].
    assert (E1 : skipn (length m - 4) m = be32 (index + 2147483648)).
    { subst m. apply skipn_len_app. rewrite app_length, be32_length. lia. }
    assert (E2 : firstn (length m - 4) m = enc).
    { subst m. apply firstn_len_app. rewrite app_length, be32_length. lia. }
    rewrite E1, E2, Hof, Hidx, (e_bit_set index) by lia. cbn [Z.eqb negb andb].
    assert (Hz : zlen enc = zlen pkt) by (unfold zlen; rewrite Hel; reflexivity).
    rewrite Hz. subst enc.
    destruct (8 <? zlen pkt) eqn:H8'.
    + rewrite firstn_len_app by (symmetry; exact H8n). rewrite skipn_len_app by (symmetry; exact H8n).
      rewrite Kc, Kiv, ctr_xor_invol by assumption. rewrite firstn_skipn. reflexivity.
    + reflexivity.
Qed.
