(* C04 / C05 -- SrtpSession: per-SSRC independence (frame), what a session operation does to its
   own SSRC, the key split of setup_srtp, and the eviction witness (finding F23). *)
From Coq Require Import ZArith List Bool Lia.
From RV Require Import Lib.Wrap Gen.Consts Gen.SrtpArith Model.Srtp Proofs.SrtpLib Proofs.SrtpRoc Proofs.SrtpRound Proofs.SrtpReject.
Import ListNotations.
Open Scope Z_scope.

Lemma lookup_store_other e t b : en_ssrc e <> b -> lookup b (store e t) = lookup b t.
Proof.
  intros Hne. induction t as [|x t IH]; cbn [store lookup].
  - destruct (Z.eqb_spec (en_ssrc e) b); [contradiction|reflexivity].
  - destruct (Z.eqb_spec (en_ssrc x) (en_ssrc e)) as [E|E]; cbn [lookup].
    + destruct (Z.eqb_spec (en_ssrc e) b); [contradiction|].
      destruct (Z.eqb_spec (en_ssrc x) b); [congruence|reflexivity].
    + destruct (Z.eqb_spec (en_ssrc x) b); [reflexivity|exact IH].
Qed.

Lemma lookup_store_same e t : lookup (en_ssrc e) (store e t) = Some e.
Proof.
  induction t as [|x t IH]; cbn [store lookup].
  - rewrite Z.eqb_refl. reflexivity.
  - destruct (Z.eqb_spec (en_ssrc x) (en_ssrc e)) as [E|E]; cbn [lookup].
    + rewrite Z.eqb_refl. reflexivity.
    + destruct (Z.eqb_spec (en_ssrc x) (en_ssrc e)); [contradiction|exact IH].
Qed.

Lemma evict_no_pressure now keep t : zlen t <= SSRC_CONTEXT_HIGH_WATERMARK -> evict now keep t = t.
Proof. intros H. unfold evict. apply Z.leb_le in H. rewrite H. reflexivity. Qed.

Lemma store_length e t : zlen (store e t) = slots (en_ssrc e) t.
Proof.
  unfold slots, zlen. induction t as [|x t IH]; cbn [store lookup length]; [lia|].
  destruct (Z.eqb_spec (en_ssrc x) (en_ssrc e)); cbn [length]; lia.
Qed.

Lemma acquire_no_pressure c p k now ssrc t :
  zlen t <= SSRC_CONTEXT_HIGH_WATERMARK ->
  acquire c p k now ssrc t = option_map (fun x => (x, t)) (effective c p k ssrc t).
Proof.
  intros H. unfold acquire, effective. rewrite evict_no_pressure by assumption.
  destruct (lookup ssrc t); [reflexivity|]. destruct (ctx_new _ _ _ _ _); reflexivity.
Qed.

Definition same_cfg (s s' : session) : Prop :=
  s_prof s' = s_prof s /\ s_txk s' = s_txk s /\ s_rxk s' = s_rxk s.

(* ---- the sending side, generically (sess_protect_rtp / sess_protect_rtcp share this shape) *)
Definition with_tx {A : Type} (c : crypto) (s : session) (now a : Z) (op : ctx -> res A * ctx) : res A * session :=
  match acquire c (s_prof s) (s_txk s) now a (s_tx s) with
  | None => (Err EUnsupported, set_tx s (evict now a (s_tx s)))
  | Some (x, t1) => let '(r, x') := op x in (r, set_tx s (store (mkEntry a x' now) t1))
  end.

Lemma sess_protect_rtp_with c s now p :
  sess_protect_rtp c s now p = with_tx c s now (h_ssrc (r_hdr p)) (fun x => protect c x p).
Proof. reflexivity. Qed.
Lemma sess_protect_rtcp_with c s now pkt :
  sess_protect_rtcp c s now pkt =
  if zlen pkt <? SESSION_RTCP_MIN_PLAIN then (Err ETooShort, s)
  else with_tx c s now (rtcp_ssrc pkt) (fun x => protect_rtcp c x pkt).
Proof. reflexivity. Qed.

Lemma with_tx_product {A} c s now a (op : ctx -> res A * ctx) :
  zlen (s_tx s) <= SSRC_CONTEXT_HIGH_WATERMARK ->
  let s' := snd (with_tx c s now a op) in
  same_cfg s s' /\ s_rx s' = s_rx s /\
  (forall b, b <> a -> lookup b (s_tx s') = lookup b (s_tx s)) /\
  (forall x, effective c (s_prof s) (s_txk s) a (s_tx s) = Some x ->
     fst (with_tx c s now a op) = fst (op x) /\
     effective c (s_prof s) (s_txk s) a (s_tx s') = Some (snd (op x))) /\
  (effective c (s_prof s) (s_txk s) a (s_tx s) = None -> s_tx s' = s_tx s).
Proof.
  intros Hp. unfold with_tx. rewrite acquire_no_pressure, evict_no_pressure by assumption.
  destruct (effective c (s_prof s) (s_txk s) a (s_tx s)) as [x|] eqn:He; cbn [option_map].
  - destruct (op x) as [r x'] eqn:Eo. cbn [snd fst set_tx s_tx s_rx s_prof s_txk s_rxk].
    split; [repeat split|]. split; [reflexivity|]. split; [|split].
    + intros b Hb. apply lookup_store_other. cbn [en_ssrc]. congruence.
    + intros y Hy. inversion Hy; subst. rewrite Eo. split; [reflexivity|]. cbn [snd]. unfold effective.
      change a with (en_ssrc (mkEntry a x' now)) at 1. rewrite lookup_store_same. reflexivity.
    + discriminate.
  - cbn [snd fst set_tx s_tx s_rx s_prof s_txk s_rxk].
    split; [repeat split|]. split; [reflexivity|]. split; [reflexivity|]. split; [discriminate|reflexivity].
Qed.

(* ---- the receiving side (SrtpSession::with_rx_context) *)
Lemma with_rx_reject {A} c s now a (op : ctx -> res A * ctx) :
  is_ok (fst (with_rx c s now a op)) = false -> snd (with_rx c s now a op) = s.
Proof.
  unfold with_rx. destruct (effective _ _ _ _ _) as [x|]; [|reflexivity].
  destruct (op x) as [r x']. destruct (is_ok r) eqn:E; cbn [fst snd]; [congruence|reflexivity].
Qed.

Lemma with_rx_product {A} c s now a (op : ctx -> res A * ctx) :
  (forall x r x', op x = (r, x') -> is_ok r = false -> x' = x) ->
  slots a (s_rx s) <= SSRC_CONTEXT_HIGH_WATERMARK ->
  let s' := snd (with_rx c s now a op) in
  same_cfg s s' /\ s_tx s' = s_tx s /\
  (forall b, b <> a -> lookup b (s_rx s') = lookup b (s_rx s)) /\
  (forall x, effective c (s_prof s) (s_rxk s) a (s_rx s) = Some x ->
     fst (with_rx c s now a op) = fst (op x) /\
     effective c (s_prof s) (s_rxk s) a (s_rx s') = Some (snd (op x))) /\
  (effective c (s_prof s) (s_rxk s) a (s_rx s) = None -> s_rx s' = s_rx s).
Proof.
  intros Hrej Hp. unfold with_rx.
  destruct (effective c (s_prof s) (s_rxk s) a (s_rx s)) as [x|] eqn:He.
  - destruct (op x) as [r x'] eqn:Eo. destruct (is_ok r) eqn:Er; cbn [snd fst].
    + rewrite evict_no_pressure by (rewrite store_length; exact Hp).
      cbn [set_rx s_tx s_rx s_prof s_txk s_rxk].
      split; [repeat split|]. split; [reflexivity|]. split; [|split].
      * intros b Hb. apply lookup_store_other. cbn [en_ssrc]. congruence.
      * intros y Hy. inversion Hy; subst. rewrite Eo. split; [reflexivity|]. cbn [snd]. unfold effective.
        change a with (en_ssrc (mkEntry a x' now)) at 1. rewrite lookup_store_same. reflexivity.
      * discriminate.
    + split; [repeat split|]. split; [reflexivity|]. split; [reflexivity|]. split; [|discriminate].
      intros y Hy. inversion Hy; subst. rewrite Eo. split; [reflexivity|]. cbn [snd].
      rewrite (Hrej _ _ _ Eo Er). exact He.
  - cbn [snd fst]. split; [repeat split|]. split; [reflexivity|]. split; [reflexivity|]. split; [discriminate|reflexivity].
Qed.

Lemma unprotect_rejp c sp : forall x r x', unprotect c x sp = (r, x') -> is_ok r = false -> x' = x.
Proof. intros x r x'. apply reject_preserves_rtp. Qed.
Lemma unprotect_rtcp_rejp c pkt : forall x r x', unprotect_rtcp c x pkt = (r, x') -> is_ok r = false -> x' = x.
Proof. intros x r x'. apply reject_preserves_rtcp. Qed.

(* ---- C04_ssrc_frame: an operation on SSRC a leaves every other SSRC's context (and the other
   direction's table) exactly as it was, as long as the table is not under eviction pressure *)
Theorem frame_unprotect_rtp c s now sp b :
  slots (h_ssrc (sp_hdr sp)) (s_rx s) <= SSRC_CONTEXT_HIGH_WATERMARK -> b <> h_ssrc (sp_hdr sp) ->
  lookup b (s_rx (snd (sess_unprotect_rtp c s now sp))) = lookup b (s_rx s) /\
  s_tx (snd (sess_unprotect_rtp c s now sp)) = s_tx s.
Proof.
  intros Hp Hb. unfold sess_unprotect_rtp.
  destruct (with_rx_product c s now (h_ssrc (sp_hdr sp)) (fun x => unprotect c x sp) (unprotect_rejp c sp) Hp)
    as (_ & Ht & Hf & _). split; [apply Hf; exact Hb|exact Ht].
Qed.

Theorem frame_protect_rtp c s now p b :
  zlen (s_tx s) <= SSRC_CONTEXT_HIGH_WATERMARK -> b <> h_ssrc (r_hdr p) ->
  lookup b (s_tx (snd (sess_protect_rtp c s now p))) = lookup b (s_tx s) /\
  s_rx (snd (sess_protect_rtp c s now p)) = s_rx s.
Proof.
  intros Hp Hb. rewrite sess_protect_rtp_with.
  destruct (with_tx_product c s now (h_ssrc (r_hdr p)) (fun x => protect c x p) Hp) as (_ & Hr & Hf & _).
  split; [apply Hf; exact Hb|exact Hr].
Qed.

Theorem frame_unprotect_rtcp c s now pkt b :
  slots (rtcp_ssrc pkt) (s_rx s) <= SSRC_CONTEXT_HIGH_WATERMARK -> b <> rtcp_ssrc pkt ->
  lookup b (s_rx (snd (sess_unprotect_rtcp c s now pkt))) = lookup b (s_rx s) /\
  s_tx (snd (sess_unprotect_rtcp c s now pkt)) = s_tx s.
Proof.
  intros Hp Hb. unfold sess_unprotect_rtcp. destruct (_ <? _); [split; reflexivity|].
  destruct (with_rx_product c s now (rtcp_ssrc pkt) (fun x => unprotect_rtcp c x pkt) (unprotect_rtcp_rejp c pkt) Hp)
    as (_ & Ht & Hf & _). split; [apply Hf; exact Hb|exact Ht].
Qed.

Theorem frame_protect_rtcp c s now pkt b :
  zlen (s_tx s) <= SSRC_CONTEXT_HIGH_WATERMARK -> b <> rtcp_ssrc pkt ->
  lookup b (s_tx (snd (sess_protect_rtcp c s now pkt))) = lookup b (s_tx s) /\
  s_rx (snd (sess_protect_rtcp c s now pkt)) = s_rx s.
Proof.
  intros Hp Hb. rewrite sess_protect_rtcp_with. destruct (_ <? _); [split; reflexivity|].
  destruct (with_tx_product c s now (rtcp_ssrc pkt) (fun x => protect_rtcp c x pkt) Hp) as (_ & Hr & Hf & _).
  split; [apply Hf; exact Hb|exact Hr].
Qed.

(* ---- on its own SSRC a session operation IS the context operation on the effective context *)
Theorem own_unprotect_rtp c s now sp x :
  slots (h_ssrc (sp_hdr sp)) (s_rx s) <= SSRC_CONTEXT_HIGH_WATERMARK ->
  effective c (s_prof s) (s_rxk s) (h_ssrc (sp_hdr sp)) (s_rx s) = Some x ->
  fst (sess_unprotect_rtp c s now sp) = fst (unprotect c x sp) /\
  effective c (s_prof s) (s_rxk s) (h_ssrc (sp_hdr sp)) (s_rx (snd (sess_unprotect_rtp c s now sp))) =
    Some (snd (unprotect c x sp)).
Proof.
  intros Hp He. unfold sess_unprotect_rtp.
  destruct (with_rx_product c s now (h_ssrc (sp_hdr sp)) (fun x => unprotect c x sp) (unprotect_rejp c sp) Hp)
    as (_ & _ & _ & Ho & _). exact (Ho x He).
Qed.

Theorem own_protect_rtp c s now p x :
  zlen (s_tx s) <= SSRC_CONTEXT_HIGH_WATERMARK ->
  effective c (s_prof s) (s_txk s) (h_ssrc (r_hdr p)) (s_tx s) = Some x ->
  fst (sess_protect_rtp c s now p) = fst (protect c x p) /\
  effective c (s_prof s) (s_txk s) (h_ssrc (r_hdr p)) (s_tx (snd (sess_protect_rtp c s now p))) =
    Some (snd (protect c x p)).
Proof.
  intros Hp He. rewrite sess_protect_rtp_with.
  destruct (with_tx_product c s now (h_ssrc (r_hdr p)) (fun x => protect c x p) Hp) as (_ & _ & _ & Ho & _).
  exact (Ho x He).
Qed.

(* ---- C05 at session level (after the F23 fix): a rejected datagram -- known or unknown SSRC, with or
   without table pressure -- leaves the WHOLE session exactly as it was: no context is created, no
   last_used refreshed, nothing evicted *)
Theorem session_reject_preserves_rtp c s now sp :
  is_ok (fst (sess_unprotect_rtp c s now sp)) = false -> snd (sess_unprotect_rtp c s now sp) = s.
Proof. unfold sess_unprotect_rtp. apply with_rx_reject. Qed.

Theorem session_reject_preserves_rtcp c s now pkt :
  is_ok (fst (sess_unprotect_rtcp c s now pkt)) = false -> snd (sess_unprotect_rtcp c s now pkt) = s.
Proof.
  unfold sess_unprotect_rtcp. destruct (_ <? _); [reflexivity|]. apply with_rx_reject.
Qed.

(* ------------------------------------------------------------------ histories: a session is the
   product of independent per-(direction, SSRC) contexts *)
Lemma skey_eqb_eq a b : skey_eqb a b = true <-> a = b.
Proof.
  destruct a as [d1 z1], b as [d2 z2]. unfold skey_eqb. cbn [fst snd]. split.
  - intros H. apply andb_true_iff in H. destruct H as [H1 H2].
    apply Bool.eqb_prop in H1. apply Z.eqb_eq in H2. congruence.
  - intros H. inversion H; subst. rewrite Bool.eqb_reflx, Z.eqb_refl. reflexivity.
Qed.

Lemma effective_lookup c p k b t t' : lookup b t' = lookup b t -> effective c p k b t' = effective c p k b t.
Proof. unfold effective. intros ->. reflexivity. Qed.

Lemma eff_frame c s s' (d : bool) (a : Z) :
  same_cfg s s' ->
  (if d return Prop then s_rx s' = s_rx s /\ (forall b, b <> a -> lookup b (s_tx s') = lookup b (s_tx s))
   else s_tx s' = s_tx s /\ (forall b, b <> a -> lookup b (s_rx s') = lookup b (s_rx s))) ->
  forall k', k' <> (d, a) -> eff c s' k' = eff c s k'.
Proof.
  intros (C1 & C2 & C3) H [d' b] Hne. unfold eff. cbn [fst snd]. rewrite C1, C2, C3.
  destruct d, d'; destruct H as [H1 H2]; try (rewrite H1; reflexivity).
  - apply effective_lookup, H2. congruence.
  - apply effective_lookup, H2. congruence.
Qed.

Lemma step_product c s now o :
  step_calm s o ->
  (forall k', k' <> sop_key o -> eff c (snd (sess_step c s now o)) k' = eff c s k') /\
  (forall x, eff c s (sop_key o) = Some x ->
     fst (sess_step c s now o) = fst (ctx_step c x o) /\
     eff c (snd (sess_step c s now o)) (sop_key o) = Some (snd (ctx_step c x o))).
Proof.
  unfold step_calm. destruct o as [p|sp|pkt|pkt]; cbn [sop_key fst snd sess_step ctx_step]; intros Hc.
  - rewrite sess_protect_rtp_with.
    destruct (with_tx_product c s now (h_ssrc (r_hdr p)) (fun x => protect c x p) Hc) as (Cf & Hr & Hf & Ho & _).
    destruct (with_tx c s now (h_ssrc (r_hdr p)) (fun x => protect c x p)) as [r s'] eqn:E. cbn [fst snd] in *.
    split.
    + apply (eff_frame c s s' true); [exact Cf|]. split; assumption.
    + intros x Hx. unfold eff in *. cbn [fst snd] in *. destruct Cf as (C1 & C2 & C3).
      destruct (Ho x Hx) as [H1 H2]. destruct (protect c x p) as [r0 x0]. cbn [fst snd] in *.
      rewrite C1, C2. subst. auto.
  - unfold sess_unprotect_rtp.
    destruct (with_rx_product c s now (h_ssrc (sp_hdr sp)) (fun x => unprotect c x sp) (unprotect_rejp c sp) Hc)
      as (Cf & Ht & Hf & Ho & _).
    destruct (with_rx c s now (h_ssrc (sp_hdr sp)) (fun x => unprotect c x sp)) as [r s'] eqn:E. cbn [fst snd] in *.
    split.
    + apply (eff_frame c s s' false); [exact Cf|]. split; assumption.
    + intros x Hx. unfold eff in *. cbn [fst snd] in *. destruct Cf as (C1 & C2 & C3).
      destruct (Ho x Hx) as [H1 H2]. destruct (unprotect c x sp) as [r0 x0]. cbn [fst snd] in *.
      rewrite C1, C3. subst. auto.
  - rewrite sess_protect_rtcp_with. destruct (zlen pkt <? SESSION_RTCP_MIN_PLAIN).
    + cbn [fst snd]. split; [reflexivity|]. intros x Hx. auto.
    + destruct (with_tx_product c s now (rtcp_ssrc pkt) (fun x => protect_rtcp c x pkt) Hc) as (Cf & Hr & Hf & Ho & _).
      destruct (with_tx c s now (rtcp_ssrc pkt) (fun x => protect_rtcp c x pkt)) as [r s'] eqn:E. cbn [fst snd] in *.
      split.
      * apply (eff_frame c s s' true); [exact Cf|]. split; assumption.
      * intros x Hx. unfold eff in *. cbn [fst snd] in *. destruct Cf as (C1 & C2 & C3).
        destruct (Ho x Hx) as [H1 H2]. destruct (protect_rtcp c x pkt) as [r0 x0]. cbn [fst snd] in *.
        rewrite C1, C2. subst. auto.
  - unfold sess_unprotect_rtcp. destruct (zlen pkt <? SESSION_RTCP_MIN_PROTECTED).
    + cbn [fst snd]. split; [reflexivity|]. intros x Hx. auto.
    + destruct (with_rx_product c s now (rtcp_ssrc pkt) (fun x => unprotect_rtcp c x pkt) (unprotect_rtcp_rejp c pkt) Hc)
        as (Cf & Ht & Hf & Ho & _).
      destruct (with_rx c s now (rtcp_ssrc pkt) (fun x => unprotect_rtcp c x pkt)) as [r s'] eqn:E. cbn [fst snd] in *.
      split.
      * apply (eff_frame c s s' false); [exact Cf|]. split; assumption.
      * intros x Hx. unfold eff in *. cbn [fst snd] in *. destruct Cf as (C1 & C2 & C3).
        destruct (Ho x Hx) as [H1 H2]. destruct (unprotect_rtcp c x pkt) as [r0 x0]. cbn [fst snd] in *.
        rewrite C1, C3. subst. auto.
Qed.

(* C04_session_is_product: for EVERY history of protect / unprotect operations (SRTP and SRTCP, any
   SSRCs, any interleaving, any times) that runs without eviction pressure, and every (direction,
   SSRC): the outputs the session produced for that pair, and the pair's context afterwards, are those
   of a single SrtpContext run over the pair's sub-history *)
Theorem session_is_product c : forall l s k x,
  calm c s l -> eff c s k = Some x ->
  sub_outs k (fst (sess_run c s l)) = fst (ctx_run c x (sub_ops k l)) /\
  eff c (snd (sess_run c s l)) k = Some (snd (ctx_run c x (sub_ops k l))).
Proof.
  induction l as [|[now o] l IH]; intros s k x Hc He.
  - cbn. auto.
  - cbn [calm] in Hc. destruct Hc as [Hs Hc].
    destruct (step_product c s now o Hs) as [Hf Ho].
    cbn [sess_run]. destruct (sess_step c s now o) as [out s1] eqn:Es. cbn [snd fst] in *.
    unfold sub_ops, sub_outs. cbn [filter snd fst].
    destruct (skey_eqb (sop_key o) k) eqn:Ek.
    + apply skey_eqb_eq in Ek. subst k. destruct (Ho x He) as [H1 H2].
      destruct (ctx_step c x o) as [out' x1] eqn:Ec. cbn [fst snd] in *. subst out'.
      destruct (IH s1 (sop_key o) x1 Hc H2) as [I1 I2].
      destruct (sess_run c s1 l) as [outs s2]. cbn [fst snd filter map] in *.
      rewrite (proj2 (skey_eqb_eq _ _) eq_refl). cbn [map snd ctx_run]. rewrite Ec.
      fold (sub_ops (sop_key o) l). fold (sub_outs (sop_key o) outs).
      destruct (ctx_run c x1 (sub_ops (sop_key o) l)) as [os x2]. cbn [fst snd] in *. rewrite I1. auto.
    + assert (Hne : k <> sop_key o).
      { intros ->. rewrite (proj2 (skey_eqb_eq _ _) eq_refl) in Ek. discriminate. }
      rewrite <- (Hf k Hne) in He.
      destruct (IH s1 k x Hc He) as [I1 I2].
      destruct (sess_run c s1 l) as [outs s2]. cbn [fst snd filter] in *. rewrite Ek. auto.
Qed.

(* ------------------------------------------------------------------ C05_session_history: the shadow
   session.  One step of a session, tagged so that exactly the rejected RECEIVE operations count as
   rejections (sending operations are never dropped) *)
Definition as_res (o : sout) : res sout :=
  match o with
  | OTx _ => Ok o
  | ORxRtp (Ok _) | ORxRtcp (Ok _) => Ok o
  | ORxRtp (Err e) | ORxRtcp (Err e) => Err e
  | ORxRtp Panic | ORxRtcp Panic => Panic
  end.
Definition sess_rstep (c : crypto) (s : session) (i : Z * sop) : res sout * session :=
  let '(out, s') := sess_step c s (fst i) (snd i) in (as_res out, s').

Lemma sess_rstep_reject c s i r s' : sess_rstep c s i = (r, s') -> is_ok r = false -> s' = s.
Proof.
  destruct i as [now o]. unfold sess_rstep. cbn [fst snd]. destruct o as [p|sp|pkt|pkt]; cbn [sess_step].
  - destruct (sess_protect_rtp c s now p). intros H; inversion H; subst. discriminate.
  - destruct (sess_unprotect_rtp c s now sp) as [r0 s0] eqn:E. intros H Hr; inversion H; subst.
    pose proof (session_reject_preserves_rtp c s now sp) as P. rewrite E in P. cbn [fst snd] in P.
    apply P. destruct r0; cbn in *; congruence.
  - destruct (sess_protect_rtcp c s now pkt). intros H; inversion H; subst. discriminate.
  - destruct (sess_unprotect_rtcp c s now pkt) as [r0 s0] eqn:E. intros H Hr; inversion H; subst.
    pose proof (session_reject_preserves_rtcp c s now pkt) as P. rewrite E in P. cbn [fst snd] in P.
    apply P. destruct r0; cbn in *; congruence.
Qed.

Theorem session_shadow c : forall l s,
  dropped_rejected _ _ _ (sess_rstep c) s l = true ->
  run _ _ _ (sess_rstep c) s (kept _ l) = run_kept _ _ _ (sess_rstep c) s l.
Proof. intros l s. apply shadow. intros s0 i r s'. apply sess_rstep_reject. Qed.

Theorem session_shadow_accepted c : forall l s,
  run _ _ _ (sess_rstep c) s (kept _ (mark_accepted _ _ _ (sess_rstep c) s l)) =
  (filter is_ok (fst (run _ _ _ (sess_rstep c) s l)), snd (run _ _ _ (sess_rstep c) s l)).
Proof. intros l s. apply shadow_accepted. intros s0 i r s'. apply sess_rstep_reject. Qed.

(* ---- C04_key_split: setup_srtp gives the two DTLS roles mirrored keys from the same exporter
   output, for every negotiated profile code (unknown codes fall back to the same default on both
   sides because the table does not depend on the role); and the lengths it cuts are exactly the
   lengths SrtpContext::new requires *)
Theorem key_split_mirror code mat :
  fst (key_split true code mat) = snd (key_split false code mat) /\
  snd (key_split true code mat) = fst (key_split false code mat).
Proof. unfold key_split. cbn [fst snd]. split; reflexivity. Qed.

Theorem setup_lengths_agree p :
  setup_key_len p = key_len p /\ setup_salt_len p = salt_len p /\ setup_slicing_as_modelled = true.
Proof. destruct p; repeat split. Qed.

Lemma slice_length a b l : 0 <= a <= b -> b <= zlen l -> zlen (slice a b l) = b - a.
Proof.
  intros H1 H2. unfold slice, zlen in *. rewrite firstn_length, skipn_length. lia.
Qed.

Theorem key_split_accepted c ssrc role code mat :
  2 * (setup_key_len (setup_profile code) + setup_salt_len (setup_profile code)) <= zlen mat ->
  ctx_new c ssrc (setup_profile code) (fst (fst (key_split role code mat))) (snd (fst (key_split role code mat))) <> None /\
  ctx_new c ssrc (setup_profile code) (fst (snd (key_split role code mat))) (snd (snd (key_split role code mat))) <> None.
Proof.
  set (p := setup_profile code). intros Hlen. unfold key_split. fold p.
  destruct (setup_lengths_agree p) as (Hk & Hs & _).
  assert (Hkp : 0 < key_len p) by (destruct p; reflexivity).
  assert (Hsp : 0 < salt_len p) by (destruct p; reflexivity).
  rewrite Hk, Hs in *.
  assert (A : forall k s, zlen k = key_len p -> zlen s = salt_len p -> ctx_new c ssrc p k s <> None).
  { intros k s Ek Es. unfold ctx_new. rewrite Ek, Es, !Z.ltb_irrefl. cbn [orb].
    destruct (derive c p k s). congruence. }
  destruct role; cbn [fst snd]; split; apply A; rewrite slice_length; lia.
Qed.

(* ------------------------------------------------------------------ F23: eviction (model witness)
   A toy instance of the primitives that satisfies crypto_ok, used only to evaluate the witness. *)
Definition toy : crypto :=
  mkCrypto (fun _ _ n => repeat 0 n)
           (fun _ m => repeat (fold_left Z.add m 0 mod 256) 20)
           (fun _ _ _ m => m ++ repeat 7 16)
           (fun _ _ _ b => Some (firstn (length b - 16) b)).

Lemma toy_ok : crypto_ok toy.
Proof.
  constructor; cbn [ks mac seal open toy]; intros.
  - apply repeat_length.
  - apply repeat_length.
  - rewrite app_length, repeat_length. reflexivity.
  - f_equal. apply firstn_len_app. rewrite app_length, repeat_length. lia.
Qed.

Definition w_keys : bytes * bytes := (repeat 1 16, repeat 2 14).
Definition w_pkt (ssrc seq : Z) : rtp := mkRtp (mkHdr false 96 seq 0 ssrc [] None) [1; 2; 3] 0.
Definition w_forged (ssrc : Z) : spkt := mkSpkt (mkHdr false 96 5 0 ssrc [] None) (repeat 0 13) false.

(* sender and receiver sessions after the genuine stream 0, 32767, 65534, 65546 (ROC 1) at time 0 *)
Fixpoint w_feed (tx rx : session) (seqs : list Z) : session * session * list bool :=
  match seqs with
  | [] => (tx, rx, [])
  | q :: r =>
      let '(o, tx1) := sess_protect_rtp toy tx 0 (w_pkt 77 q) in
      match o with
      | Ok raw =>
          match spkt_parse raw with
          | Some sp => let '(o2, rx1) := sess_unprotect_rtp toy rx 0 sp in
                       let '(t, x, l) := w_feed tx1 rx1 r in (t, x, is_ok o2 :: l)
          | None => (tx1, rx, [])
          end
      | _ => (tx1, rx, [])
      end
  end.

Definition w_state := w_feed (session_new SrtpProfile_Aes128Sha1_80 w_keys w_keys)
                             (session_new SrtpProfile_Aes128Sha1_80 w_keys w_keys) [0; 32767; 65534; 10].

(* the next genuine packet (index 65547), protected now, delivered at time `now` *)
Definition w_next (now : Z) (rx : session) : bool :=
  let '(tx, _, _) := w_state in
  match fst (sess_protect_rtp toy tx now (w_pkt 77 11)) with
  | Ok raw => match spkt_parse raw with Some sp => is_ok (fst (sess_unprotect_rtp toy rx now sp)) | None => false end
  | _ => false
  end.

(* 33 forged packets with fresh SSRCs, delivered at time `now` *)
Fixpoint w_flood (rx : session) (now : Z) (ssrc : Z) (n : nat) : session * bool :=
  match n with
  | O => (rx, true)
  | S n' => let '(o, rx1) := sess_unprotect_rtp toy rx now (w_forged ssrc) in
            let '(rx2, all_rejected) := w_flood rx1 now (ssrc + 1) n' in (rx2, negb (is_ok o) && all_rejected)
  end.

(* n further genuinely authenticated streams (their own sender session), delivered at time `now` *)
Fixpoint w_auth_flood (tx2 rx : session) (now ssrc : Z) (n : nat) : session :=
  match n with
  | O => rx
  | S n' =>
      let '(o, tx2') := sess_protect_rtp toy tx2 now (w_pkt ssrc 1) in
      match o with
      | Ok raw => match spkt_parse raw with
                  | Some sp => w_auth_flood tx2' (snd (sess_unprotect_rtp toy rx now sp)) now (ssrc + 1) n'
                  | None => rx
                  end
      | _ => rx
      end
  end.
Definition w_tx2 : session := session_new SrtpProfile_Aes128Sha1_80 w_keys w_keys.

(* After the F23 fix: the four genuine packets are accepted; 61 s later 33 forged packets with fresh
   SSRCs are all rejected and leave the session EXACTLY as it was, so the next genuine packet is
   accepted.  What remains of F23: 32 further *authenticated* SSRCs put 33 contexts into the table and
   the genuine context, idle for 60 s, is evicted with its rollover counter (31 further SSRCs, or
   59 s, lose nothing) *)
Theorem eviction_witness :
  crypto_ok toy /\
  snd w_state = [true; true; true; true] /\
  w_next 61 (snd (fst w_state)) = true /\
  snd (w_flood (snd (fst w_state)) 61 1000 33) = true /\
  fst (w_flood (snd (fst w_state)) 61 1000 33) = snd (fst w_state) /\
  w_next 61 (w_auth_flood w_tx2 (snd (fst w_state)) 61 2000 32) = false /\
  w_next 61 (w_auth_flood w_tx2 (snd (fst w_state)) 61 2000 31) = true /\
  w_next 59 (w_auth_flood w_tx2 (snd (fst w_state)) 59 2000 32) = true.
Proof. split; [exact toy_ok|]. vm_compute. repeat split. Qed.

(* the sending side has the same table: a sender with more than 32 SSRCs evicts a stream idle for 60 s
   and restarts it at ROC 0, which the (untouched) receiver refuses *)
Fixpoint w_tx_flood (tx : session) (now ssrc : Z) (n : nat) : session :=
  match n with
  | O => tx
  | S n' => w_tx_flood (snd (sess_protect_rtp toy tx now (w_pkt ssrc 1))) now (ssrc + 1) n'
  end.

Definition w_tx_next (now : Z) (tx rx : session) : bool :=
  match fst (sess_protect_rtp toy tx now (w_pkt 77 11)) with
  | Ok raw => match spkt_parse raw with Some sp => is_ok (fst (sess_unprotect_rtp toy rx now sp)) | None => false end
  | _ => false
  end.

Theorem tx_eviction_witness :
  let tx := fst (fst w_state) in let rx := snd (fst w_state) in
  w_tx_next 61 tx rx = true /\
  w_tx_next 61 (w_tx_flood tx 61 2000 33) rx = false /\
  w_tx_next 61 (w_tx_flood tx 61 2000 32) rx = true /\
  w_tx_next 59 (w_tx_flood tx 59 2000 33) rx = true.
Proof. vm_compute. repeat split. Qed.

(* the premise of session_is_product is satisfiable (and decidable by evaluation) *)
Example calm_example :
  calm toy (session_new SrtpProfile_Aes128Sha1_80 w_keys w_keys)
       [(0, SProtRtp (w_pkt 77 0)); (0, SProtRtp (w_pkt 78 5)); (1, SUnprotRtp (w_forged 9));
        (2, SProtRtcp [128; 201; 0; 1; 0; 0; 0; 77]); (3, SUnprotRtcp (repeat 0 30))].
Proof. vm_compute. repeat split; try (intro H; discriminate H). Qed.
