(* C04 / C05 -- SrtpSession: per-SSRC independence (frame), what a session operation does to its
   own SSRC, the key split of setup_srtp, and the eviction witness (finding F23). *)
From Coq Require Import ZArith List Bool Lia.
From RV Require Import Lib.Wrap Gen.Consts Gen.SrtpArith Model.Srtp Proofs.SrtpLib Proofs.SrtpRoc Proofs.SrtpRound Proofs.SrtpReject.
Import ListNotations.
Open Scope Z_scope.

Lemma lookup_store_other e t b : en_ssrc e <> b -> lookup b (store e t) = lookup b t.
Proof.
  intros Hne. induction t as [|x t IH]; cbn [store lookup].
  - destruct (Z.eqb_spec (en_ssrc e) b); [contradiction|reflexivity].
  - destruct (Z.eqb_spec (en_ssrc x) (en_ssrc e)) as [E|E]; cbn [lookup].
    + destruct (Z.eqb_spec (en_ssrc e) b); [contradiction|].
      destruct (Z.eqb_spec (en_ssrc x) b); [congruence|reflexivity].
    + destruct (Z.eqb_spec (en_ssrc x) b); [reflexivity|exact IH].
Qed.

Lemma lookup_store_same e t : lookup (en_ssrc e) (store e t) = Some e.
Proof.
  induction t as [|x t IH]; cbn [store lookup].
  - rewrite Z.eqb_refl. reflexivity.
  - destruct (Z.eqb_spec (en_ssrc x) (en_ssrc e)) as [E|E]; cbn [lookup].
    + rewrite Z.eqb_refl. reflexivity.
    + destruct (Z.eqb_spec (en_ssrc x) (en_ssrc e)); [contradiction|exact IH].
Qed.

Lemma evict_no_pressure now keep t : zlen t <= SSRC_CONTEXT_HIGH_WATERMARK -> evict now keep t = t.
Proof. intros H. unfold evict. apply Z.leb_le in H. rewrite H. reflexivity. Qed.

(* the context a session would use for an SSRC: the stored one, else a fresh one *)
Definition effective (c : crypto) (p : SrtpProfile) (k : bytes * bytes) (ssrc : Z) (t : list entry) : option ctx :=
  match lookup ssrc t with
  | Some e => Some (en_ctx e)
  | None => ctx_new c ssrc p (fst k) (snd k)
  end.

Lemma acquire_no_pressure c p k now ssrc t :
  zlen t <= SSRC_CONTEXT_HIGH_WATERMARK ->
  acquire c p k now ssrc t = option_map (fun x => (x, t)) (effective c p k ssrc t).
Proof.
  intros H. unfold acquire, effective. rewrite evict_no_pressure by assumption.
  destruct (lookup ssrc t); [reflexivity|]. destruct (ctx_new _ _ _ _ _); reflexivity.
Qed.

(* ---- C04_ssrc_frame: an operation on SSRC a leaves every other SSRC's context (and the other
   direction's table) exactly as it was, as long as the table is not under eviction pressure *)
Theorem frame_unprotect_rtp c s now sp b :
  zlen (s_rx s) <= SSRC_CONTEXT_HIGH_WATERMARK -> b <> h_ssrc (sp_hdr sp) ->
  lookup b (s_rx (snd (sess_unprotect_rtp c s now sp))) = lookup b (s_rx s) /\
  s_tx (snd (sess_unprotect_rtp c s now sp)) = s_tx s.
Proof.
  intros Hp Hb. unfold sess_unprotect_rtp. rewrite acquire_no_pressure, evict_no_pressure by assumption.
  destruct (effective _ _ _ _ _) as [x|]; cbn [option_map]; [|split; reflexivity].
  destruct (unprotect c x sp) as [r x']. cbn [snd set_rx s_rx s_tx]. split; [|reflexivity].
  apply lookup_store_other. cbn [en_ssrc]. congruence.
Qed.

Theorem frame_protect_rtp c s now p b :
  zlen (s_tx s) <= SSRC_CONTEXT_HIGH_WATERMARK -> b <> h_ssrc (r_hdr p) ->
  lookup b (s_tx (snd (sess_protect_rtp c s now p))) = lookup b (s_tx s) /\
  s_rx (snd (sess_protect_rtp c s now p)) = s_rx s.
Proof.
  intros Hp Hb. unfold sess_protect_rtp. rewrite acquire_no_pressure, evict_no_pressure by assumption.
  destruct (effective _ _ _ _ _) as [x|]; cbn [option_map]; [|split; reflexivity].
  destruct (protect c x p) as [r x']. cbn [snd set_tx s_rx s_tx]. split; [|reflexivity].
  apply lookup_store_other. cbn [en_ssrc]. congruence.
Qed.

Theorem frame_unprotect_rtcp c s now pkt b :
  zlen (s_rx s) <= SSRC_CONTEXT_HIGH_WATERMARK -> b <> rtcp_ssrc pkt ->
  lookup b (s_rx (snd (sess_unprotect_rtcp c s now pkt))) = lookup b (s_rx s) /\
  s_tx (snd (sess_unprotect_rtcp c s now pkt)) = s_tx s.
Proof.
  intros Hp Hb. unfold sess_unprotect_rtcp. destruct (_ <? _); [split; reflexivity|].
  rewrite acquire_no_pressure, evict_no_pressure by assumption.
  destruct (effective _ _ _ _ _) as [x|]; cbn [option_map]; [|split; reflexivity].
  destruct (unprotect_rtcp c x pkt) as [r x']. cbn [snd set_rx s_rx s_tx]. split; [|reflexivity].
  apply lookup_store_other. cbn [en_ssrc]. congruence.
Qed.

Theorem frame_protect_rtcp c s now pkt b :
  zlen (s_tx s) <= SSRC_CONTEXT_HIGH_WATERMARK -> b <> rtcp_ssrc pkt ->
  lookup b (s_tx (snd (sess_protect_rtcp c s now pkt))) = lookup b (s_tx s) /\
  s_rx (snd (sess_protect_rtcp c s now pkt)) = s_rx s.
Proof.
  intros Hp Hb. unfold sess_protect_rtcp. destruct (_ <? _); [split; reflexivity|].
  rewrite acquire_no_pressure, evict_no_pressure by assumption.
  destruct (effective _ _ _ _ _) as [x|]; cbn [option_map]; [|split; reflexivity].
  destruct (protect_rtcp c x pkt) as [r x']. cbn [snd set_tx s_rx s_tx]. split; [|reflexivity].
  apply lookup_store_other. cbn [en_ssrc]. congruence.
Qed.

(* ---- on its own SSRC a session operation IS the context operation on the effective context *)
Theorem own_unprotect_rtp c s now sp x :
  zlen (s_rx s) <= SSRC_CONTEXT_HIGH_WATERMARK ->
  effective c (s_prof s) (s_rxk s) (h_ssrc (sp_hdr sp)) (s_rx s) = Some x ->
  fst (sess_unprotect_rtp c s now sp) = fst (unprotect c x sp) /\
  effective c (s_prof s) (s_rxk s) (h_ssrc (sp_hdr sp)) (s_rx (snd (sess_unprotect_rtp c s now sp))) =
    Some (snd (unprotect c x sp)).
Proof.
  intros Hp He. unfold sess_unprotect_rtp. rewrite acquire_no_pressure by assumption. rewrite He. cbn [option_map].
  destruct (unprotect c x sp) as [r x']. cbn [fst snd set_rx s_rx s_prof s_rxk]. split; [reflexivity|].
  unfold effective.
  change (h_ssrc (sp_hdr sp)) with (en_ssrc (mkEntry (h_ssrc (sp_hdr sp)) x' now)) at 1.
  rewrite lookup_store_same. reflexivity.
Qed.

Theorem own_protect_rtp c s now p x :
  zlen (s_tx s) <= SSRC_CONTEXT_HIGH_WATERMARK ->
  effective c (s_prof s) (s_txk s) (h_ssrc (r_hdr p)) (s_tx s) = Some x ->
  fst (sess_protect_rtp c s now p) = fst (protect c x p) /\
  effective c (s_prof s) (s_txk s) (h_ssrc (r_hdr p)) (s_tx (snd (sess_protect_rtp c s now p))) =
    Some (snd (protect c x p)).
Proof.
  intros Hp He. unfold sess_protect_rtp. rewrite acquire_no_pressure by assumption. rewrite He. cbn [option_map].
  destruct (protect c x p) as [r x']. cbn [fst snd set_tx s_tx s_prof s_txk]. split; [reflexivity|].
  unfold effective.
  change (h_ssrc (r_hdr p)) with (en_ssrc (mkEntry (h_ssrc (r_hdr p)) x' now)) at 1.
  rewrite lookup_store_same. reflexivity.
Qed.

(* ---- C05 at session level: a rejected packet leaves the EFFECTIVE context of every SSRC unchanged
   (a context created by a forgery is indistinguishable from no context), absent eviction pressure *)
Theorem session_reject_preserves_rtp c s now sp b :
  zlen (s_rx s) <= SSRC_CONTEXT_HIGH_WATERMARK ->
  is_ok (fst (sess_unprotect_rtp c s now sp)) = false ->
  effective c (s_prof s) (s_rxk s) b (s_rx (snd (sess_unprotect_rtp c s now sp))) =
  effective c (s_prof s) (s_rxk s) b (s_rx s) /\
  s_tx (snd (sess_unprotect_rtp c s now sp)) = s_tx s.
Proof.
  intros Hp Hr. destruct (Z.eq_dec b (h_ssrc (sp_hdr sp))) as [->|Hne].
  - destruct (effective c (s_prof s) (s_rxk s) (h_ssrc (sp_hdr sp)) (s_rx s)) as [x|] eqn:He.
    + destruct (own_unprotect_rtp c s now sp x Hp He) as [H1 H2]. rewrite H1 in Hr.
      split.
      * rewrite H2. f_equal. destruct (unprotect c x sp) as [r x'] eqn:E. cbn [fst snd] in *.
        apply (reject_preserves_rtp c x sp r x' E Hr).
      * unfold sess_unprotect_rtp. rewrite acquire_no_pressure by assumption. rewrite He. cbn [option_map].
        destruct (unprotect c x sp). reflexivity.
    + unfold sess_unprotect_rtp. rewrite acquire_no_pressure, evict_no_pressure by assumption. rewrite He.
      cbn [option_map snd set_rx s_rx s_tx]. split; [exact He|reflexivity].
  - destruct (frame_unprotect_rtp c s now sp b Hp Hne) as [H1 H2]. split; [|exact H2].
    unfold effective. rewrite H1. reflexivity.
Qed.

Theorem session_reject_preserves_rtcp c s now pkt b :
  zlen (s_rx s) <= SSRC_CONTEXT_HIGH_WATERMARK ->
  is_ok (fst (sess_unprotect_rtcp c s now pkt)) = false ->
  effective c (s_prof s) (s_rxk s) b (s_rx (snd (sess_unprotect_rtcp c s now pkt))) =
  effective c (s_prof s) (s_rxk s) b (s_rx s) /\
  s_tx (snd (sess_unprotect_rtcp c s now pkt)) = s_tx s.
Proof.
  intros Hp Hr. unfold sess_unprotect_rtcp in *. destruct (_ <? _); [split; reflexivity|].
  rewrite acquire_no_pressure, evict_no_pressure in * by assumption.
  destruct (effective c (s_prof s) (s_rxk s) (rtcp_ssrc pkt) (s_rx s)) as [x|] eqn:He; cbn [option_map] in *.
  - destruct (unprotect_rtcp c x pkt) as [r x'] eqn:E. cbn [fst snd set_rx s_rx s_tx] in *.
    split; [|reflexivity].
    pose proof (reject_preserves_rtcp c x pkt r x' E Hr) as ->.
    unfold effective. destruct (Z.eq_dec b (rtcp_ssrc pkt)) as [->|Hne].
    + change (rtcp_ssrc pkt) with (en_ssrc (mkEntry (rtcp_ssrc pkt) x now)) at 1.
      rewrite lookup_store_same. unfold effective in He. cbn [en_ctx].
      destruct (lookup (rtcp_ssrc pkt) (s_rx s)); congruence.
    + rewrite lookup_store_other by (cbn [en_ssrc]; congruence). reflexivity.
  - cbn [snd set_rx s_rx s_tx]. split; reflexivity.
Qed.

(* ---- C04_key_split: setup_srtp gives the two DTLS roles mirrored keys from the same exporter
   output, for every negotiated profile code (unknown codes fall back to the same default on both
   sides because the table does not depend on the role); and the lengths it cuts are exactly the
   lengths SrtpContext::new requires *)
Theorem key_split_mirror code mat :
  fst (key_split true code mat) = snd (key_split false code mat) /\
  snd (key_split true code mat) = fst (key_split false code mat).
Proof. unfold key_split. cbn [fst snd]. split; reflexivity. Qed.

Theorem setup_lengths_agree p :
  setup_key_len p = key_len p /\ setup_salt_len p = salt_len p /\ setup_slicing_as_modelled = true.
Proof. destruct p; repeat split. Qed.

Lemma slice_length a b l : 0 <= a <= b -> b <= zlen l -> zlen (slice a b l) = b - a.
Proof.
  intros H1 H2. unfold slice, zlen in *. rewrite firstn_length, skipn_length. lia.
Qed.

Theorem key_split_accepted c ssrc role code mat :
  2 * (setup_key_len (setup_profile code) + setup_salt_len (setup_profile code)) <= zlen mat ->
  ctx_new c ssrc (setup_profile code) (fst (fst (key_split role code mat))) (snd (fst (key_split role code mat))) <> None /\
  ctx_new c ssrc (setup_profile code) (fst (snd (key_split role code mat))) (snd (snd (key_split role code mat))) <> None.
Proof.
  set (p := setup_profile code). intros Hlen. unfold key_split. fold p.
  destruct (setup_lengths_agree p) as (Hk & Hs & _).
  assert (Hkp : 0 < key_len p) by (destruct p; reflexivity).
  assert (Hsp : 0 < salt_len p) by (destruct p; reflexivity).
  rewrite Hk, Hs in *.
  assert (A : forall k s, zlen k = key_len p -> zlen s = salt_len p -> ctx_new c ssrc p k s <> None).
  { intros k s Ek Es. unfold ctx_new. rewrite Ek, Es, !Z.ltb_irrefl. cbn [orb].
    destruct (derive c p k s). congruence. }
  destruct role; cbn [fst snd]; split; apply A; rewrite slice_length; lia.
Qed.

(* ------------------------------------------------------------------ F23: eviction (model witness)
   A toy instance of the primitives that satisfies crypto_ok, used only to evaluate the witness. *)
Definition toy : crypto :=
  mkCrypto (fun _ _ n => repeat 0 n)
           (fun _ m => repeat (fold_left Z.add m 0 mod 256) 20)
           (fun _ _ _ m => m ++ repeat 7 16)
           (fun _ _ _ b => Some (firstn (length b - 16) b)).

Lemma toy_ok : crypto_ok toy.
Proof.
  constructor; cbn [ks mac seal open toy]; intros.
  - apply repeat_length.
  - apply repeat_length.
  - rewrite app_length, repeat_length. reflexivity.
  - f_equal. apply firstn_len_app. rewrite app_length, repeat_length. lia.
Qed.

Definition w_keys : bytes * bytes := (repeat 1 16, repeat 2 14).
Definition w_pkt (ssrc seq : Z) : rtp := mkRtp (mkHdr false 96 seq 0 ssrc [] None) [1; 2; 3] 0.
Definition w_forged (ssrc : Z) : spkt := mkSpkt (mkHdr false 96 5 0 ssrc [] None) (repeat 0 13) false.

(* sender and receiver sessions after the genuine stream 0, 32767, 65534, 65546 (ROC 1) at time 0 *)
Fixpoint w_feed (tx rx : session) (seqs : list Z) : session * session * list bool :=
  match seqs with
  | [] => (tx, rx, [])
  | q :: r =>
      let '(o, tx1) := sess_protect_rtp toy tx 0 (w_pkt 77 q) in
      match o with
      | Ok raw =>
          match spkt_parse raw with
          | Some sp => let '(o2, rx1) := sess_unprotect_rtp toy rx 0 sp in
                       let '(t, x, l) := w_feed tx1 rx1 r in (t, x, is_ok o2 :: l)
          | None => (tx1, rx, [])
          end
      | _ => (tx1, rx, [])
      end
  end.

Definition w_state := w_feed (session_new SrtpProfile_Aes128Sha1_80 w_keys w_keys)
                             (session_new SrtpProfile_Aes128Sha1_80 w_keys w_keys) [0; 32767; 65534; 10].

(* the next genuine packet (index 65547), protected now, delivered at time `now` *)
Definition w_next (now : Z) (rx : session) : bool :=
  let '(tx, _, _) := w_state in
  match fst (sess_protect_rtp toy tx now (w_pkt 77 11)) with
  | Ok raw => match spkt_parse raw with Some sp => is_ok (fst (sess_unprotect_rtp toy rx now sp)) | None => false end
  | _ => false
  end.

(* 33 forged packets with fresh SSRCs, delivered at time `now` *)
Fixpoint w_flood (rx : session) (now : Z) (ssrc : Z) (n : nat) : session * bool :=
  match n with
  | O => (rx, true)
  | S n' => let '(o, rx1) := sess_unprotect_rtp toy rx now (w_forged ssrc) in
            let '(rx2, all_rejected) := w_flood rx1 now (ssrc + 1) n' in (rx2, negb (is_ok o) && all_rejected)
  end.

(* C05_context_table_refuted / C04_eviction_refuted: all four genuine packets are accepted; 61 s later
   the next genuine packet is still accepted by the untouched receiver, but after 33 forged packets
   (every one of them rejected) the same packet is refused: the forgeries filled the table and the
   genuine context, idle for 60 s, was evicted together with its rollover counter *)
Theorem eviction_witness :
  crypto_ok toy /\
  snd w_state = [true; true; true; true] /\
  w_next 61 (snd (fst w_state)) = true /\
  snd (w_flood (snd (fst w_state)) 61 1000 33) = true /\
  w_next 61 (fst (w_flood (snd (fst w_state)) 61 1000 33)) = false /\
  (* with 32 forgeries (no pressure yet) or within 60 s nothing is lost *)
  w_next 61 (fst (w_flood (snd (fst w_state)) 61 1000 32)) = true /\
  w_next 59 (fst (w_flood (snd (fst w_state)) 59 1000 33)) = true.
Proof. split; [exact toy_ok|]. vm_compute. repeat split. Qed.

(* the sending side has the same table: a sender with more than 32 SSRCs evicts a stream idle for 60 s
   and restarts it at ROC 0, which the (untouched) receiver refuses *)
Fixpoint w_tx_flood (tx : session) (now ssrc : Z) (n : nat) : session :=
  match n with
  | O => tx
  | S n' => w_tx_flood (snd (sess_protect_rtp toy tx now (w_pkt ssrc 1))) now (ssrc + 1) n'
  end.

Definition w_tx_next (now : Z) (tx rx : session) : bool :=
  match fst (sess_protect_rtp toy tx now (w_pkt 77 11)) with
  | Ok raw => match spkt_parse raw with Some sp => is_ok (fst (sess_unprotect_rtp toy rx now sp)) | None => false end
  | _ => false
  end.

Theorem tx_eviction_witness :
  let tx := fst (fst w_state) in let rx := snd (fst w_state) in
  w_tx_next 61 tx rx = true /\
  w_tx_next 61 (w_tx_flood tx 61 2000 33) rx = false /\
  w_tx_next 61 (w_tx_flood tx 61 2000 32) rx = true /\
  w_tx_next 59 (w_tx_flood tx 59 2000 33) rx = true.
Proof. vm_compute. repeat split. Qed.
