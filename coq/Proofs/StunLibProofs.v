(* C16 -- lemmas about the byte-string helpers of Model/StunLib.v *)
From Coq Require Import ZArith Lia List Bool.
From RV Require Import Lib.Wrap.
From RV Require Import Model.StunLib.
Import ListNotations.
Open Scope Z_scope.

Ltac Zify.zify_post_hook ::= Z.div_mod_to_equations.

(* ---- lengths *)
Lemma zlen_nil {A} : zlen (@nil A) = 0.
Proof. reflexivity. Qed.
Lemma zlen_cons {A} (x : A) l : zlen (x :: l) = 1 + zlen l.
Proof. unfold zlen. cbn [length]. lia. Qed.
Lemma zlen_app {A} (a b : list A) : zlen (a ++ b) = zlen a + zlen b.
Proof. unfold zlen. rewrite app_length. lia. Qed.
Lemma zlen_nonneg {A} (l : list A) : 0 <= zlen l.
Proof. unfold zlen. lia. Qed.
Lemma zlen_be16 x : zlen (be16 x) = 2.
Proof. reflexivity. Qed.
Lemma zlen_be32 x : zlen (be32 x) = 4.
Proof. reflexivity. Qed.
Lemma zlen_be64 x : zlen (be64 x) = 8.
Proof. reflexivity. Qed.
Lemma zlen_zeros n : 0 <= n -> zlen (zeros n) = n.
Proof. intros H. unfold zlen, zeros. rewrite repeat_length. lia. Qed.
Lemma zeros_0 : zeros 0 = [].
Proof. reflexivity. Qed.
Lemma length_zlen {A} (l : list A) n : zlen l = Z.of_nat n -> length l = n.
Proof. unfold zlen. lia. Qed.

(* ---- padding *)
Lemma pad4_range n : 0 <= pad4 n < 4.
Proof. unfold pad4. lia. Qed.
Lemma pad4_aligned n : (n + pad4 n) mod 4 = 0.
Proof. unfold pad4. lia. Qed.
Lemma pad4_0 n : n mod 4 = 0 -> pad4 n = 0.
Proof. unfold pad4. lia. Qed.
Lemma pad4_add a b : a mod 4 = 0 -> pad4 (a + b) = pad4 b.
Proof. unfold pad4. lia. Qed.

(* ---- big endian *)
Lemma of_be16_be16 x : 0 <= x < 65536 -> of_be16 ((x / 256) mod 256) (x mod 256) = x.
Proof. unfold of_be16. lia. Qed.
Lemma of_be32_be32 x : 0 <= x < 4294967296 ->
  of_be32 ((x / 16777216) mod 256) ((x / 65536) mod 256) ((x / 256) mod 256) (x mod 256) = x.
Proof. unfold of_be32. lia. Qed.
Lemma be16_bytes x : bytes (be16 x).
Proof. unfold be16, bytes, is_byte. repeat constructor; lia. Qed.
Lemma be32_bytes x : bytes (be32 x).
Proof. unfold be32, bytes, is_byte. repeat constructor; lia. Qed.

(* ---- firstn / skipn over appends *)
Lemma firstn_app_exact {A} (a b : list A) n : length a = n -> firstn n (a ++ b) = a.
Proof. intros <-. rewrite firstn_app, Nat.sub_diag, firstn_all. cbn. apply app_nil_r. Qed.
Lemma skipn_app_exact {A} (a b : list A) n : length a = n -> skipn n (a ++ b) = b.
Proof. intros <-. rewrite skipn_app, Nat.sub_diag, skipn_all. reflexivity. Qed.

(* ---- xor *)
Lemma lxor_cancel a b : Z.lxor (Z.lxor a b) b = a.
Proof. rewrite Z.lxor_assoc, Z.lxor_nilpotent, Z.lxor_0_r. reflexivity. Qed.

Lemma lxor_bound n a b : 0 <= n -> 0 <= a < 2 ^ n -> 0 <= b < 2 ^ n -> 0 <= Z.lxor a b < 2 ^ n.
Proof.
  intros Hn Ha Hb. split.
  - apply Z.lxor_nonneg. lia.
  - destruct (Z.eq_dec (Z.lxor a b) 0) as [E | NE].
    + rewrite E. apply Z.pow_pos_nonneg; lia.
    + assert (Hx : 0 <= Z.lxor a b) by (apply Z.lxor_nonneg; lia).
      apply Z.log2_lt_pow2; [lia |].
      assert (Hnz : 0 < n).
      { destruct (Z.eq_dec n 0) as [-> | ]; [| lia]. exfalso. apply NE.
        change (2 ^ 0) with 1 in *. assert (a = 0) by lia. assert (b = 0) by lia. subst. reflexivity. }
      pose proof (Z.log2_lxor a b ltac:(lia) ltac:(lia)) as Hl.
      assert (La : Z.log2 a < n).
      { destruct (Z.eq_dec a 0) as [-> | ]; [cbn; lia |]. apply Z.log2_lt_pow2; lia. }
      assert (Lb : Z.log2 b < n).
      { destruct (Z.eq_dec b 0) as [-> | ]; [cbn; lia |]. apply Z.log2_lt_pow2; lia. }
      lia.
Qed.

Lemma xor_bytes_cancel : forall a b, (length a <= length b)%nat -> xor_bytes (xor_bytes a b) b = a.
Proof.
  induction a as [| x a IH]; intros [| y b] H; cbn in *; try reflexivity; try lia.
  rewrite lxor_cancel, IH by lia. reflexivity.
Qed.
Lemma xor_bytes_length : forall a b, (length a <= length b)%nat -> length (xor_bytes a b) = length a.
Proof.
  induction a as [| x a IH]; intros [| y b] H; cbn in *; try reflexivity; try lia.
  rewrite IH by lia. reflexivity.
Qed.
