(* C16 -- proofs about the STUN encoder / decoder model (Model/Stun.v). *)
From Coq Require Import ZArith Lia List Bool.
From RV Require Import Lib.Wrap.
From RV Require Import Gen.Consts.
From RV Require Import Gen.StunCodes.
From RV Require Import Model.StunLib.
From RV Require Import Model.Stun.
From RV Require Import Proofs.StunLibProofs.
Import ListNotations.
Open Scope Z_scope.

Ltac Zify.zify_post_hook ::= Z.div_mod_to_equations.

(* ================================================================== the wire layout (spec side)
   one attribute = type, length, value, zero padding up to a multiple of four (RFC 5389 sec. 15) *)
Definition chunk_bytes (typ : Z) (value : list Z) : list Z :=
  be16 typ ++ be16 (zlen value) ++ value ++ zeros (pad4 (zlen value)).
Definition cb (c : Z * list Z) : list Z := chunk_bytes (fst c) (snd c).
Definition cbs (cs : list (Z * list Z)) : list Z := concat (map cb cs).

Definition attr_typ (a : attr) : Z :=
  match a with
  | AUsername _ => ENC_Username | ARealm _ => ENC_Realm | ANonce _ => ENC_Nonce | ASoftware _ => ENC_Software
  | ARequestedTransport _ => ENC_RequestedTransport | ALifetime _ => ENC_Lifetime | APriority _ => ENC_Priority
  | AIceControlling _ => ENC_IceControlling | AIceControlled _ => ENC_IceControlled
  | AUseCandidate => ENC_UseCandidate | AXorPeer _ => ENC_XorPeerAddress | AXorMapped _ => ENC_XorMappedAddress
  | AChannelNumber _ => ENC_ChannelNumber | AData _ => ENC_Data
  end.
Definition attr_value (a : attr) (txid : list Z) : list Z :=
  match a with
  | AUsername s | ARealm s | ANonce s | ASoftware s => s
  | ARequestedTransport v => [v; 0; 0; 0]
  | ALifetime v | APriority v => be32 v
  | AIceControlling v | AIceControlled v => be64 v
  | AUseCandidate => []
  | AXorPeer x | AXorMapped x => xor_value x txid
  | AChannelNumber v => be16 v ++ [0; 0]
  | AData d => d
  end.
Definition attr_chunk (txid : list Z) (a : attr) : Z * list Z := (attr_typ a, attr_value a txid).

Definition hdr (ty len : Z) (txid : list Z) : list Z := be16 ty ++ be16 len ++ cookie_bytes ++ txid.

Definition mty (m : msg) : Z := cast_u16 (msg_type m).
Definition attr_chunks (m : msg) : list (Z * list Z) := map (attr_chunk (m_txid m)) (m_attrs m).

(* what HMAC is computed over: header with the length counting the MESSAGE-INTEGRITY TLV, then the
   attributes before it *)
Definition mi_input (m : msg) : list Z :=
  hdr (mty m) (cast_u16 (zlen (cbs (attr_chunks m)) + 24)) (m_txid m) ++ cbs (attr_chunks m).
Definition mi_chunks (mac : list Z -> list Z -> list Z) (m : msg) (key : option (list Z)) : list (Z * list Z) :=
  match key with
  | Some k => [(ATTR_MESSAGE_INTEGRITY, mac k (mi_input m))]
  | None => []
  end.
(* what the CRC is computed over: header with the length counting the FINGERPRINT TLV, then everything before it *)
Definition fp_input (m : msg) (before : list (Z * list Z)) : list Z :=
  hdr (mty m) (cast_u16 (zlen (cbs before) + 8)) (m_txid m) ++ cbs before.
Definition fp_chunks (m : msg) (fp : bool) (before : list (Z * list Z)) : list (Z * list Z) :=
  if fp then [(ATTR_FINGERPRINT, be32 (Z.lxor (crc32 (fp_input m before)) FINGERPRINT_XOR))] else [].
Definition all_chunks mac (m : msg) (key : option (list Z)) (fp : bool) : list (Z * list Z) :=
  let am := attr_chunks m ++ mi_chunks mac m key in am ++ fp_chunks m fp am.
Definition layout mac (m : msg) (key : option (list Z)) (fp : bool) : list Z :=
  let cs := all_chunks mac m key fp in hdr (mty m) (cast_u16 (zlen (cbs cs))) (m_txid m) ++ cbs cs.

Definition mac20 (mac : list Z -> list Z -> list Z) : Prop := forall k d, length (mac k d) = 20%nat.

(* ================================================================== basic facts *)
Lemma cast_u16_small x : 0 <= x < 65536 -> cast_u16 x = x.
Proof. intros H. unfold cast_u16, wrapu. change (2 ^ 16) with 65536. apply Z.mod_small. lia. Qed.
Lemma cast_u16_range x : 0 <= cast_u16 x < 65536.
Proof. unfold cast_u16, wrapu. change (2 ^ 16) with 65536. lia. Qed.

Lemma chunk_len t v : zlen (chunk_bytes t v) = 4 + zlen v + pad4 (zlen v).
Proof.
  unfold chunk_bytes. rewrite !zlen_app, !zlen_be16, zlen_zeros by (pose proof (pad4_range (zlen v)); lia). lia.
Qed.
Lemma chunk_aligned t v : zlen (chunk_bytes t v) mod 4 = 0.
Proof. rewrite chunk_len. pose proof (pad4_aligned (zlen v)). lia. Qed.
Lemma cbs_nil : cbs [] = [].
Proof. reflexivity. Qed.
Lemma cbs_cons c cs : cbs (c :: cs) = cb c ++ cbs cs.
Proof. reflexivity. Qed.
Lemma cbs_app a b : cbs (a ++ b) = cbs a ++ cbs b.
Proof. unfold cbs. rewrite map_app, concat_app. reflexivity. Qed.
Lemma cbs_aligned cs : zlen (cbs cs) mod 4 = 0.
Proof.
  induction cs as [| c cs IH]; [reflexivity |].
  rewrite cbs_cons, zlen_app. unfold cb. pose proof (chunk_aligned (fst c) (snd c)). lia.
Qed.

Lemma pad_four_aligned buf : zlen buf mod 4 = 0 -> pad_four_bytes buf = buf.
Proof.
  intros H. unfold pad_four_bytes. replace ((4 - zlen buf mod 4) mod 4) with 0 by lia.
  rewrite zeros_0. apply app_nil_r.
Qed.
Lemma pad_four_app buf x : zlen buf mod 4 = 0 ->
  pad_four_bytes (buf ++ x) = buf ++ x ++ zeros (pad4 (zlen x)).
Proof.
  intros H. unfold pad_four_bytes, pad4. rewrite zlen_app.
  replace ((4 - (zlen buf + zlen x) mod 4) mod 4) with ((4 - zlen x mod 4) mod 4) by lia.
  rewrite app_assoc. reflexivity.
Qed.

(* a type/length/value written into an aligned buffer and padded is one chunk *)
Lemma tlv_pad buf t l v : zlen buf mod 4 = 0 -> l = zlen v ->
  pad_four_bytes (buf ++ be16 t ++ be16 l ++ v) = buf ++ chunk_bytes t v.
Proof.
  intros H ->. rewrite pad_four_app by assumption. unfold chunk_bytes.
  rewrite !zlen_app, !zlen_be16. replace (2 + (2 + zlen v)) with (4 + zlen v) by lia.
  rewrite (pad4_add 4 (zlen v)) by reflexivity. rewrite <- !app_assoc. reflexivity.
Qed.

Lemma append_raw_chunk buf t v : zlen buf mod 4 = 0 -> zlen v < 65536 ->
  append_raw_attribute buf t v = buf ++ chunk_bytes t v.
Proof.
  intros H Hv. unfold append_raw_attribute.
  rewrite cast_u16_small by (pose proof (zlen_nonneg v); lia).
  apply tlv_pad; [assumption | reflexivity].
Qed.

Lemma cookie_len : length cookie_bytes = 4%nat.
Proof. reflexivity. Qed.

Lemma xor_value_len a txid : wf_addr a -> length txid = 12%nat -> zlen (xor_value a txid) = xor_len a.
Proof.
  intros Hw Ht. destruct a as [ip port | ip port]; cbn [wf_addr] in Hw; destruct Hw as (_ & Hl & _);
    unfold xor_value, xor_len; rewrite !zlen_app, zlen_be16.
  - unfold zlen at 2. rewrite xor_bytes_length by (rewrite cookie_len; lia). rewrite Hl. reflexivity.
  - unfold zlen at 2 3. rewrite !xor_bytes_length.
    + rewrite firstn_length, skipn_length, Hl. reflexivity.
    + rewrite skipn_length, Hl, Ht. cbn. lia.
    + rewrite firstn_length, Hl, cookie_len. cbn. lia.
Qed.

Lemma xor_len_small a : 0 <= xor_len a < 65536.
Proof. destruct a; cbn [xor_len]; unfold XORLEN_V4, XORLEN_V6; lia. Qed.

(* ================================================================== encoder = layout *)
Lemma append_attribute_chunk buf a txid :
  zlen buf mod 4 = 0 -> wf_attr a -> length txid = 12%nat ->
  append_attribute buf a txid = buf ++ cb (attr_chunk txid a).
Proof.
  intros Hal Hw Ht. unfold cb, attr_chunk. cbn [fst snd].
  assert (Hstr : forall t s, zlen s < 65536 ->
            pad_four_bytes (append_raw_attribute buf t s) = buf ++ chunk_bytes t s).
  { intros t s Hs. rewrite append_raw_chunk by assumption. apply pad_four_aligned.
    rewrite zlen_app. pose proof (chunk_aligned t s). lia. }
  destruct a; cbn [append_attribute attr_typ attr_value wf_attr] in *.
  - apply Hstr. tauto.
  - apply Hstr. tauto.
  - apply Hstr. tauto.
  - apply Hstr. tauto.
  - exact (tlv_pad buf ENC_RequestedTransport ENCLEN_RequestedTransport [v; 0; 0; 0] Hal eq_refl).
  - exact (tlv_pad buf ENC_Lifetime ENCLEN_Lifetime (be32 v) Hal eq_refl).
  - exact (tlv_pad buf ENC_Priority ENCLEN_Priority (be32 v) Hal eq_refl).
  - exact (tlv_pad buf ENC_IceControlling ENCLEN_IceControlling (be64 v) Hal eq_refl).
  - exact (tlv_pad buf ENC_IceControlled ENCLEN_IceControlled (be64 v) Hal eq_refl).
  - exact (tlv_pad buf ENC_UseCandidate ENCLEN_UseCandidate [] Hal eq_refl).
  - unfold append_xor_address. apply tlv_pad; [assumption |]. symmetry. apply xor_value_len; assumption.
  - unfold append_xor_address. apply tlv_pad; [assumption |]. symmetry. apply xor_value_len; assumption.
  - exact (tlv_pad buf ENC_ChannelNumber ENCLEN_ChannelNumber (be16 v ++ [0; 0]) Hal eq_refl).
  - apply Hstr. tauto.
Qed.

Lemma fold_append_chunks txid : length txid = 12%nat -> forall attrs buf,
  zlen buf mod 4 = 0 -> Forall wf_attr attrs ->
  fold_left (fun b a => append_attribute b a txid) attrs buf = buf ++ cbs (map (attr_chunk txid) attrs).
Proof.
  intros Ht. induction attrs as [| a attrs IH]; intros buf Hal Hw.
  - cbn. symmetry. apply app_nil_r.
  - inversion Hw as [| ? ? Ha Hrest]; subst. cbn [fold_left map].
    rewrite append_attribute_chunk by assumption.
    rewrite IH; [| | assumption].
    + rewrite cbs_cons, app_assoc. reflexivity.
    + rewrite zlen_app. unfold cb. pose proof (chunk_aligned (fst (attr_chunk txid a)) (snd (attr_chunk txid a))). lia.
Qed.

Lemma zlen_hdr ty l txid : length txid = 12%nat -> zlen (hdr ty l txid) = 20.
Proof. intros H. unfold hdr. rewrite !zlen_app, !zlen_be16. unfold zlen. rewrite cookie_len, H. reflexivity. Qed.

Lemma write_length_hdr ty l txid rest n :
  write_length_field (hdr ty l txid ++ rest) n = hdr ty (cast_u16 n) txid ++ rest.
Proof. reflexivity. Qed.

Lemma update_length_hdr ty l txid rest : length txid = 12%nat ->
  update_length_field (hdr ty l txid ++ rest) = hdr ty (cast_u16 (zlen rest)) txid ++ rest.
Proof.
  intros H. unfold update_length_field. rewrite write_length_hdr. rewrite zlen_app, zlen_hdr by assumption.
  change STUN_HEADER_LEN with 20. replace (20 + zlen rest - 20) with (zlen rest) by lia. reflexivity.
Qed.

Lemma header_hdr m : header m = hdr (mty m) 0 (m_txid m).
Proof. reflexivity. Qed.

Lemma body_buffer_layout m : wf_msg m ->
  body_buffer m = hdr (mty m) 0 (m_txid m) ++ cbs (attr_chunks m).
Proof.
  intros (Hb & Ht & Hw). unfold body_buffer, attr_chunks. rewrite fold_append_chunks; try assumption.
  - rewrite header_hdr. reflexivity.
  - rewrite header_hdr, zlen_hdr by assumption. reflexivity.
Qed.

Lemma mi_chunks_aligned mac m key : zlen (cbs (mi_chunks mac m key)) mod 4 = 0.
Proof. apply cbs_aligned. Qed.

Theorem encode_layout : forall mac m key fp, wf_msg m -> mac20 mac ->
  encode mac m key fp = layout mac m key fp.
Proof.
  intros mac m key fp Hwf Hmac. pose proof Hwf as (Hb & Ht & Hw).
  unfold encode, layout, all_chunks. rewrite body_buffer_layout by assumption.
  rewrite update_length_hdr by assumption.
  set (A := cbs (attr_chunks m)).
  (* MESSAGE-INTEGRITY step *)
  assert (HM : add_integrity mac key (hdr (mty m) (cast_u16 (zlen A)) (m_txid m) ++ A) =
               hdr (mty m) (cast_u16 (zlen (A ++ cbs (mi_chunks mac m key)))) (m_txid m)
               ++ A ++ cbs (mi_chunks mac m key)).
  { destruct key as [k |]; cbn [add_integrity mi_chunks].
    - rewrite write_length_hdr. rewrite zlen_app, zlen_hdr by assumption.
      change MI_LEN_SUB with 20. change MI_LEN_ADD with 24.
      replace (20 + zlen A - 20 + 24) with (zlen A + 24) by lia.
      rewrite append_raw_chunk.
      + rewrite <- app_assoc. rewrite update_length_hdr by assumption.
        rewrite cbs_cons, cbs_nil, app_nil_r. reflexivity.
      + rewrite zlen_app, zlen_hdr by assumption.
        pose proof (cbs_aligned (attr_chunks m)). fold A in H. lia.
      + unfold zlen. rewrite Hmac. reflexivity.
    - rewrite cbs_nil, !app_nil_r. reflexivity. }
  rewrite HM. clear HM.
  set (AM := attr_chunks m ++ mi_chunks mac m key).
  replace (A ++ cbs (mi_chunks mac m key)) with (cbs AM) by (unfold AM, A; apply cbs_app).
  destruct fp; cbn [add_fingerprint fp_chunks].
  - rewrite write_length_hdr. rewrite zlen_app, zlen_hdr by assumption.
    change FP_LEN_SUB with 20. change FP_LEN_ADD with 8.
    replace (20 + zlen (cbs AM) - 20 + 8) with (zlen (cbs AM) + 8) by lia.
    rewrite append_raw_chunk.
    + rewrite <- app_assoc. rewrite update_length_hdr by assumption.
      rewrite cbs_app, cbs_cons, cbs_nil, app_nil_r. reflexivity.
    + rewrite zlen_app, zlen_hdr by assumption. pose proof (cbs_aligned AM). lia.
    + reflexivity.
  - rewrite update_length_hdr by assumption. rewrite app_nil_r. reflexivity.
Qed.

(* ================================================================== consequences of the layout *)
Lemma layout_len mac m key fp : wf_msg m ->
  zlen (layout mac m key fp) = 20 + zlen (cbs (all_chunks mac m key fp)).
Proof. intros (_ & Ht & _). unfold layout. rewrite zlen_app, zlen_hdr by assumption. reflexivity. Qed.

(* total length is a multiple of four and the header length field is total - 20 *)
Theorem encode_length_field : forall mac m key fp, wf_msg m -> mac20 mac ->
  let out := encode mac m key fp in
  zlen out mod 4 = 0 /\
  (zlen out < 65556 -> of_be16 (byte_at out 2) (byte_at out 3) = zlen out - 20).
Proof.
  intros mac m key fp Hwf Hmac. cbn zeta. rewrite encode_layout by assumption.
  rewrite layout_len by assumption. split.
  - pose proof (cbs_aligned (all_chunks mac m key fp)). lia.
  - intros Hlt. unfold layout, hdr, be16. cbn [app byte_at nth].
    pose proof (zlen_nonneg (cbs (all_chunks mac m key fp))).
    rewrite cast_u16_small by lia. rewrite of_be16_be16 by lia. lia.
Qed.

Lemma zlen_mi_chunk mac k d : mac20 mac -> zlen (cbs [(ATTR_MESSAGE_INTEGRITY, mac k d)]) = 24.
Proof.
  intros Hmac. rewrite cbs_cons, cbs_nil, app_nil_r. unfold cb. cbn [fst snd]. rewrite chunk_len.
  unfold zlen. rewrite Hmac. reflexivity.
Qed.

Lemma mi_chunk_bytes mac k d : mac20 mac ->
  cbs [(ATTR_MESSAGE_INTEGRITY, mac k d)] = be16 ATTR_MESSAGE_INTEGRITY ++ be16 20 ++ mac k d.
Proof.
  intros Hmac. rewrite cbs_cons, cbs_nil, app_nil_r. unfold cb, chunk_bytes. cbn [fst snd].
  unfold zlen. rewrite Hmac. change (pad4 (Z.of_nat 20)) with 0. rewrite zeros_0, app_nil_r. reflexivity.
Qed.

(* RFC 5389 15.4 as a verifier reads it: take the message up to the MESSAGE-INTEGRITY attribute,
   set the header length to the end of that attribute, HMAC it; the attribute directly follows
   the ordinary attributes and carries exactly that 20-byte value *)
Theorem encode_integrity : forall mac m k fp, wf_msg m -> mac20 mac ->
  let out := encode mac m (Some k) fp in
  let off := Z.to_nat (20 + zlen (cbs (attr_chunks m))) in
  firstn 24 (skipn off out) =
    be16 ATTR_MESSAGE_INTEGRITY ++ be16 20
    ++ mac k (write_length_field (firstn off out) (Z.of_nat off + 24 - 20)).
Proof.
  intros mac m k fp Hwf Hmac. cbn zeta. pose proof Hwf as (Hb & Ht & Hw).
  rewrite encode_layout by assumption. unfold layout, all_chunks. cbn [mi_chunks].
  set (A := cbs (attr_chunks m)).
  set (M := [(ATTR_MESSAGE_INTEGRITY, mac k (mi_input m))]).
  set (F := fp_chunks m fp (attr_chunks m ++ M)).
  rewrite !cbs_app. fold A.
  set (L := cast_u16 (zlen (A ++ cbs M ++ cbs F))).
  assert (Hoff : length (hdr (mty m) L (m_txid m) ++ A) = Z.to_nat (20 + zlen A)).
  { apply Nat2Z.inj. rewrite Z2Nat.id by (pose proof (zlen_nonneg A); lia).
    change (Z.of_nat (length (hdr (mty m) L (m_txid m) ++ A))) with (zlen (hdr (mty m) L (m_txid m) ++ A)).
    rewrite zlen_app, zlen_hdr by assumption. reflexivity. }
  rewrite <- (app_assoc A). rewrite (app_assoc (hdr _ _ _) A).
  rewrite skipn_app_exact by exact Hoff.
  rewrite (firstn_app_exact (hdr (mty m) L (m_txid m) ++ A)) by exact Hoff.
  rewrite firstn_app_exact.
  - unfold M. rewrite mi_chunk_bytes by assumption. rewrite write_length_hdr.
    rewrite Z2Nat.id by (pose proof (zlen_nonneg A); lia).
    replace (20 + zlen A + 24 - 20) with (zlen A + 24) by lia. reflexivity.
  - apply Nat2Z.inj. change (Z.of_nat (length (cbs M))) with (zlen (cbs M)). unfold M.
    rewrite zlen_mi_chunk by assumption. reflexivity.
Qed.

(* RFC 5389 15.5: FINGERPRINT is the last attribute, its value is the CRC-32 of the message up
   to (excluding) the attribute itself -- as sent, i.e. with the final header length -- xor 0x5354554e;
   it follows MESSAGE-INTEGRITY when both are present (all_chunks = attributes ++ MI ++ FP) *)
Theorem encode_fingerprint : forall mac m key, wf_msg m -> mac20 mac ->
  let out := encode mac m key true in
  let off := Z.to_nat (zlen out - 8) in
  skipn off out =
    be16 ATTR_FINGERPRINT ++ be16 4 ++ be32 (Z.lxor (crc32 (firstn off out)) FINGERPRINT_XOR).
Proof.
  intros mac m key Hwf Hmac. cbn zeta. pose proof Hwf as (Hb & Ht & Hw).
  rewrite encode_layout by assumption. rewrite layout_len by assumption.
  unfold layout, all_chunks. cbn [fp_chunks].
  set (AM := attr_chunks m ++ mi_chunks mac m key).
  set (F := [(ATTR_FINGERPRINT, be32 (Z.lxor (crc32 (fp_input m AM)) FINGERPRINT_XOR))]).
  assert (HF : zlen (cbs F) = 8) by reflexivity.
  rewrite !cbs_app. rewrite zlen_app, HF.
  assert (Hoff : length (hdr (mty m) (cast_u16 (zlen (cbs AM) + 8)) (m_txid m) ++ cbs AM)
                 = Z.to_nat (20 + (zlen (cbs AM) + 8) - 8)).
  { apply Nat2Z.inj. rewrite Z2Nat.id by (pose proof (zlen_nonneg (cbs AM)); lia).
    match goal with |- Z.of_nat (length ?l) = _ => change (Z.of_nat (length l)) with (zlen l) end.
    rewrite zlen_app, zlen_hdr by assumption. lia. }
  rewrite (app_assoc (hdr _ _ _) (cbs AM)).
  rewrite skipn_app_exact by exact Hoff. rewrite firstn_app_exact by exact Hoff.
  reflexivity.
Qed.

(* ================================================================== XOR addresses *)
Lemma port_mask_val : port_mask = 8466.   (* 0x2112 *)
Proof. reflexivity. Qed.

Theorem xor_involution : forall a txid, wf_addr a -> length txid = 12%nat ->
  parse_xor_address (xor_value a txid) txid = Some a.
Proof.
  intros a txid Hw Ht.
  assert (Hport : forall port, 0 <= port < 65536 ->
            Z.lxor (of_be16 ((Z.lxor port port_mask / 256) mod 256) (Z.lxor port port_mask mod 256)) port_mask = port).
  { intros port Hp. rewrite of_be16_be16.
    - apply lxor_cancel.
    - rewrite port_mask_val. change 65536 with (2 ^ 16). apply lxor_bound; change (2 ^ 16) with 65536; lia. }
  destruct a as [ip port | ip port]; cbn [wf_addr] in Hw; destruct Hw as (_ & Hl & Hp).
  - do 5 (destruct ip as [| ? ip]; try discriminate Hl).
    unfold parse_xor_address, xor_value. cbn [app be16 xor_bytes cookie_bytes].
    change (zlen _ <? 4) with false. change (zlen _ <? 8) with false. cbn [byte_at nth].
    change (FAMILY_V4 =? FAMILY_V4) with true. cbn [firstn skipn xor_bytes].
    rewrite Hport by assumption.
    change cookie_bytes with [33; 18; 164; 66]. cbn [xor_bytes]. rewrite !lxor_cancel. reflexivity.
  - do 17 (destruct ip as [| ? ip]; try discriminate Hl).
    do 13 (destruct txid as [| ? txid]; try discriminate Ht).
    unfold parse_xor_address, xor_value. change cookie_bytes with [33; 18; 164; 66].
    cbn [app be16 xor_bytes firstn skipn].
    change (zlen _ <? 4) with false. change (zlen _ <? 20) with false. cbn [byte_at nth].
    change (FAMILY_V6 =? FAMILY_V4) with false. change (FAMILY_V6 =? FAMILY_V6) with true.
    cbn [firstn skipn xor_bytes app].
    rewrite Hport by assumption. rewrite !lxor_cancel. reflexivity.
Qed.

(* ================================================================== decoder on a laid-out message *)
Definition wf_chunk (c : Z * list Z) : Prop := 0 <= fst c < 65536 /\ zlen (snd c) < 65536.

Lemma dec_loop_S f rest txid a :
  dec_loop (S f) rest txid a =
    if zlen rest <? 4 then a
    else
      let typ := of_be16 (byte_at rest 0) (byte_at rest 1) in
      let len := of_be16 (byte_at rest 2) (byte_at rest 3) in
      let rest1 := skipn 4 rest in
      if zlen rest1 <? len then a
      else dec_loop f (skipn (Z.to_nat (len + (4 - len mod 4) mod 4)) rest1) txid
                    (handle typ (firstn (Z.to_nat len) rest1) txid a).
Proof. reflexivity. Qed.

Lemma dec_loop_chunk f t v rest txid a : 0 <= t < 65536 -> zlen v < 65536 ->
  dec_loop (S f) (chunk_bytes t v ++ rest) txid a = dec_loop f rest txid (handle t v txid a).
Proof.
  intros Ht Hv. pose proof (zlen_nonneg v) as Hv0. pose proof (pad4_range (zlen v)) as Hp.
  assert (Hlen : zlen (chunk_bytes t v ++ rest) <? 4 = false).
  { apply Z.ltb_ge. rewrite zlen_app, chunk_len. pose proof (zlen_nonneg rest). lia. }
  rewrite dec_loop_S. rewrite Hlen. cbv zeta.
  unfold chunk_bytes. rewrite <- !app_assoc. unfold be16. cbn [app byte_at nth skipn].
  rewrite !of_be16_be16 by lia.
  assert (Hlen2 : zlen (v ++ zeros (pad4 (zlen v)) ++ rest) <? zlen v = false).
  { apply Z.ltb_ge. rewrite !zlen_app. pose proof (zlen_nonneg rest). rewrite zlen_zeros by lia. lia. }
  rewrite Hlen2.
  rewrite firstn_app_exact by (unfold zlen; lia).
  change ((4 - zlen v mod 4) mod 4) with (pad4 (zlen v)).
  rewrite app_assoc. rewrite skipn_app_exact; [reflexivity |].
  apply Nat2Z.inj. rewrite Z2Nat.id by lia.
  change (Z.of_nat (length (v ++ zeros (pad4 (zlen v))))) with (zlen (v ++ zeros (pad4 (zlen v)))).
  rewrite zlen_app, zlen_zeros by lia. reflexivity.
Qed.

Lemma dec_loop_chunks txid : forall cs fuel a, Forall wf_chunk cs -> (length cs <= fuel)%nat ->
  dec_loop fuel (cbs cs) txid a = fold_left (fun a c => handle (fst c) (snd c) txid a) cs a.
Proof.
  induction cs as [| c cs IH]; intros fuel a Hw Hf.
  - cbn [fold_left]. rewrite cbs_nil. destruct fuel; reflexivity.
  - inversion Hw as [| ? ? (Hc1 & Hc2) Hrest]; subst. cbn [length] in Hf.
    destruct fuel as [| f]; [lia |].
    rewrite cbs_cons. unfold cb. rewrite dec_loop_chunk by assumption.
    cbn [fold_left]. apply IH; [assumption | lia].
Qed.

Lemma cbs_length_ge cs : (length cs <= length (cbs cs))%nat.
Proof.
  induction cs as [| c cs IH]; [cbn; lia |].
  rewrite cbs_cons, app_length. cbn [length].
  assert (4 <= zlen (cb c)).
  { unfold cb. rewrite chunk_len. pose proof (zlen_nonneg (snd c)). pose proof (pad4_range (zlen (snd c))). lia. }
  unfold zlen in H. lia.
Qed.

(* ---- what each encoded attribute does to the decoder's locals *)
Definition apply_attr (x : attr) (a : dacc) : dacc :=
  match x with
  | ARealm s => mkAcc (a_mapped a) (a_relayed a) (a_peer a) (a_error a) (Some s) (a_nonce a) (a_data a) (a_use a) (a_lifetime a)
  | ANonce s => mkAcc (a_mapped a) (a_relayed a) (a_peer a) (a_error a) (a_realm a) (Some s) (a_data a) (a_use a) (a_lifetime a)
  | ALifetime v => mkAcc (a_mapped a) (a_relayed a) (a_peer a) (a_error a) (a_realm a) (a_nonce a) (a_data a) (a_use a) (Some v)
  | AUseCandidate => mkAcc (a_mapped a) (a_relayed a) (a_peer a) (a_error a) (a_realm a) (a_nonce a) (a_data a) true (a_lifetime a)
  | AXorPeer p => mkAcc (a_mapped a) (a_relayed a) (Some p) (a_error a) (a_realm a) (a_nonce a) (a_data a) (a_use a) (a_lifetime a)
  | AXorMapped p => mkAcc (Some p) (a_relayed a) (a_peer a) (a_error a) (a_realm a) (a_nonce a) (a_data a) (a_use a) (a_lifetime a)
  | AData d => mkAcc (a_mapped a) (a_relayed a) (a_peer a) (a_error a) (a_realm a) (a_nonce a) (Some d) (a_use a) (a_lifetime a)
  | AUsername _ | ASoftware _ | ARequestedTransport _ | APriority _ | AIceControlling _ | AIceControlled _
  | AChannelNumber _ => a
  end.

Lemma handle_realm v txid a : handle ENC_Realm v txid a =
  mkAcc (a_mapped a) (a_relayed a) (a_peer a) (a_error a) (if utf8_valid v then Some v else a_realm a)
        (a_nonce a) (a_data a) (a_use a) (a_lifetime a).
Proof. reflexivity. Qed.
Lemma handle_nonce v txid a : handle ENC_Nonce v txid a =
  mkAcc (a_mapped a) (a_relayed a) (a_peer a) (a_error a) (a_realm a)
        (if utf8_valid v then Some v else a_nonce a) (a_data a) (a_use a) (a_lifetime a).
Proof. reflexivity. Qed.
Lemma handle_lifetime v txid a : handle ENC_Lifetime v txid a =
  mkAcc (a_mapped a) (a_relayed a) (a_peer a) (a_error a) (a_realm a) (a_nonce a) (a_data a) (a_use a)
        (if 4 <=? zlen v then Some (of_be32 (byte_at v 0) (byte_at v 1) (byte_at v 2) (byte_at v 3)) else a_lifetime a).
Proof. reflexivity. Qed.
Lemma handle_peer v txid a : handle ENC_XorPeerAddress v txid a =
  mkAcc (a_mapped a) (a_relayed a) (keep (parse_xor_address v txid) (a_peer a)) (a_error a)
        (a_realm a) (a_nonce a) (a_data a) (a_use a) (a_lifetime a).
Proof. reflexivity. Qed.
Lemma handle_mapped v txid a : handle ENC_XorMappedAddress v txid a =
  mkAcc (keep (parse_xor_address v txid) (a_mapped a)) (a_relayed a) (a_peer a) (a_error a)
        (a_realm a) (a_nonce a) (a_data a) (a_use a) (a_lifetime a).
Proof. reflexivity. Qed.

Lemma handle_attr x txid a : wf_attr x -> length txid = 12%nat ->
  handle (attr_typ x) (attr_value x txid) txid a = apply_attr x a.
Proof.
  intros Hw Ht. destruct x; cbn [attr_typ attr_value apply_attr wf_attr] in *; try reflexivity.
  - rewrite handle_realm. destruct Hw as (_ & -> & _). reflexivity.
  - rewrite handle_nonce. destruct Hw as (_ & -> & _). reflexivity.
  - rewrite handle_lifetime. change (4 <=? zlen (be32 v)) with true. unfold be32. cbn [byte_at nth].
    change (2 ^ 32) with 4294967296 in Hw. rewrite of_be32_be32 by lia. reflexivity.
  - rewrite handle_peer, xor_involution by assumption. reflexivity.
  - rewrite handle_mapped, xor_involution by assumption. reflexivity.
Qed.

Lemma attr_chunk_wf txid x : wf_attr x -> length txid = 12%nat -> wf_chunk (attr_chunk txid x).
Proof.
  intros Hw Ht. unfold wf_chunk, attr_chunk. cbn [fst snd]. split.
  - destruct x; cbn [attr_typ]; vm_compute; split; congruence.
  - destruct x; cbn [attr_value wf_attr] in *; try tauto; try (vm_compute; reflexivity).
    + rewrite xor_value_len by assumption. apply xor_len_small.
    + rewrite xor_value_len by assumption. apply xor_len_small.
Qed.

Lemma fold_handle_attrs txid : length txid = 12%nat -> forall attrs a, Forall wf_attr attrs ->
  fold_left (fun a c => handle (fst c) (snd c) txid a) (map (attr_chunk txid) attrs) a =
  fold_left (fun a x => apply_attr x a) attrs a.
Proof.
  intros Ht. induction attrs as [| x attrs IH]; intros a Hw; [reflexivity |].
  inversion Hw; subst. cbn [map fold_left].
  change (handle (fst (attr_chunk txid x)) (snd (attr_chunk txid x)) txid a)
    with (handle (attr_typ x) (attr_value x txid) txid a).
  rewrite handle_attr by assumption. apply IH. assumption.
Qed.

(* ---- the header *)
Lemma method_class_decode me cl :
  method_of_code (Z.land (cast_u16 (Z.lor (method_code me) (class_code cl))) METHOD_MASK) = Some me /\
  class_of_code (Z.land (cast_u16 (Z.lor (method_code me) (class_code cl))) CLASS_MASK) = Some cl.
Proof. destruct me, cl; vm_compute; split; reflexivity. Qed.

(* what the decoder returns for the attributes of m *)
Definition expected (m : msg) : decoded :=
  let a := fold_left (fun a x => apply_attr x a) (m_attrs m) acc0 in
  mkDec (m_class m) (m_method m) (m_txid m) (a_mapped a) (a_relayed a) (a_peer a) (a_error a)
        (a_realm a) (a_nonce a) (a_data a) (a_use a) (a_lifetime a).

Theorem decode_encode : forall mac m key fp, wf_msg m -> mac20 mac ->
  zlen (encode mac m key fp) < 65556 ->
  decode (encode mac m key fp) = DOk (expected m).
Proof.
  intros mac m key fp Hwf Hmac Hsz. pose proof Hwf as (Hb & Ht & Hw).
  rewrite encode_layout in * by assumption. rewrite layout_len in Hsz by assumption.
  unfold layout in *. set (cs := all_chunks mac m key fp) in *.
  pose proof (zlen_nonneg (cbs cs)) as H0.
  rewrite cast_u16_small by lia.
  set (out := hdr (mty m) (zlen (cbs cs)) (m_txid m) ++ cbs cs).
  assert (Hout : zlen out = 20 + zlen (cbs cs)) by (unfold out; rewrite zlen_app, zlen_hdr by assumption; reflexivity).
  unfold decode.
  replace (zlen out <? 20) with false by (symmetry; apply Z.ltb_ge; lia).
  assert (Hty : of_be16 (byte_at out 0) (byte_at out 1) = mty m).
  { unfold out, hdr, be16. cbn [app byte_at nth]. apply of_be16_be16. apply cast_u16_range. }
  assert (Hl : of_be16 (byte_at out 2) (byte_at out 3) = zlen (cbs cs)).
  { unfold out, hdr, be16. cbn [app byte_at nth]. apply of_be16_be16. lia. }
  rewrite Hty, Hl.
  replace (zlen (cbs cs) + 20 =? zlen out) with true by (symmetry; apply Z.eqb_eq; lia).
  cbn [negb]. unfold mty, msg_type.
  destruct (method_class_decode (m_method m) (m_class m)) as [-> ->].
  assert (Htx : firstn 12 (skipn 8 out) = m_txid m).
  { unfold out, hdr, be16. change cookie_bytes with [33; 18; 164; 66]. cbn [app skipn].
    apply firstn_app_exact. assumption. }
  assert (Hrest : skipn 20 out = cbs cs).
  { unfold out. apply skipn_app_exact. apply Nat2Z.inj.
    change (Z.of_nat (length (hdr (mty m) (zlen (cbs cs)) (m_txid m)))) with (zlen (hdr (mty m) (zlen (cbs cs)) (m_txid m))).
    rewrite zlen_hdr by assumption. reflexivity. }
  rewrite Htx, Hrest.
  (* the attribute loop *)
  assert (Hcs : Forall wf_chunk cs).
  { unfold cs, all_chunks. rewrite !Forall_app. repeat split.
    - unfold attr_chunks. rewrite Forall_map. eapply Forall_impl; [| exact Hw].
      intros x Hx. apply attr_chunk_wf; assumption.
    - destruct key; cbn [mi_chunks]; constructor; [| constructor].
      split; cbn [fst snd]; [unfold ATTR_MESSAGE_INTEGRITY; lia |].
      unfold zlen. rewrite Hmac. lia.
    - destruct fp; cbn [fp_chunks]; constructor; [| constructor].
      split; cbn [fst snd]; [unfold ATTR_FINGERPRINT; lia | rewrite zlen_be32; lia]. }
  rewrite dec_loop_chunks; [| assumption |].
  2: { pose proof (cbs_length_ge cs). unfold out. rewrite app_length. lia. }
  unfold cs, all_chunks. rewrite !fold_left_app.
  unfold attr_chunks. rewrite fold_handle_attrs by assumption.
  set (a := fold_left (fun a x => apply_attr x a) (m_attrs m) acc0).
  assert (HM : fold_left (fun a c => handle (fst c) (snd c) (m_txid m) a) (mi_chunks mac m key) a = a)
    by (destruct key; reflexivity).
  rewrite HM.
  assert (HF : forall before, fold_left (fun a c => handle (fst c) (snd c) (m_txid m) a) (fp_chunks m fp before) a = a)
    by (intros; destruct fp; reflexivity).
  rewrite HF. reflexivity.
Qed.

(* premises are satisfiable: a concrete Binding request with MESSAGE-INTEGRITY and FINGERPRINT *)
Definition example_msg : msg :=
  mkMsg StunClass_Request StunMethod_Binding [1;2;3;4;5;6;7;8;9;10;11;12]
        [AUsername [97; 58; 98]; APriority 1845494271; AXorMapped (V4 [192; 0; 2; 1] 32853); AUseCandidate].
Example example_msg_wf : wf_msg example_msg.
Proof.
  unfold wf_msg, example_msg, bytes, is_byte. cbn [m_txid m_attrs]. repeat split; try reflexivity.
  - repeat constructor; lia.
  - repeat constructor; cbn; unfold bytes, is_byte; repeat split; try reflexivity; try lia; repeat constructor; lia.
Qed.
Example example_roundtrip :
  decode (encode (fun _ _ => repeat 0 20) example_msg (Some [107]) true) = DOk (expected example_msg).
Proof. vm_compute. reflexivity. Qed.
