(* C16 -- TURN Allocate requests: instances of the STUN theorems for the long-term key. *)
From Coq Require Import ZArith Lia List Bool.
From RV Require Import Lib.Wrap.
From RV Require Import Gen.StunCodes.
From RV Require Import Gen.TurnConsts.
From RV Require Import Model.StunLib.
From RV Require Import Model.Stun.
From RV Require Import Model.Turn.
From RV Require Import Proofs.StunLibProofs.
From RV Require Import Proofs.StunProofs.
Import ListNotations.
Open Scope Z_scope.

Definition wf_text (s : list Z) : Prop := bytes s /\ utf8_valid s = true /\ zlen s < 65536.
Definition wf_txid (t : list Z) : Prop := bytes t /\ length t = 12%nat.

Lemma allocate_auth_wf txid user realm nonce :
  wf_txid txid -> wf_text user -> wf_text realm -> wf_text nonce -> wf_msg (allocate_auth txid user realm nonce).
Proof.
  intros (Hb & Hl) Hu Hr Hn. unfold wf_msg, allocate_auth. cbn [m_txid m_attrs]. repeat split; try assumption.
  constructor; [cbn [wf_attr]; unfold TURN_REQUESTED_TRANSPORT; lia |].
  constructor; [cbn [wf_attr]; unfold DEFAULT_TURN_LIFETIME; lia |].
  constructor; [exact Hu |]. constructor; [exact Hr |]. constructor; [exact Hn |]. constructor.
Qed.

(* the authenticated Allocate carries MESSAGE-INTEGRITY = HMAC under MD5(user ":" realm ":" pass) *)
Theorem turn_allocate_integrity : forall mac hash txid user realm nonce pass,
  mac20 mac -> wf_txid txid -> wf_text user -> wf_text realm -> wf_text nonce ->
  let out := allocate_auth_bytes mac hash txid user realm nonce pass in
  let off := Z.to_nat (20 + zlen (cbs (attr_chunks (allocate_auth txid user realm nonce)))) in
  firstn 24 (skipn off out) =
    be16 ATTR_MESSAGE_INTEGRITY ++ be16 20
    ++ mac (hash (user ++ [58] ++ realm ++ [58] ++ pass))
           (write_length_field (firstn off out) (Z.of_nat off + 24 - 20)).
Proof.
  intros mac hash txid user realm nonce pass Hmac Ht Hu Hr Hn.
  exact (encode_integrity mac (allocate_auth txid user realm nonce) (long_term_key hash user realm pass) true
           (allocate_auth_wf txid user realm nonce Ht Hu Hr Hn) Hmac).
Qed.

(* and a server using the model's decoder reads back REALM, NONCE and LIFETIME = 600 *)
Theorem turn_allocate_decodes : forall mac hash txid user realm nonce pass,
  mac20 mac -> wf_txid txid -> wf_text user -> wf_text realm -> wf_text nonce ->
  zlen (allocate_auth_bytes mac hash txid user realm nonce pass) < 65556 ->
  exists d, decode (allocate_auth_bytes mac hash txid user realm nonce pass) = DOk d /\
    d_method d = StunMethod_Allocate /\ d_class d = StunClass_Request /\ d_txid d = txid /\
    d_realm d = Some realm /\ d_nonce d = Some nonce /\ d_lifetime d = Some DEFAULT_TURN_LIFETIME.
Proof.
  intros mac hash txid user realm nonce pass Hmac Ht Hu Hr Hn Hsz.
  eexists. split.
  - apply decode_encode; [apply allocate_auth_wf; assumption | assumption | exact Hsz].
  - repeat split.
Qed.
