(* C16 -- TURN Allocate requests: instances of the STUN theorems for the long-term key. *)
From Coq Require Import ZArith Lia List Bool FinFun.
From RV Require Import Lib.Wrap.
From RV Require Import Gen.StunCodes.
From RV Require Import Gen.TurnConsts.
From RV Require Import Model.StunLib.
From RV Require Import Model.Stun.
From RV Require Import Model.Turn.
From RV Require Import Proofs.StunLibProofs.
From RV Require Import Proofs.StunProofs.
Import ListNotations.
Open Scope Z_scope.

(* conversion hint only: unfold these wrappers before the encoder they wrap *)
Strategy expand [allocate_auth_bytes allocate_plain_bytes].

Definition wf_text (s : list Z) : Prop := bytes s /\ utf8_valid s = true /\ zlen s < 65536.
Definition wf_txid (t : list Z) : Prop := bytes t /\ length t = 12%nat.

Lemma allocate_auth_wf txid user realm nonce :
  wf_txid txid -> wf_text user -> wf_text realm -> wf_text nonce -> wf_msg (allocate_auth txid user realm nonce).
Proof.
  intros (Hb & Hl) Hu Hr Hn. unfold wf_msg, allocate_auth. cbn [m_txid m_attrs]. repeat split; try assumption.
  constructor; [cbn [wf_attr]; unfold TURN_REQUESTED_TRANSPORT; lia |].
  constructor; [cbn [wf_attr]; unfold DEFAULT_TURN_LIFETIME; lia |].
  constructor; [exact Hu |]. constructor; [exact Hr |]. constructor; [exact Hn |]. constructor.
Qed.

(* the authenticated Allocate carries MESSAGE-INTEGRITY = HMAC under MD5(user ":" realm ":" pass) *)
Theorem turn_allocate_integrity : forall mac hash txid user realm nonce pass,
  mac20 mac -> wf_txid txid -> wf_text user -> wf_text realm -> wf_text nonce ->
  let out := allocate_auth_bytes mac hash txid user realm nonce pass in
  let off := Z.to_nat (20 + zlen (cbs (attr_chunks (allocate_auth txid user realm nonce)))) in
  firstn 24 (skipn off out) =
    be16 ATTR_MESSAGE_INTEGRITY ++ be16 20
    ++ mac (hash (user ++ [58] ++ realm ++ [58] ++ pass))
           (write_length_field (firstn off out) (Z.of_nat off + 24 - 20)).
Proof.
  intros mac hash txid user realm nonce pass Hmac Ht Hu Hr Hn.
  exact (encode_integrity mac (allocate_auth txid user realm nonce) (long_term_key hash user realm pass) true
           (allocate_auth_wf txid user realm nonce Ht Hu Hr Hn) Hmac).
Qed.

Lemma expected_allocate_auth txid user realm nonce :
  expected (allocate_auth txid user realm nonce) =
  mkDec StunClass_Request StunMethod_Allocate txid None None None None (Some realm) (Some nonce) None false
        (Some DEFAULT_TURN_LIFETIME).
Proof. reflexivity. Qed.

(* and a server using the model's decoder reads back REALM, NONCE and LIFETIME = 600 *)
Theorem turn_allocate_decodes : forall mac hash txid user realm nonce pass,
  mac20 mac -> wf_txid txid -> wf_text user -> wf_text realm -> wf_text nonce ->
  zlen (allocate_auth_bytes mac hash txid user realm nonce pass) < 65556 ->
  exists d, decode (allocate_auth_bytes mac hash txid user realm nonce pass) = DOk d /\
    d_method d = StunMethod_Allocate /\ d_class d = StunClass_Request /\ d_txid d = txid /\
    d_realm d = Some realm /\ d_nonce d = Some nonce /\ d_lifetime d = Some DEFAULT_TURN_LIFETIME.
Proof.
  intros mac hash txid user realm nonce pass Hmac Ht Hu Hr Hn Hsz.
  pose proof (decode_encode mac (allocate_auth txid user realm nonce) (Some (long_term_key hash user realm pass)) true
                (allocate_auth_wf txid user realm nonce Ht Hu Hr Hn) Hmac Hsz) as H.
  rewrite expected_allocate_auth in H.
  eexists. split; [exact H |]. cbn [d_method d_class d_txid d_realm d_nonce d_lifetime]. repeat split.
Qed.

(* ================================================================== the retry loop: which key signs request n *)
Lemma alloc_loop_head mac hash user pass fuel realm nonce txids resps req :
  nth_error (alloc_loop mac hash user pass fuel (Some (realm, nonce)) txids resps) 0 = Some req ->
  exists tx, nth_error txids 0 = Some tx /\ req = allocate_auth_bytes mac hash tx user realm nonce pass.
Proof.
  destruct fuel as [| f]; [discriminate |]. destruct txids as [| tx txs]; [discriminate |].
  cbn [alloc_loop nth_error]. intros H. inversion H. exists tx. split; reflexivity.
Qed.

(* every request after the first is the authenticated Allocate for the challenge the server sent
   in answer to the previous request: its REALM, NONCE and its key MD5(user:realm:pass) come from
   that challenge, never from an earlier one -- for every challenge sequence and any retry bound *)
Theorem alloc_loop_key : forall mac hash user pass fuel info txids resps i req,
  nth_error (alloc_loop mac hash user pass fuel info txids resps) (S i) = Some req ->
  exists realm nonce tx,
    nth_error resps i = Some (Some (realm, nonce)) /\ nth_error txids (S i) = Some tx /\
    req = allocate_auth_bytes mac hash tx user realm nonce pass.
Proof.
  intros mac hash user pass. induction fuel as [| f IH]; intros info txids resps i req H; [discriminate |].
  destruct txids as [| tx txs]; [discriminate |].
  cbn [alloc_loop nth_error] in H.
  destruct resps as [| [[realm nonce] |] rs]; try (destruct i; discriminate).
  destruct i as [| i'].
  - apply alloc_loop_head in H. destruct H as (tx' & Htx & ->).
    exists realm, nonce, tx'. repeat split; assumption.
  - apply IH in H. destruct H as (r & n & tx' & Hr & Htx & ->).
    exists r, n, tx'. repeat split; assumption.
Qed.

Theorem turn_retry_integrity : forall mac hash user pass txids resps i req realm nonce,
  mac20 mac -> Forall wf_txid txids -> wf_text user -> wf_text realm -> wf_text nonce ->
  nth_error (allocate_requests mac hash user pass txids resps) (S i) = Some req ->
  nth_error resps i = Some (Some (realm, nonce)) ->
  exists tx, nth_error txids (S i) = Some tx /\
    req = allocate_auth_bytes mac hash tx user realm nonce pass /\
    let off := Z.to_nat (20 + zlen (cbs (attr_chunks (allocate_auth tx user realm nonce)))) in
    firstn 24 (skipn off req) =
      be16 ATTR_MESSAGE_INTEGRITY ++ be16 20
      ++ mac (hash (user ++ [58] ++ realm ++ [58] ++ pass))
             (write_length_field (firstn off req) (Z.of_nat off + 24 - 20)).
Proof.
  intros mac hash user pass txids resps i req realm nonce Hmac Htx Hu Hr Hn Hreq Hresp.
  unfold allocate_requests in Hreq. apply alloc_loop_key in Hreq.
  destruct Hreq as (r & n & tx & Hr' & Htx' & ->). rewrite Hresp in Hr'. inversion Hr'; subst r n.
  exists tx. split; [assumption |]. split; [reflexivity |].
  apply turn_allocate_integrity; try assumption.
  rewrite Forall_forall in Htx. apply Htx. eapply nth_error_In. exact Htx'.
Qed.

(* the first request is the unauthenticated one *)
Lemma allocate_requests_first mac hash user pass tx txs resps :
  nth_error (allocate_requests mac hash user pass (tx :: txs) resps) 0 = Some (allocate_plain_bytes mac tx).
Proof. reflexivity. Qed.

(* ================================================================== channel numbers *)
Definition chan_ok (c : Z) : Prop := 16384 <= c <= 32767.

Theorem chan_seq_range : forall k next, chan_ok next -> Forall chan_ok (chan_seq k next).
Proof.
  induction k as [| k IH]; intros next Hn; [constructor |].
  cbn [chan_seq chan_step fst snd]. constructor; [assumption |]. apply IH.
  unfold chan_ok, CHANNEL_WRAP_AT, CHANNEL_WRAP_TO in *. destruct (Z.geb_spec next 32767); lia.
Qed.

Lemma chan_seq_init : forall k next, 16384 <= next -> next + Z.of_nat k <= 32768 ->
  chan_seq k next = map (fun i => next + Z.of_nat i) (seq 0 k).
Proof.
  induction k as [| k IH]; intros next Hlo Hhi; [reflexivity |].
  cbn [chan_seq chan_step fst snd seq map]. f_equal; [lia |].
  unfold CHANNEL_WRAP_AT, CHANNEL_WRAP_TO. destruct (Z.geb_spec next 32767) as [Hge | Hlt].
  - assert (k = 0%nat) by lia. subst. reflexivity.
  - rewrite IH by lia. rewrite <- seq_shift, map_map. apply map_ext. intros i. lia.
Qed.

(* the first 16384 channel numbers a client hands out are pairwise distinct and start at 0x4000 *)
Theorem chan_seq_distinct : forall k, Z.of_nat k <= 16384 -> NoDup (chan_seq k CHANNEL_FIRST).
Proof.
  intros k Hk. unfold CHANNEL_FIRST. rewrite chan_seq_init by lia.
  apply Injective_map_NoDup; [| apply seq_NoDup].
  intros a b H. lia.
Qed.

(* ================================================================== ChannelData *)
Theorem channeldata_roundtrip : forall ch d pad, chan_ok ch -> zlen d < 65536 ->
  parse_channel_data (channel_data ch d ++ pad) = Some (ch, d) /\
  zlen (channel_data ch d) = 4 + zlen d /\
  64 <= byte_at (channel_data ch d) 0 < 128.
Proof.
  intros ch d pad Hc Hd. unfold chan_ok in Hc. pose proof (zlen_nonneg d) as H0. pose proof (zlen_nonneg pad) as Hp0.
  assert (Hlen : zlen (channel_data ch d) = 4 + zlen d).
  { unfold channel_data. rewrite !zlen_app, !zlen_be16. lia. }
  split; [| split; [exact Hlen |]].
  - unfold parse_channel_data.
    replace (zlen (channel_data ch d ++ pad) <? 4) with false by (symmetry; apply Z.ltb_ge; rewrite zlen_app; lia).
    rewrite zlen_app, Hlen.
    unfold channel_data, be16. rewrite <- !app_assoc. cbn [app byte_at nth skipn].
    rewrite cast_u16_small by lia. rewrite !of_be16_be16 by lia.
    replace ((16384 <=? ch) && (ch <=? 32767) && (zlen d <=? 4 + zlen d + zlen pad - 4)) with true.
    + rewrite firstn_app_exact by (unfold zlen; lia). reflexivity.
    + symmetry. rewrite !andb_true_iff. repeat split; apply Z.leb_le; lia.
  - unfold channel_data, be16. cbn [app byte_at nth]. lia.
Qed.

(* over UDP the datagram is the message itself *)
Lemma udp_send_id m : udp_send m = m.
Proof. reflexivity. Qed.

(* over TCP: a 16-bit length and then the unchanged, unpadded message *)
Theorem tcp_send_shape : forall m, zlen m < 65536 ->
  skipn 2 (tcp_send m) = m /\ of_be16 (byte_at (tcp_send m) 0) (byte_at (tcp_send m) 1) = zlen m.
Proof.
  intros m Hm. pose proof (zlen_nonneg m). unfold tcp_send, be16. cbn [app skipn byte_at nth].
  rewrite cast_u16_small by lia. split; [reflexivity | apply of_be16_be16; lia].
Qed.

(* listed finding turn_tcp_length_prefix: a standard TURN server reading the TCP stream (STUN
   messages framed by their own length field, ChannelData padded to four) does not find the
   message the client meant to send -- neither for a STUN request nor for ChannelData *)
Definition tcp_witness_txid : list Z := [1; 2; 3; 4; 5; 6; 7; 8; 9; 10; 11; 12].
Theorem turn_tcp_prefix_refuted :
  (let m := allocate_plain_bytes (fun _ _ => repeat 0 20) tcp_witness_txid in
   rfc_tcp_first m = Some m /\ rfc_tcp_first (tcp_send m) <> Some m) /\
  (let c := channel_data 16384 [1; 2; 3; 4; 5] in
   parse_channel_data c = Some (16384, [1; 2; 3; 4; 5]) /\ rfc_tcp_first (tcp_send c) <> Some c /\
   (zlen (tcp_send c) - 2) mod 4 <> 0).
Proof. vm_compute. repeat split; congruence. Qed.
