(* C01 -- Reliable ordered data channels deliver every message exactly once, in order.
   Statements only; every proof is `exact <lemma of Proofs/Sctp*.v>`.

   Vocabulary (Model/SctpRecv.v): `chunks sc W t0` is the TSN-stamped DATA chunk stream the
   sender's send_data_raw + transmit produce for the workload W (a list of submissions, any
   sizes including empty and multi-fragment, any number of channels) starting at TSN t0;
   `run st h` runs the receiver (handle_data, process_data_payload, InboundStream, the setup
   handlers) over the input history h and returns the final state and all events;
   `est_r cum rc` is an established association with cumulative TSN cum and channels rc;
   `log_of c evs` are the messages delivered on channel c; `submitted W c` those submitted on c. *)
From Coq Require Import ZArith List Bool.
From RV Require Import Lib.Wrap Gen.Consts Gen.Sctp Model.SctpRecv
     Proofs.SctpRecvBase Proofs.SctpRecvRefine Proofs.SctpSendSpec Proofs.SctpTheorems Proofs.SctpRwnd Model.SctpLive Proofs.SctpLiveProofs.
From RV Require Model.SctpSend Model.SctpSendSm Proofs.SctpLiveTie.
Import ListNotations.
Open Scope Z_scope.

(* Safety. For every workload whose chunk stream is shorter than 2^31 and every list of arrivals
   drawn from that stream -- any order, any duplication, any omission, no length bound -- the
   messages delivered on every channel c are a prefix of the messages submitted on c, each
   byte-identical.  TSNs wrap mod 2^32 and SSNs mod 2^16 inside `chunks` and `run`. *)
Theorem C01_safety : forall sc W t0 rc arr,
  Z.of_nat (length (chunks sc W t0)) < 2147483648 ->
  wf_workload sc W ->
  Forall (fun c => In c (chunks sc W t0)) arr ->
  forall c, exists n, log_of c (snd (run (est_r (w32 (t0 - 1)) rc) (map IData arr))) = firstn n (submitted W c).
Proof. exact safety. Qed.

(* The same with duplicated or late association-setup chunks (INIT, INIT-ACK, COOKIE-ECHO,
   COOKIE-ACK, valid or not) anywhere in the history of the established association. *)
Theorem C01_safety_with_setup : forall sc W t0 rc h,
  Z.of_nat (length (chunks sc W t0)) < 2147483648 ->
  wf_workload sc W ->
  Forall (genuine_input (chunks sc W t0)) h ->
  forall c, exists n, log_of c (snd (run (est_r (w32 (t0 - 1)) rc) h)) = firstn n (submitted W c).
Proof. exact safety_with_setup. Qed.

(* Exactly once, in order: at every point the receiver has consumed precisely the first k chunks
   of the stream, once each and in order (what it logged is what in-order processing of those k
   chunks logs), the cumulative TSN it acknowledges is t0-1+k (mod 2^32), and k is the whole
   stream as soon as every chunk has arrived at least once. *)
Theorem C01_exactly_once_in_order : forall sc W t0 rc h,
  Z.of_nat (length (chunks sc W t0)) < 2147483648 ->
  wf_workload sc W ->
  Forall (genuine_input (chunks sc W t0)) h ->
  exists k, (k <= length (chunks sc W t0))%nat /\
            r_cum (fst (run (est_r (w32 (t0 - 1)) rc) h)) = w32 (t0 - 1 + Z.of_nat k) /\
            (forall c, log_of c (snd (run (est_r (w32 (t0 - 1)) rc) h)) =
                       log_of c (snd (proc_all (mkApp rc []) (firstn k (pchunks sc [] W))))) /\
            ((forall c, In c (chunks sc W t0) -> In (IData c) h) -> k = length (chunks sc W t0)).
Proof. exact exactly_once_in_order. Qed.

(* Completion -- the part of "the prefix grows to the full sequence" that is not about time: once
   every chunk has arrived at least once (any order, duplicates, setup chunks in between), every
   channel the receiver has holds exactly the submitted sequence and the whole stream is
   acknowledged.  (That retransmission makes every chunk arrive within bounded time is a property
   of the sender, the timers and the network: exercised by the harness, not proved.) *)
Theorem C01_complete_when_delivered : forall sc W t0 rc h,
  Z.of_nat (length (chunks sc W t0)) < 2147483648 ->
  wf_workload sc W ->
  Forall (genuine_input (chunks sc W t0)) h ->
  (forall c, In c (chunks sc W t0) -> In (IData c) h) ->
  r_cum (fst (run (est_r (w32 (t0 - 1)) rc) h)) = w32 (t0 - 1 + Z.of_nat (length (chunks sc W t0))) /\
  forall c, find_chan c rc <> None ->
            log_of c (snd (run (est_r (w32 (t0 - 1)) rc) h)) = submitted W c.
Proof. exact complete_when_delivered. Qed.

(* The whole history from the start of run_loop: a handshake `pre` of setup chunks only (any
   duplicates, invalid cookies, repeated INITs) that leaves the association established and
   expecting TSN t0, followed by ANY history of genuine arrivals and further setup chunks. *)
Theorem C01_safety_from_start : forall sc W t0 rc pre h,
  Z.of_nat (length (chunks sc W t0)) < 2147483648 ->
  wf_workload sc W ->
  Forall is_setup pre ->
  r_conn (fst (run (init_r 0 rc) pre)) = SctpState_Connected ->
  r_cum (fst (run (init_r 0 rc) pre)) = w32 (t0 - 1) ->
  Forall (genuine_input (chunks sc W t0)) h ->
  (forall c, exists n, log_of c (snd (run (init_r 0 rc) (pre ++ h))) = firstn n (submitted W c)) /\
  ((forall c, In c (chunks sc W t0) -> In (IData c) h) ->
   forall c, find_chan c rc <> None -> log_of c (snd (run (init_r 0 rc) (pre ++ h))) = submitted W c).
Proof. exact safety_from_start. Qed.

(* both handshakes the endpoint takes part in satisfy the premises on `pre` *)
Theorem C01_handshake_server : forall t0 rc,
  Forall is_setup [IInit t0; ICookieEcho true] /\
  r_conn (fst (run (init_r 0 rc) [IInit t0; ICookieEcho true])) = SctpState_Connected /\
  r_cum (fst (run (init_r 0 rc) [IInit t0; ICookieEcho true])) = w32 (t0 - 1).
Proof. exact handshake_server. Qed.
Theorem C01_handshake_client : forall t0 rc,
  Forall is_setup [IInitAck t0 true; ICookieAck] /\
  r_conn (fst (run (init_r 0 rc) [IInitAck t0 true; ICookieAck])) = SctpState_Connected /\
  r_cum (fst (run (init_r 0 rc) [IInitAck t0 true; ICookieAck])) = w32 (t0 - 1).
Proof. exact handshake_client. Qed.

(* The whole history with ANY traffic before the association is established -- setup chunks
   (duplicated, superseded INIT-ACKs, invalid cookies) and arbitrary DATA, which is dropped (fix
   165fa18; this was the open finding setup_replay_before_established) --, then the establishing
   COOKIE-ACK / valid COOKIE-ECHO, then genuine arrivals and setup chunks in any order. The stream is
   numbered from the TSN held at establishment; completion needs every chunk to arrive at least
   once after establishment (what arrived before was dropped unacknowledged and is retransmitted). *)
Theorem C01_safety_any_handshake : forall sc W t0 rc pre0 e h,
  Z.of_nat (length (chunks sc W t0)) < 2147483648 ->
  wf_workload sc W ->
  Forall pre_input pre0 ->
  r_conn (fst (run (init_r 0 rc) pre0)) <> SctpState_Connected ->
  r_cum (fst (run (init_r 0 rc) pre0)) = w32 (t0 - 1) ->
  e = ICookieAck \/ e = ICookieEcho true ->
  Forall (genuine_input (chunks sc W t0)) h ->
  (forall c, exists n, log_of c (snd (run (init_r 0 rc) (pre0 ++ e :: h))) = firstn n (submitted W c)) /\
  ((forall c, In c (chunks sc W t0) -> In (IData c) h) ->
   forall c, find_chan c rc <> None -> log_of c (snd (run (init_r 0 rc) (pre0 ++ e :: h))) = submitted W c).
Proof. exact safety_any_handshake. Qed.

(* the former witness of that finding, as a regression example: DATA overtakes the COOKIE-ACK, a
   late duplicate INIT-ACK follows, COOKIE-ACK, the third message, the two retransmissions *)
Theorem C01_setup_replay_fixed :
  Forall pre_input f11_pre /\
  r_conn (fst (run (init_r 0 f11_rc) f11_pre)) <> SctpState_Connected /\
  r_cum (fst (run (init_r 0 f11_rc) f11_pre)) = w32 (f11_t0 - 1) /\
  evs_of 0 (snd (run (init_r 0 f11_rc) f11_pre)) = [] /\
  evs_of 0 (snd (run (init_r 0 f11_rc) (f11_pre ++ ICookieAck :: f11_post))) = [EOpen; EMsg [97]; EMsg [98]; EMsg [99]].
Proof. exact setup_replay_fixed. Qed.

(* Receive-window accounting is conservative (the liveness clause depends on it: a window that
   leaks ends at a_rwnd = 0 for ever and the peer stops sending).  For EVERY history of DATA
   chunks that are not DCEP -- arbitrary TSNs, any number of duplicates of buffered chunks -- setup
   chunks, close calls and teardown, used_rwnd is (mod 2^64) the total length of the chunks
   waiting in received_queue and their TSNs are distinct. *)
Theorem C01_rwnd_accounting : forall h st, rw_inv st -> Forall rw_input h -> rw_inv (fst (run st h)).
Proof. exact rwnd_accounting. Qed.

(* No leak: for the histories of C01 the accounting holds throughout, and once every chunk has
   arrived at least once the reorder queue is empty, nothing is charged and the advertised window
   (a_rwnd of the next SACK) is the configured receive window again. *)
Theorem C01_rwnd_no_leak : forall sc W t0 rc h local,
  Z.of_nat (length (chunks sc W t0)) < 2147483648 ->
  wf_workload sc W ->
  Forall (genuine_input (chunks sc W t0)) h ->
  0 <= local <= 4294967295 ->
  let st := fst (run (est_r (w32 (t0 - 1)) rc) h) in
  r_used st = cast_usize (sum_len (r_rq st)) /\
  ((forall c, In c (chunks sc W t0) -> In (IData c) h) ->
   r_rq st = [] /\ r_used st = 0 /\ adv_rwnd local st = local).
Proof. exact rwnd_no_leak. Qed.

(* Liveness over abstract Tick events (real time is not modelled: partial).  h0' ++ h0'' is ANY
   history of the established association -- arrivals drawn from the stream in any order, with any
   loss and duplication, and setup chunks; the sender still holds every chunk beyond a cumulative
   ack the receiver reported at some earlier point h0' (stale knowledge, lost SACKs).  A Tick is: T3
   expires, the first `burst` >= 1 outstanding chunks are re-sent, the now reliable network
   delivers them, the receiver's SACK comes back and the chunks it covers are dropped
   (Model/SctpLive.v).  After |stream| Ticks nothing is outstanding, the receiver acknowledges the
   last TSN and every channel it has holds exactly the submitted sequence. *)
Theorem C01_live_after_ticks : forall sc W t0 rc h0' h0'' burst,
  let cs := chunks sc W t0 in
  let est := est_r (w32 (t0 - 1)) rc in
  Z.of_nat (length cs) < 2147483648 ->
  wf_workload sc W ->
  Forall (genuine_input cs) (h0' ++ h0'') ->
  (1 <= burst)%nat ->
  let out0 := ack_drop (r_cum (fst (run est h0'))) cs in
  let r0 := run est (h0' ++ h0'') in
  let r := ticks (length cs) burst (out0, fst r0) in
  fst (fst r) = [] /\
  r_cum (snd (fst r)) = w32 (t0 - 1 + Z.of_nat (length cs)) /\
  forall c, find_chan c rc <> None -> log_of c (snd r0 ++ snd r) = submitted W c.
Proof. exact live_after_ticks. Qed.

(* What a Tick assumes of the sender, proved about C13's model of the sender state machine
   (Model/SctpSendSm.v, imported unchanged): handle_timeout (T3) followed by transmit re-sends the
   first RETRANSMIT_BURST unacknowledged records of the sent queue, whatever the window says ... *)
Theorem C01_t3_resends : forall c s r,
  In r (firstn (Z.to_nat RETRANSMIT_BURST) (RV.Proofs.SctpLiveTie.unacked (RV.Model.SctpSendSm.s_sent s))) ->
  In (RV.Model.SctpSendSm.rec_wire r)
     (snd (RV.Model.SctpSendSm.transmit_chunks c (RV.Model.SctpSendSm.handle_t3 s))).
Proof. exact RV.Proofs.SctpLiveTie.t3_transmit_resends. Qed.

(* ... and the cumulative removal of apply_sack keeps exactly the serially later TSNs (tsn_gt) *)
Theorem C01_sack_cum_removal : forall cum sent,
  map RV.Model.SctpSendSm.r_tsn (RV.Model.SctpSendSm.cum_kept cum sent) =
  filter (fun t => RV.Gen.Serial.tsn_gt t cum) (map RV.Model.SctpSendSm.r_tsn sent).
Proof. exact RV.Proofs.SctpLiveTie.cum_kept_is_tsn_gt. Qed.

(* In-order processing of any prefix of the sender's stream logs a prefix of the submissions. *)
Theorem C01_in_order_prefix : forall sc W ssns a k c,
  Forall (wf_sub sc) W -> ssn_rel sc ssns a ->
  exists n, log_of c (snd (proc_all a (firstn k (pchunks sc ssns W)))) = firstn n (submitted W c).
Proof. exact prefix_logged. Qed.

(* The premises are satisfiable and the conclusion is not vacuous (multi-fragment message, two
   channels, reordered and duplicated arrivals across the 2^32 TSN wrap). *)
Theorem C01_safety_example :
  Z.of_nat (length (chunks ex_sc ex_W ex_t0)) < 2147483648 /\ wf_workload ex_sc ex_W /\
  Forall (fun c => In c (chunks ex_sc ex_W ex_t0)) ex_arr /\
  log_of 0 (snd (run (est_r (w32 (ex_t0 - 1)) ex_rc) (map IData ex_arr))) = [[1; 2; 3]; []; [4]] /\
  log_of 1 (snd (run (est_r (w32 (ex_t0 - 1)) ex_rc) (map IData ex_arr))) = [[9]].
Proof. exact safety_premises_hold. Qed.
