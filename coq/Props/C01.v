(* C01 -- Reliable ordered data channels deliver every message exactly once, in order.
   Statements only; every proof is `exact <lemma of Proofs/Sctp*.v>`.

   Vocabulary (Model/SctpRecv.v): `chunks sc W t0` is the TSN-stamped DATA chunk stream the
   sender's send_data_raw + transmit produce for the workload W (a list of submissions, any
   sizes including empty and multi-fragment, any number of channels) starting at TSN t0;
   `run st h` runs the receiver (handle_data, process_data_payload, InboundStream, the setup
   handlers) over the input history h and returns the final state and all events;
   `est_r cum rc` is an established association with cumulative TSN cum and channels rc;
   `log_of c evs` are the messages delivered on channel c; `submitted W c` those submitted on c. *)
From Coq Require Import ZArith List Bool.
From RV Require Import Lib.Wrap Gen.Consts Gen.Sctp Model.SctpRecv
     Proofs.SctpRecvBase Proofs.SctpRecvRefine Proofs.SctpSendSpec Proofs.SctpTheorems Proofs.SctpWrapWitness Proofs.SctpRwnd.
Import ListNotations.
Open Scope Z_scope.

(* Safety. For every workload whose chunk stream is shorter than 2^31 and every list of arrivals
   drawn from that stream -- any order, any duplication, any omission, no length bound -- the
   messages delivered on every channel c are a prefix of the messages submitted on c, each
   byte-identical.  TSNs wrap mod 2^32 and SSNs mod 2^16 inside `chunks` and `run`. *)
Theorem C01_safety : forall sc W t0 rc arr,
  Z.of_nat (length (chunks sc W t0)) < 2147483648 ->
  wf_workload sc W ->
  Forall (fun c => In c (chunks sc W t0)) arr ->
  forall c, exists n, log_of c (snd (run (est_r (w32 (t0 - 1)) rc) (map IData arr))) = firstn n (submitted W c).
Proof. exact safety. Qed.

(* The same with duplicated or late association-setup chunks (INIT, INIT-ACK, COOKIE-ECHO,
   COOKIE-ACK, valid or not) anywhere in the history of the established association. *)
Theorem C01_safety_with_setup : forall sc W t0 rc h,
  Z.of_nat (length (chunks sc W t0)) < 2147483648 ->
  wf_workload sc W ->
  Forall (genuine_input (chunks sc W t0)) h ->
  forall c, exists n, log_of c (snd (run (est_r (w32 (t0 - 1)) rc) h)) = firstn n (submitted W c).
Proof. exact safety_with_setup. Qed.

(* Exactly once, in order: at every point the receiver has consumed precisely the first k chunks
   of the stream, once each and in order (what it logged is what in-order processing of those k
   chunks logs), the cumulative TSN it acknowledges is t0-1+k (mod 2^32), and k is the whole
   stream as soon as every chunk has arrived at least once. *)
Theorem C01_exactly_once_in_order : forall sc W t0 rc h,
  Z.of_nat (length (chunks sc W t0)) < 2147483648 ->
  wf_workload sc W ->
  Forall (genuine_input (chunks sc W t0)) h ->
  exists k, (k <= length (chunks sc W t0))%nat /\
            r_cum (fst (run (est_r (w32 (t0 - 1)) rc) h)) = w32 (t0 - 1 + Z.of_nat k) /\
            (forall c, log_of c (snd (run (est_r (w32 (t0 - 1)) rc) h)) =
                       log_of c (snd (proc_all (mkApp rc []) (firstn k (pchunks sc [] W))))) /\
            ((forall c, In c (chunks sc W t0) -> In (IData c) h) -> k = length (chunks sc W t0)).
Proof. exact exactly_once_in_order. Qed.

(* Completion -- the part of "the prefix grows to the full sequence" that is not about time: once
   every chunk has arrived at least once (any order, duplicates, setup chunks in between), every
   channel the receiver has holds exactly the submitted sequence and the whole stream is
   acknowledged.  (That retransmission makes every chunk arrive within bounded time is a property
   of the sender, the timers and the network: exercised by the harness, not proved.) *)
Theorem C01_complete_when_delivered : forall sc W t0 rc h,
  Z.of_nat (length (chunks sc W t0)) < 2147483648 ->
  wf_workload sc W ->
  Forall (genuine_input (chunks sc W t0)) h ->
  (forall c, In c (chunks sc W t0) -> In (IData c) h) ->
  r_cum (fst (run (est_r (w32 (t0 - 1)) rc) h)) = w32 (t0 - 1 + Z.of_nat (length (chunks sc W t0))) /\
  forall c, find_chan c rc <> None ->
            log_of c (snd (run (est_r (w32 (t0 - 1)) rc) h)) = submitted W c.
Proof. exact complete_when_delivered. Qed.

(* The whole history from the start of run_loop: a handshake `pre` of setup chunks only (any
   duplicates, invalid cookies, repeated INITs) that leaves the association established and
   expecting TSN t0, followed by ANY history of genuine arrivals and further setup chunks. *)
Theorem C01_safety_from_start : forall sc W t0 rc pre h,
  Z.of_nat (length (chunks sc W t0)) < 2147483648 ->
  wf_workload sc W ->
  Forall is_setup pre ->
  r_conn (fst (run (init_r 0 rc) pre)) = SctpState_Connected ->
  r_cum (fst (run (init_r 0 rc) pre)) = w32 (t0 - 1) ->
  Forall (genuine_input (chunks sc W t0)) h ->
  (forall c, exists n, log_of c (snd (run (init_r 0 rc) (pre ++ h))) = firstn n (submitted W c)) /\
  ((forall c, In c (chunks sc W t0) -> In (IData c) h) ->
   forall c, find_chan c rc <> None -> log_of c (snd (run (init_r 0 rc) (pre ++ h))) = submitted W c).
Proof. exact safety_from_start. Qed.

(* both handshakes the endpoint takes part in satisfy the premises on `pre` *)
Theorem C01_handshake_server : forall t0 rc,
  Forall is_setup [IInit t0; ICookieEcho true] /\
  r_conn (fst (run (init_r 0 rc) [IInit t0; ICookieEcho true])) = SctpState_Connected /\
  r_cum (fst (run (init_r 0 rc) [IInit t0; ICookieEcho true])) = w32 (t0 - 1).
Proof. exact handshake_server. Qed.
Theorem C01_handshake_client : forall t0 rc,
  Forall is_setup [IInitAck t0 true; ICookieAck] /\
  r_conn (fst (run (init_r 0 rc) [IInitAck t0 true; ICookieAck])) = SctpState_Connected /\
  r_cum (fst (run (init_r 0 rc) [IInitAck t0 true; ICookieAck])) = w32 (t0 - 1).
Proof. exact handshake_client. Qed.

(* Listed finding (class setup_replay_before_established): the premise that no DATA is handled
   before the association is established cannot be dropped.  With DATA overtaking a late
   COOKIE-ACK and a late duplicate INIT-ACK, every chunk arrives and yet a message is never
   delivered -- the endpoint still overwrites its cumulative TSN from INIT / INIT-ACK while the
   handshake is incomplete (after establishment it ignores them: fix 4d354ac). *)
Theorem C01_setup_replay_refuted :
  exists sc W t0 rc h,
    Z.of_nat (length (chunks sc W t0)) < 2147483648 /\ wf_workload sc W /\
    Forall (genuine_input (chunks sc W t0)) h /\
    (forall c, In c (chunks sc W t0) -> In (IData c) h) /\
    exists c, find_chan c rc <> None /\ log_of c (snd (run (init_r 0 rc) h)) <> submitted W c.
Proof. exact setup_replay_refuted. Qed.

(* ... and the same replay also breaks SAFETY on an ordered channel once the SSN wraps: the old
   copy of message 0, parked in InboundStream.pending by the replay, is delivered a second time
   after message 65535, and message 65536 never (65 537 messages; checked by vm_compute). *)
Theorem C01_setup_replay_safety_refuted :
  exists sc W t0 rc h,
    Z.of_nat (length (chunks sc W t0)) < 2147483648 /\ wf_workload sc W /\
    Forall (genuine_input (chunks sc W t0)) h /\
    exists c, ~ exists n, log_of c (snd (run (init_r 0 rc) h)) = firstn n (submitted W c).
Proof. exact setup_replay_safety_refuted. Qed.

(* Receive-window accounting is conservative (the liveness clause depends on it: a window that
   leaks ends at a_rwnd = 0 for ever and the peer stops sending).  For EVERY history of DATA
   chunks that are not DCEP -- arbitrary TSNs, any number of duplicates of buffered chunks -- setup
   chunks, close calls and teardown, used_rwnd is (mod 2^64) the total length of the chunks
   waiting in received_queue and their TSNs are distinct. *)
Theorem C01_rwnd_accounting : forall h st, rw_inv st -> Forall rw_input h -> rw_inv (fst (run st h)).
Proof. exact rwnd_accounting. Qed.

(* No leak: for the histories of C01 the accounting holds throughout, and once every chunk has
   arrived at least once the reorder queue is empty, nothing is charged and the advertised window
   (a_rwnd of the next SACK) is the configured receive window again. *)
Theorem C01_rwnd_no_leak : forall sc W t0 rc h local,
  Z.of_nat (length (chunks sc W t0)) < 2147483648 ->
  wf_workload sc W ->
  Forall (genuine_input (chunks sc W t0)) h ->
  0 <= local <= 4294967295 ->
  let st := fst (run (est_r (w32 (t0 - 1)) rc) h) in
  r_used st = cast_usize (sum_len (r_rq st)) /\
  ((forall c, In c (chunks sc W t0) -> In (IData c) h) ->
   r_rq st = [] /\ r_used st = 0 /\ adv_rwnd local st = local).
Proof. exact rwnd_no_leak. Qed.

(* In-order processing of any prefix of the sender's stream logs a prefix of the submissions. *)
Theorem C01_in_order_prefix : forall sc W ssns a k c,
  Forall (wf_sub sc) W -> ssn_rel sc ssns a ->
  exists n, log_of c (snd (proc_all a (firstn k (pchunks sc ssns W)))) = firstn n (submitted W c).
Proof. exact prefix_logged. Qed.

(* The premises are satisfiable and the conclusion is not vacuous (multi-fragment message, two
   channels, reordered and duplicated arrivals across the 2^32 TSN wrap). *)
Theorem C01_safety_example :
  Z.of_nat (length (chunks ex_sc ex_W ex_t0)) < 2147483648 /\ wf_workload ex_sc ex_W /\
  Forall (fun c => In c (chunks ex_sc ex_W ex_t0)) ex_arr /\
  log_of 0 (snd (run (est_r (w32 (ex_t0 - 1)) ex_rc) (map IData ex_arr))) = [[1; 2; 3]; []; [4]] /\
  log_of 1 (snd (run (est_r (w32 (ex_t0 - 1)) ex_rc) (map IData ex_arr))) = [[9]].
Proof. exact safety_premises_hold. Qed.
