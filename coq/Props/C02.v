(* C02 -- DTLS connects only to the peer whose certificate matches the SDP fingerprint.
   Statements only; every proof is `exact <lemma>`.  Cryptography is the explicit argument `C`
   (a record of functions over an arbitrary type T of byte strings); the only thing assumed about it
   is written as a premise of the theorem that needs it. *)
From Coq Require Import ZArith List Bool.
From RV Require Import Gen.Dtls Model.DtlsHs Model.DtlsSym Model.Fingerprint
                       Proofs.DtlsHsProofs Proofs.DtlsSymProofs Proofs.FingerprintProofs.
Import ListNotations.
Open Scope Z_scope.

(* Client role, expected fingerprint fp.  For EVERY sequence of inputs (datagrams of any content in any
   order, retransmit ticks, the deadline) fed to a fresh handshake: if the state is Connected then, in
   that handshake, (1) a Certificate with leaf `cert` was accepted and fingerprint cert = fp, (2) a
   ServerKeyExchange was accepted whose signature verifies under cert's key over this handshake's
   client random, the server random of that moment and the key-exchange parameters, (3) the session
   keys derive from ECDH between the local ephemeral secret and exactly that signed share, (4) the
   peer's Finished equals the PRF of the master secret over the hash of the local transcript. *)
Theorem C02_client_auth :
  forall (T : Type) (C : crypto T), (forall a b, t_eqb C a b = true -> a = b) ->
  forall (g : cfg T) (fp : T) (is : list (input T)) (k : keys T) (p : option Z),
  g_role g = Client -> g_expected g = Some fp ->
  let c := fst (run C (fst (start C g)) is) in
  st c = StConnected k p ->
  exists cert vk sr ct nc pk sg pms tr1 vd tr0,
    In (EvCert cert) (log c) /\ fingerprint C cert = fp /\ cert_pk C cert = Some vk /\
    In (EvSke cert (g_rand g) sr ct nc pk sg) (log c) /\
    verify C vk [g_rand g; sr; znum C ct; znum C nc; pk] sg = true /\
    dh C (g_eph g) pk = Some pms /\
    In (EvKeys k pms tr1) (log c) /\
    (k_ms k = prf C pms LExtMaster [hashT C tr1] \/ k_ms k = prf C pms LMaster [g_rand g; k_sr k]) /\
    k_cr k = g_rand g /\ k_block k = prf C (k_ms k) LKeyExp [k_sr k; k_cr k] /\
    In (EvFinOk vd (k_ms k) tr0) (log c) /\ vd = prf C (k_ms k) LServerFin [hashT C tr0].
Proof. exact @client_auth. Qed.

(* With an ideal signature scheme (premise `sig_ideal`: a signature verifies only if the holder of the
   signing key produced it for exactly that content) the accepted ServerKeyExchange signature IS the
   signature of the fingerprinted certificate's private key over this handshake's fresh client random
   and the share the keys come from: the peer proved possession in this handshake. *)
Theorem C02_client_auth_possession :
  forall (T : Type) (C : crypto T), (forall a b, t_eqb C a b = true -> a = b) ->
  forall (vk_of : T -> T),
  (forall vk m s, verify C vk m s = true -> exists sk, vk = vk_of sk /\ s = sign C sk m) ->
  forall (g : cfg T) (fp : T) (is : list (input T)) (k : keys T) (p : option Z),
  g_role g = Client -> g_expected g = Some fp ->
  let c := fst (run C (fst (start C g)) is) in
  st c = StConnected k p ->
  exists cert sk sr ct nc pk pms tr1,
    fingerprint C cert = fp /\ cert_pk C cert = Some (vk_of sk) /\
    In (EvSke cert (g_rand g) sr ct nc pk (sign C sk [g_rand g; sr; znum C ct; znum C nc; pk])) (log c) /\
    dh C (g_eph g) pk = Some pms /\ In (EvKeys k pms tr1) (log c).
Proof. exact @client_auth_possession. Qed.

(* Once Failed, no input of any kind changes anything or produces output: never Connected afterwards. *)
Theorem C02_failed_is_absorbing :
  forall (T : Type) (C : crypto T) (g : cfg T) (is1 is2 : list (input T)),
  let c := fst (run C (fst (start C g)) is1) in
  st c = StFailed -> run C c is2 = (c, []).
Proof. exact @failed_absorbing. Qed.

Theorem C02_failed_never_connected :
  forall (T : Type) (C : crypto T) (g : cfg T) (is1 is2 : list (input T)),
  let c := fst (run C (fst (start C g)) is1) in
  st c = StFailed -> connected (fst (run C c is2)) = false.
Proof. exact @failed_never_connected. Qed.

(* export_keying_material and send succeed only in the Connected state (so, with C02_client_auth, only
   after the authentication above) *)
Theorem C02_no_export_unless_connected :
  forall (T : Type) (C : crypto T) (c : ctx T) (l : list Z),
  connected c = false -> export_keying_material C c l = None /\ forall n d, send_app C c n d = None.
Proof. exact @export_none_unless_connected. Qed.

Theorem C02_export_only_connected :
  forall (T : Type) (C : crypto T) (c : ctx T) (l : list Z) (x : T),
  export_keying_material C c l = Some x ->
  exists k p, st c = StConnected k p /\ x = prf C (k_ms k) (LExport l) [k_cr k; k_sr k].
Proof. exact @export_only_connected. Qed.

(* Server role (finding F17, open): the property is REFUTED -- a server whose expected fingerprint
   matches nobody reaches Connected with an ordinary client; no Certificate is requested, presented or
   accepted (peer_certificate = None). *)
Theorem C02_server_auth_refuted :
  exists (g : cfg tm) (is : list (input tm)) (k : keys tm) (p : option Z),
    g_role g = Server /\ g_expected g = Some (fingerprint sym (junk 0)) /\
    let c := fst (run sym (fst (start sym g)) is) in
    st c = StConnected k p /\ peer_cert c = None /\
    forallb (fun e => match e with EvCert _ => false | _ => true end) (log c) = true /\
    map (@h_type tm) (tr c) = [1; 2; 11; 12; 14; 16; 20; 20].
Proof. exact server_auth_refuted. Qed.

(* What does hold in the server role: Connected implies the client's Finished was verified against the
   server's transcript under keys derived from the client's key share. *)
Theorem C02_server_finished_verified :
  forall (T : Type) (C : crypto T), (forall a b, t_eqb C a b = true -> a = b) ->
  forall (g : cfg T) (is : list (input T)) (k : keys T) (p : option Z),
  g_role g = Server ->
  let c := fst (run C (fst (start C g)) is) in
  st c = StConnected k p ->
  exists pk pms tr1 vd tr0,
    In (EvFinOk vd (k_ms k) tr0) (log c) /\ vd = prf C (k_ms k) LClientFin [hashT C tr0] /\
    In (EvKeys k pms tr1) (log c) /\ dh C (g_eph g) pk = Some pms /\
    (k_ms k = prf C pms LExtMaster [hashT C tr1] \/ k_ms k = prf C pms LMaster [k_cr k; g_rand g]) /\
    k_sr k = g_rand g.
Proof. exact @server_finished_verified. Qed.

(* Epoch-0 (plaintext) ApplicationData is never handed to the application, in any state -- in
   particular not before authentication (fixed by 02d1d8d; shared with C03). *)
Theorem C02_no_plaintext_appdata :
  forall (T : Type) (C : crypto T) (c : ctx T) (r : record T) (d : T),
  r_epoch r = 0 -> r_content r = KAppData d -> handle_record C c r = (c, [], RNext).
Proof. exact @no_plaintext_appdata. Qed.

(* The premises are satisfiable and the client theorem is not vacuous: the free term algebra `sym`
   satisfies eqb-soundness and the ideal-signature premise, and its honest run reaches Connected. *)
Theorem C02_premises_satisfiable :
  (forall a b, t_eqb sym a b = true -> a = b) /\
  (forall vk m s, verify sym vk m s = true -> exists sk, vk = sym_vk sk /\ s = sign sym sk m) /\
  (forall sk m, verify sym (sym_vk sk) m (sign sym sk m) = true) /\
  exists (is : list (input tm)) (k : keys tm) (p : option Z),
    st (fst (run sym (fst (start sym (client_cfg 1))) is)) = StConnected k p.
Proof. exact (conj sym_eqb_sound (conj sym_sig_ideal (conj sym_verify_sign client_auth_nonvacuous))). Qed.

(* ---- fingerprint normalisation (src/sdp.rs normalize_fingerprint_value, SdpFingerprint::parse,
        collect_dtls_fingerprint) and the exact-string comparison of handle_certificate ---- *)

(* idempotent *)
Theorem C02_fp_normalise_idempotent :
  forall v n, normalize v = Some n -> normalize n = Some n.
Proof. exact normalize_idempotent. Qed.

(* the result depends only on the hex digits: case, colons and ASCII whitespace are irrelevant *)
Theorem C02_fp_normalise_insensitive :
  forall v w, canon v = canon w -> normalize v = normalize w.
Proof. exact normalize_canon. Qed.

Theorem C02_fp_normalise_case_colon :
  forall v, normalize (map to_upper v) = normalize v /\ normalize (map to_lower v) = normalize v /\
            normalize (filter (fun c => negb (c =? FP_SEPARATOR)) v) = normalize v.
Proof. exact normalize_case_colon. Qed.

(* accepted iff non-empty, an even number of bytes, all hex digits *)
Theorem C02_fp_normalise_rejects :
  forall v, (exists n, normalize v = Some n) <->
            (canon v <> [] /\ Z.even (utf8_len (canon v)) = true /\ forallb is_hex (canon v) = true).
Proof. exact normalize_accepts_iff. Qed.

(* what fingerprint_from_der renders is a fixed point, and an SDP value is accepted with that result
   exactly when its hex digits are the digest's: the string equality in handle_certificate compares
   digests *)
Theorem C02_fp_matches_digest :
  forall d, d <> [] -> Forall (fun b => 0 <= b < 256) d ->
  normalize (render d) = Some (render d) /\
  forall v, normalize v = Some (render d) <-> canon v = hexdigits d.
Proof. exact normalize_render. Qed.

(* all a=fingerprint attributes of one SDP must agree *)
Theorem C02_fp_all_agree :
  forall attrs f, collect attrs = Some (Some f) ->
  forall a, In a attrs -> parse_fp a = Some f.
Proof. exact collect_all_agree. Qed.

(* the comparison in handle_certificate is equality of the WHOLE strings: a strict prefix of the digest string
   (in particular the empty string, or a one-byte value the SDP layer accepts) is not the digest *)
Theorem C02_fp_compare_exact :
  forall expected digest, fp_accepts expected digest = true <-> expected = render digest.
Proof. exact fp_accepts_iff. Qed.

Theorem C02_fp_prefix_rejected :
  forall expected rest digest, render digest = expected ++ rest -> rest <> [] -> fp_accepts expected digest = false.
Proof. exact fp_prefix_rejected. Qed.

Theorem C02_sdp_value_accepts_digest :
  forall v e d, d <> [] -> Forall (fun b => 0 <= b < 256) d -> normalize v = Some e ->
  (fp_accepts e d = true <-> canon v = hexdigits d).
Proof. exact sdp_value_accepts_digest. Qed.
