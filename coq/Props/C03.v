(* C03 -- Only authenticated DTLS records are acted on; nothing leaves in clear.
   Statements only; every proof is `exact <lemma of Proofs/DtlsRecord*.v>`.
   AEAD is symbolic: `seal` / `open` are universally quantified function arguments; handshake-message
   processing (C02) is the universally quantified `hs_step`. No axioms. *)
From Coq Require Import ZArith List Bool.
From RV Require Import Lib.Wrap Gen.Consts Gen.DtlsRec Model.DtlsRecord
  Proofs.DtlsRecordLib Proofs.DtlsRecordSend Proofs.DtlsRecordRecv Proofs.DtlsRecordRoundtrip Proofs.DtlsRecordExamples.
Import ListNotations.
Open Scope Z_scope.

(* ------------------------------------------------------------------ send side *)

(* send(data) emits ceil(|data| / MAX_APP_DATA_RECORD_SIZE) datagrams (none for empty data), one per chunk;
   the chunks concatenate to data; each has 1..MAX plaintext bytes; the i-th datagram is
   frame(epoch, seq_i, |chunk_i|) ++ seal write_key (iv ++ be64 full_seq_i) (aad full_seq_i 23 254 253 |chunk_i|) chunk_i
   where the frame (header + explicit nonce) is a function of epoch, sequence number and LENGTH only;
   sequence numbers are consecutive from write_seq while the u64 counter does not wrap *)
Theorem C03_split : forall (seal : list Z -> list Z -> list Z -> list Z -> list Z) key iv epoch seq0 data,
  let pts := chunks MAXN data in
  let out := send seal key iv (mkTx epoch seq0) data in
  zlen (snd out) = (zlen data + MAX_APP_DATA_RECORD_SIZE - 1) / MAX_APP_DATA_RECORD_SIZE /\
  length (snd out) = length pts /\
  concat pts = data /\
  Forall (fun p => 0 < zlen p <= MAX_APP_DATA_RECORD_SIZE) pts /\
  (forall i p, nth_error pts i = Some p ->
     nth_error (snd out) i = Some (tx_frame epoch (seq_after seq0 i) (zlen p) ++ tx_sealed seal key iv epoch (seq_after seq0 i) p)) /\
  (0 <= seq0 -> seq0 + zlen pts < 2 ^ 64 ->
     (forall i, (i < length pts)%nat -> seq_after seq0 i = seq0 + Z.of_nat i) /\
     fst out = mkTx epoch (seq0 + zlen pts)).
Proof. exact split_thm. Qed.

(* the path limit: the record limit equals the SCTP packet cap, a full record fits the documented datagram
   budget (1252 = IPv6 minimum MTU - 28), and no datagram of send() exceeds limit + header + nonce + tag
   (for any AEAD whose output is plaintext length + tag length) *)
Theorem C03_datagram_limit :
  MAX_APP_DATA_RECORD_SIZE = MAX_SCTP_PACKET_SIZE /\
  MAX_APP_DATA_RECORD_SIZE + TX_HEADER_LEN + EXPLICIT_NONCE_LEN + GCM_TAG_LEN <= 1252 /\
  forall (seal : list Z -> list Z -> list Z -> list Z -> list Z) key iv s data,
    (forall k n a p, zlen (seal k n a p) = zlen p + GCM_TAG_LEN) ->
    Forall (fun d => zlen d <= MAX_APP_DATA_RECORD_SIZE + TX_HEADER_LEN + EXPLICIT_NONCE_LEN + GCM_TAG_LEN)
           (snd (send seal key iv s data)).
Proof. exact datagram_limit. Qed.

(* no clear application byte on the wire: the datagrams depend on the payload only through `seal` -- under
   any sealing function that hides the plaintext content, equally long payloads give identical datagrams *)
Theorem C03_wire_only_via_seal : forall seal0 key iv s d1 d2,
  (forall k n a p q, length p = length q -> seal0 k n a p = seal0 k n a q) ->
  length d1 = length d2 ->
  snd (send seal0 key iv s d1) = snd (send seal0 key iv s d2).
Proof. exact wire_only_via_seal. Qed.

(* any number of tasks (a function from task ids to work lists: send() calls and the close path), any
   schedule of their atomic steps (list of task ids, unbounded): the sequence numbers of all datagrams are
   pairwise distinct, all carry the write epoch, and stay below 2^48 while at most 2^48 - seq0 steps ran *)
Theorem C03_seq_unique_concurrent : forall e0 s0 (todo0 : nat -> list job) (sched : list nat),
  0 <= s0 -> s0 + Z.of_nat (length sched) <= 2 ^ 48 ->
  let w := run (init_world e0 s0 todo0) sched in
  NoDup (map w_seq (g_wire w)) /\
  (forall r, In r (g_wire w) -> w_epoch r = e0 /\ s0 <= w_seq r < 2 ^ 48).
Proof. exact seq_unique_concurrent. Qed.

(* hence no two datagrams are sealed with the same AES-GCM nonce iv ++ be64((epoch << 48) | seq) *)
Theorem C03_nonce_unique_concurrent : forall e0 s0 (todo0 : nat -> list job) (sched : list nat) iv,
  0 <= e0 < 2 ^ 16 -> 0 <= s0 -> s0 + Z.of_nat (length sched) <= 2 ^ 48 ->
  let w := run (init_world e0 s0 todo0) sched in
  forall i j ri rj, nth_error (g_wire w) i = Some ri -> nth_error (g_wire w) j = Some rj ->
    wire_nonce iv ri = wire_nonce iv rj -> i = j.
Proof. exact nonce_unique_concurrent. Qed.

(* the close_notify alert (fixed close path: numbered from write_seq) never reuses the nonce of an
   application record, whatever the interleaving of close() with concurrent senders *)
Theorem C03_alert_nonce_fresh : forall e0 s0 (todo0 : nat -> list job) (sched : list nat) iv,
  0 <= e0 < 2 ^ 16 -> 0 <= s0 -> s0 + Z.of_nat (length sched) <= 2 ^ 48 ->
  let w := run (init_world e0 s0 todo0) sched in
  forall i j ra r, nth_error (g_wire w) i = Some ra -> nth_error (g_wire w) j = Some r ->
    w_ct ra = alert_code -> i <> j -> wire_nonce iv ra <> wire_nonce iv r.
Proof. exact alert_nonce_fresh. Qed.

(* each task's datagrams leave in program order and are a prefix of its work, under every schedule *)
Theorem C03_thread_order : forall e0 s0 (todo0 : nat -> list job) (sched : list nat) tid,
  0 <= s0 -> s0 + Z.of_nat (length sched) <= 2 ^ 48 ->
  let w := run (init_world e0 s0 todo0) sched in
  wire_of tid w ++ t_todo (g_threads w tid) = todo0 tid.
Proof. exact thread_order. Qed.

(* a send(data) that ran to completion among any other tasks put exactly data on the wire, in order, in
   ApplicationData records of 1..MAX_APP_DATA_RECORD_SIZE plaintext bytes *)
Theorem C03_send_complete : forall e0 s0 (todo0 : nat -> list job) (sched : list nat) tid data,
  0 <= s0 -> s0 + Z.of_nat (length sched) <= 2 ^ 48 ->
  todo0 tid = send_jobs data ->
  let w := run (init_world e0 s0 todo0) sched in
  t_todo (g_threads w tid) = [] ->
  concat (map snd (wire_of tid w)) = data /\
  Forall (fun j => fst j = app_code /\ 0 < zlen (snd j) <= MAX_APP_DATA_RECORD_SIZE) (wire_of tid w).
Proof. exact send_complete. Qed.

(* the start of the connection: sender tasks may already spin on send() while the runner finishes the
   handshake (schedule element None = runner, Some tid = sender). With the order of the runner's three shared
   accesses as in the source (regenerated flag: counters stored BEFORE Connected is published), all datagrams
   carry the final handshake epoch and pairwise distinct sequence numbers >= ctx.sequence_number -- never a
   nonce of the handshake's own records (Finished is numbered below it) *)
Theorem C03_seq_unique_from_connect : forall e0 s0 (todo : nat -> list job) (sched : list (option nat)),
  0 <= s0 -> s0 + Z.of_nat (length sched) <= 2 ^ 48 ->
  let w := c_w (crun (cinit connected_published_after_stores e0 s0 todo) sched) in
  NoDup (map w_seq (g_wire w)) /\
  (forall r, In r (g_wire w) -> w_epoch r = e0 /\ s0 <= w_seq r < 2 ^ 48).
Proof. exact seq_unique_from_connect. Qed.

(* the order before fix 9dff55e (Connected published first) is refuted in the same machine: a record numbered
   (epoch 0, seq 0) -- observed on the real code by the stress run --, a record with (1, 0) = the nonce of
   Finished, and two records with equal sequence numbers *)
Theorem C03_connect_window_refuted :
  old_order_wire [None; Some 0; Some 0; Some 0]%nat = [(23, 0, 0)] /\
  old_order_wire [None; None; Some 0; Some 0; Some 0]%nat = [(23, 1, 0)] /\
  old_order_wire [None; None; Some 0; Some 0; Some 0; Some 0; Some 0; None; Some 0; Some 0; Some 0; Some 0]%nat
    = [(23, 1, 0); (23, 1, 1); (23, 1, 1)].
Proof. exact connect_window_refuted. Qed.

(* the ends of the size range *)
Theorem C03_send_empty : forall (seal : list Z -> list Z -> list Z -> list Z -> list Z) key iv s,
  send seal key iv s [] = (s, []).
Proof. exact send_empty. Qed.

Theorem C03_send_1MiB : forall (seal : list Z -> list Z -> list Z -> list Z -> list Z) key iv epoch seq0 data,
  zlen data = 1048576 -> 0 <= seq0 -> seq0 + 874 < 2 ^ 64 ->
  length (snd (send seal key iv (mkTx epoch seq0) data)) = 874%nat /\
  fst (send seal key iv (mkTx epoch seq0) data) = mkTx epoch (seq0 + 874).
Proof. exact send_1MiB. Qed.

(* ------------------------------------------------------------------ receive side *)

(* DtlsRecord::decode never panics (shared with C07) *)
Theorem C03_decode_total : forall buf, wf_bytes buf -> decode buf <> Panic.
Proof. exact decode_no_panic. Qed.

(* C03_accept, part 1: once keys exist a payload reaches the upper layer only out of an ApplicationData
   record of a non-zero epoch that opens under the read key of the role, with the nonce read_iv ++ explicit
   part and the AAD (epoch, seq, type, version, length) taken from that very record -- in every connection
   state, for every record, whatever the handshake machinery does *)
Theorem C03_accept_deliver : forall open H hs_step is_client (st : rx H) r k p,
  rx_keys st = Some k -> In p (rs_out H (record_step open H hs_step is_client st r)) ->
  r_type r = ContentType_ApplicationData /\ r_epoch r <> RX_PLAIN_EPOCH /\
  (if zlen (r_payload r) <? RX_MIN_PAYLOAD then None
   else open (rkey is_client k) (rec_nonce is_client k r) (rec_aad r) (rec_body r)) = Some p.
Proof. exact deliver_only_authentic. Qed.

(* ... and without assuming keys: before keys exist nothing at all reaches the upper layer, and an epoch-0
   (plaintext) record never does, in any state *)
Theorem C03_deliver_needs_keys : forall open H hs_step is_client (st : rx H) r p,
  In p (rs_out H (record_step open H hs_step is_client st r)) ->
  exists k, rx_keys st = Some k /\ r_type r = ContentType_ApplicationData /\ r_epoch r <> RX_PLAIN_EPOCH /\
            rec_open open is_client k r = Some p.
Proof. exact deliver_needs_keys. Qed.

(* C03_accept, part 2: an Alert record changes the receiver (state, keys, anything) only if it
   authenticates, and then the only change is state := Closed *)
Theorem C03_accept_alert : forall open H hs_step is_client (st : rx H) r k,
  rx_keys st = Some k -> r_type r = ContentType_Alert ->
  rs_state H (record_step open H hs_step is_client st r) <> st ->
  authentic open is_client k r /\ rs_state H (record_step open H hs_step is_client st r) = set_state st Closed.
Proof. exact alert_only_authentic. Qed.

(* C03_accept, part 3: a record that does not authenticate (plaintext epoch 0, or `open` fails: truncated,
   bit-flipped, wrong key, wrong nonce, wrong AAD) leaves the receiver unchanged, delivers nothing and raises
   no error -- for every content type once the handshake is over, and during the final flight (keys derived,
   still Handshaking) for every content type except ChangeCipherSpec *)
Theorem C03_reject_unauthentic : forall open H hs_step is_client (st : rx H) r k,
  rx_keys st = Some k -> unauthentic open is_client k r ->
  (rx_state st <> Handshaking \/ r_type r <> ContentType_ChangeCipherSpec) ->
  rs_state H (record_step open H hs_step is_client st r) = st /\
  rs_out H (record_step open H hs_step is_client st r) = [] /\
  rs_err H (record_step open H hs_step is_client st r) = false.
Proof. exact unauthentic_inert. Qed.

(* ... and the exception exactly: an unauthenticated ChangeCipherSpec delivers nothing, raises nothing, and either
   changes nothing or (epoch 0, still Handshaking) increments the saturating read-epoch counter -- a field no
   function of the record layer reads *)
Theorem C03_handshaking_ccs_effect : forall open H hs_step is_client (st : rx H) r k,
  rx_keys st = Some k -> unauthentic open is_client k r -> r_type r = ContentType_ChangeCipherSpec ->
  rs_out H (record_step open H hs_step is_client st r) = [] /\
  rs_err H (record_step open H hs_step is_client st r) = false /\
  (rs_state H (record_step open H hs_step is_client st r) = st \/
   (rx_state st = Handshaking /\ r_epoch r = RX_PLAIN_EPOCH /\
    rs_state H (record_step open H hs_step is_client st r) = bump_read_epoch H st)).
Proof. exact handshaking_ccs_effect. Qed.

(* complete characterisation: once keys exist, whatever a record changes in the receiver -- connection state,
   handshake context (hs_step is arbitrary: retransmission triggers, transcript, message_seq ...), liveness --
   it either authenticates under the read key, or it is that read-epoch increment. So after key derivation the
   handshake machinery is never run on unauthenticated input: no forged Finished, no message_seq / transcript
   skew, no retransmission trigger *)
Theorem C03_change_needs_authentic : forall open H hs_step is_client (st : rx H) r k,
  rx_keys st = Some k -> rs_state H (record_step open H hs_step is_client st r) <> st ->
  authentic open is_client k r \/
  (rx_state st = Handshaking /\ r_epoch r = RX_PLAIN_EPOCH /\ r_type r = ContentType_ChangeCipherSpec /\
   rs_state H (record_step open H hs_step is_client st r) = bump_read_epoch H st).
Proof. exact change_needs_authentic. Qed.

(* replay, pinned: the receiver keeps no per-record state, so an authenticated ApplicationData record is
   delivered and leaves the receiver exactly as it was (there is no anti-replay window) ... *)
Theorem C03_replay_no_state : forall open H hs_step is_client (st : rx H) r k p,
  rx_keys st = Some k -> r_type r = ContentType_ApplicationData -> r_epoch r <> RX_PLAIN_EPOCH ->
  rec_open open is_client k r = Some p ->
  record_step open H hs_step is_client st r = Next st [p].
Proof. exact authentic_app_step. Qed.

(* ... hence n copies of a genuine datagram are delivered n times and change nothing else *)
Theorem C03_replay_redelivers : forall (seal : list Z -> list Z -> list Z -> list Z -> list Z) open H hs_step,
  (forall k n a m, open k n a (seal k n a m) = Some m) ->
  (forall k n a m, zlen (seal k n a m) = zlen m + GCM_TAG_LEN) ->
  forall (c : bool) (k : keys) epoch seq pt (st : rx H) (n : nat),
    0 < epoch < 2 ^ 16 -> 0 <= seq < 2 ^ 48 -> zlen pt <= MAX_APP_DATA_RECORD_SIZE ->
    rx_keys st = Some k -> rx_alive st = true ->
    recv_all open H hs_step (negb c) st (repeat (tx_record seal (wkey c k) (wiv c k) epoch seq pt) n)
    = (st, repeat pt n).
Proof. exact replay_redelivers. Qed.

(* partial records: a datagram whose first record is incomplete (truncated, split across datagrams, length
   field larger than what follows) or has an invalid content type has no effect at all; and every strict
   prefix of a well-formed record is such a datagram *)
Theorem C03_partial_datagram_inert : forall open H hs_step is_client (st : rx H) data,
  decode data = Ok None \/ decode data = Err ->
  recv_datagram open H hs_step is_client st data = (st, []).
Proof. exact partial_datagram_inert. Qed.

Theorem C03_prefix_of_record_is_partial : forall code ct major minor epoch seq payload n,
  content_type_of_u8 code = Some ct -> zlen payload < 2 ^ 16 ->
  (n < 13 + length payload)%nat ->
  decode (firstn n ([code; major; minor] ++ be 2 epoch ++ be 6 seq ++ be 2 (zlen payload) ++ payload)) = Ok None.
Proof. exact prefix_of_record_is_partial. Qed.

Theorem C03_unauthentic_iff_not_authentic : forall open is_client k r,
  unauthentic open is_client k r <-> ~ authentic open is_client k r.
Proof. exact unauthentic_iff. Qed.

(* history form: any sequence of datagrams (any sizes, several records each, any source) none of whose
   records authenticates leaves an established connection exactly as it was; nothing is delivered *)
Theorem C03_unauthentic_history_inert : forall open H hs_step is_client k ds (st : rx H),
  rx_keys st = Some k -> rx_state st <> Handshaking ->
  Forall (fun d => Forall (unauthentic open is_client k) (parsed d)) ds ->
  recv_all open H hs_step is_client st ds = (st, []).
Proof. exact unauthentic_history_inert. Qed.

(* history form, genuine and forged records mixed: everything handed upward is the opening of an
   ApplicationData record of the history under the read key *)
Theorem C03_history_deliver_only_authentic : forall open H hs_step is_client k ds (st : rx H) p,
  rx_keys st = Some k -> In p (snd (recv_all open H hs_step is_client st ds)) ->
  exists d r, In d ds /\ In r (parsed d) /\ r_type r = ContentType_ApplicationData /\
              r_epoch r <> RX_PLAIN_EPOCH /\ rec_open open is_client k r = Some p.
Proof. exact history_deliver_only_authentic. Qed.

(* send and receive fit together: for ANY AEAD that is correct (open inverts seal) and adds a 16-byte tag, the
   datagram send_record of role c builds for (epoch, seq, pt) is, for a receiver of the opposite role that has
   the keys, one ApplicationData record whose derived key / nonce / AAD are exactly the sender's: pt is delivered,
   the receiver is otherwise unchanged -- so the premises of the accept theorems are satisfiable by genuine traffic *)
Theorem C03_genuine_delivered : forall (seal : list Z -> list Z -> list Z -> list Z -> list Z) open H hs_step,
  (forall k n a m, open k n a (seal k n a m) = Some m) ->
  (forall k n a m, zlen (seal k n a m) = zlen m + GCM_TAG_LEN) ->
  forall (c : bool) (k : keys) epoch seq pt (st : rx H),
    0 < epoch < 2 ^ 16 -> 0 <= seq < 2 ^ 48 -> zlen pt <= MAX_APP_DATA_RECORD_SIZE ->
    rx_keys st = Some k -> rx_alive st = true ->
    recv_datagram open H hs_step (negb c) st (tx_record seal (wkey c k) (wiv c k) epoch seq pt) = (st, [pt]).
Proof. exact genuine_delivered. Qed.

(* decode inverts the record layout (DtlsRecord::encode / the header written by send_record) *)
Theorem C03_decode_encoded : forall code ct major minor epoch seq payload rest,
  content_type_of_u8 code = Some ct -> 0 <= epoch < 2 ^ 16 -> 0 <= seq < 2 ^ 48 -> zlen payload < 2 ^ 16 ->
  decode ([code; major; minor] ++ be 2 epoch ++ be 6 seq ++ be 2 (zlen payload) ++ payload ++ rest)
  = Ok (Some (mkRec ct major minor epoch seq payload, rest)).
Proof. exact decode_encoded. Qed.

(* the record loop's fuel is never the reason it stops *)
Theorem C03_loop_fuel_enough : forall open H hs_step is_client f1 f2 (st : rx H) data,
  wf_bytes data -> (length data < f1)%nat -> (length data < f2)%nat ->
  records_fuel open H hs_step f1 is_client st data = records_fuel open H hs_step f2 is_client st data.
Proof. exact records_fuel_enough. Qed.

(* the premises are satisfiable and the receive model does accept what the send model emits: a concrete
   AEAD instance, genuine datagram delivered, wrong key / tampered / truncated / plaintext rejected *)
Theorem C03_example_genuine_accepted : toy_recv false Connected genuine = (Connected, [hello]).
Proof. exact genuine_accepted. Qed.
Theorem C03_example_plaintext_rejected :
  toy_recv false Connected (rec_encode 23 254 253 0 9 hello) = (Connected, []) /\
  toy_recv false Connected (rec_encode 21 254 253 0 9 [1; 0]) = (Connected, []).
Proof. exact (conj plaintext_app_rejected plaintext_close_rejected). Qed.
