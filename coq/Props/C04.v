(* C04 -- SRTP/SRTCP protection round-trips and matches an independent implementation.
   Statements only; every proof is `exact <lemma of Proofs/Srtp*.v>`. *)
From Coq Require Import ZArith List Bool.
From RV Require Import Lib.Wrap Gen.Consts Gen.SrtpArith Model.Srtp Proofs.SrtpLib Proofs.SrtpRoc Proofs.SrtpRound Proofs.SrtpHdr Proofs.SrtpReject Proofs.SrtpSession.
Import ListNotations.
Open Scope Z_scope.

(* ---- rollover estimation (SrtpContext::estimate_roc, translated from the source) *)

(* any 48-bit packet index within 2^15 of the receiver's (roc, last) is reconstructed exactly *)
Theorem C04_roc_estimate : forall roc last i,
  0 <= roc < 2 ^ 32 -> 0 <= last < 2 ^ 16 -> 0 <= i < 2 ^ 48 ->
  Z.abs (i - (roc * 2 ^ 16 + last)) < 2 ^ 15 ->
  estimate_roc (Some last) roc (i mod 2 ^ 16) = i / 2 ^ 16.
Proof. exact roc_estimate. Qed.

(* without the 48-bit bound: exact modulo the 2^32 wrap of the counter (wrapping_add / wrapping_sub) *)
Theorem C04_roc_estimate_mod : forall roc last i,
  0 <= roc < 4294967296 -> 0 <= last < 65536 ->
  Z.abs (i - (roc * 65536 + last)) < 32768 ->
  estimate_roc (Some last) roc (i mod 65536) = (i / 65536) mod 4294967296.
Proof. exact roc_estimate_mod. Qed.

(* all (last, current) sequence pairs: the chosen index is within 2^15 of the receiver's index *)
Theorem C04_roc_estimate_pairs : forall roc last seq,
  1 <= roc < 2 ^ 32 - 1 -> 0 <= last < 2 ^ 16 -> 0 <= seq < 2 ^ 16 ->
  Z.abs (estimate_roc (Some last) roc seq * 2 ^ 16 + seq - (roc * 2 ^ 16 + last)) <= 2 ^ 15.
Proof. exact roc_estimate_closest. Qed.

(* distance exactly 2^15 is not guaranteed (nor is it by RFC 3711): witnesses on both sides *)
Theorem C04_roc_boundary_ahead_refuted :
  exists roc last i, 0 <= roc < 2 ^ 32 /\ 0 <= last < 2 ^ 16 /\ 0 <= i < 2 ^ 48 /\
    i - (roc * 2 ^ 16 + last) = 2 ^ 15 /\ estimate_roc (Some last) roc (i mod 2 ^ 16) <> i / 2 ^ 16.
Proof. exact roc_boundary_ahead. Qed.

Theorem C04_roc_boundary_behind_refuted :
  exists roc last i, 0 <= roc < 2 ^ 32 /\ 0 <= last < 2 ^ 16 /\ 0 <= i < 2 ^ 48 /\
    (roc * 2 ^ 16 + last) - i = 2 ^ 15 /\ estimate_roc (Some last) roc (i mod 2 ^ 16) <> i / 2 ^ 16.
Proof. exact roc_boundary_behind. Qed.

(* ---- index tracking over whole receive histories (estimate_roc + update):
   for ANY list of 48-bit indices in which each element is within 2^15 of the highest one before it
   (loss, gaps, reordering, duplicates, any number of 2^16 wraps), starting from a fresh context,
   every packet is accepted with the true rollover count, the receiver state is the highest index
   received, and a sender fed the same sequence numbers uses the true rollover counts *)
Theorem C04_index_tracking : forall l i0,
  0 <= i0 < 2 ^ 16 -> in_window i0 l ->
  rx_decide (0, None) (map pk_of (i0 :: l)) =
    map (fun m => (true, m / 65536)) (i0 :: running_max i0 l) /\
  rx_state (0, None) (map pk_of (i0 :: l)) = repr (fold_left Z.max l i0) /\
  tx_rocs (0, None) (map (fun i => i mod 65536) (i0 :: l)) = map (fun i => i / 65536) (i0 :: l).
Proof. exact index_tracking. Qed.

(* the same from any synchronised state *)
Theorem C04_index_tracking_from : forall l hi,
  0 <= hi < 2 ^ 48 -> in_window hi l ->
  rx_decide (repr hi) (map pk_of l) = map (fun m => (true, m / 65536)) (running_max hi l) /\
  rx_state (repr hi) (map pk_of l) = repr (fold_left Z.max l hi) /\
  tx_rocs (repr hi) (map (fun i => i mod 65536) l) = map (fun i => i / 65536) l.
Proof. exact index_tracking_from. Qed.

(* ---- round trip over symbolic cryptography.  `crypto_ok c` are the algebraic facts only:
   |ks k iv n| = n, |mac k m| = 20, |seal k n a m| = |m| + 16, open k n a (seal k n a m) = Some m. *)

(* every valid packet (RtpHeader::validate: <= 15 CSRCs, extension data a multiple of 4; any payload
   incl. empty; padding 0..255), every profile, every key, every pair of contexts holding the same
   keys whose rollover estimate for the packet is the ROC the sender used: unprotect returns exactly
   the packet and advances the receiver like the sender *)
Theorem C04_rtp_roundtrip : forall c st st' p roc,
  crypto_ok c -> valid_rtp p -> same_keys st st' ->
  est_rl (ctx_rl st) (h_seq (r_hdr p)) = roc ->
  unprotect c st (spkt_of c st' p roc) = (Ok p, update st (h_seq (r_hdr p)) roc).
Proof. exact rtp_roundtrip. Qed.

(* protect emits header || body(roc) for the ROC it estimates, and updates *)
Theorem C04_protect_shape : forall c st p,
  hdr_valid (r_hdr p) = true ->
  protect c st p =
    (Ok (protect_out c st p (est_rl (ctx_rl st) (h_seq (r_hdr p)))),
     update st (h_seq (r_hdr p)) (est_rl (ctx_rl st) (h_seq (r_hdr p)))).
Proof. exact protect_eq. Qed.

(* what SrtpPacket::parse makes of a protected datagram is the packet of C04_rtp_roundtrip *)
Theorem C04_parse_protected : forall c st p roc,
  wf_hdr (r_hdr p) -> spkt_parse (protect_out c st p roc) = Some (spkt_of c st p roc).
Proof. exact spkt_parse_protect_out. Qed.

(* RtpHeader::parse inverts RtpHeader::write_to on every well-formed header, whatever follows *)
Theorem C04_header_roundtrip : forall pad h rest,
  wf_hdr h -> parse_hdr (write_hdr pad h ++ rest) = Some (h, pad, rest).
Proof. exact parse_write. Qed.

(* |protect p| = header + payload + padding + tag_len(profile) *)
Theorem C04_protected_length : forall c st p roc,
  crypto_ok c -> valid_rtp p -> zlen (protect_out c st p roc) = protected_rtp_len st p.
Proof. exact protect_length. Qed.

(* whole histories, sender and receiver combined: a fresh sender protects a stream whose indices stay
   inside its window; a fresh receiver with the same keys is handed any list of those datagrams
   (loss, reordering, repetition, any number of wraps) whose indices stay within 2^15 of the highest
   it has accepted: every datagram decodes to exactly the packet that was protected *)
Theorem C04_history_roundtrip : forall c tx0 rx0 i0 p0 sent j0 q0 recv,
  crypto_ok c -> same_keys rx0 tx0 -> ctx_rl tx0 = (0, None) -> ctx_rl rx0 = (0, None) ->
  stream_ok ((i0, p0) :: sent) -> 0 <= i0 < 2 ^ 16 -> in_window i0 (map fst sent) ->
  stream_ok ((j0, q0) :: recv) -> 0 <= j0 < 2 ^ 16 -> in_window j0 (map fst recv) ->
  fst (tx_run c tx0 (map snd ((i0, p0) :: sent))) =
    map (fun ip => Ok (protect_out c tx0 (snd ip) (fst ip / 65536))) ((i0, p0) :: sent) /\
  fst (rx_run c rx0 (map (fun ip => spkt_of c tx0 (snd ip) (fst ip / 65536)) ((j0, q0) :: recv))) =
    map (fun ip => Ok (snd ip)) ((j0, q0) :: recv).
Proof. exact history_roundtrip. Qed.

(* SRTCP: E bit set, 31-bit index = previous + 1 (strictly increasing per context), first 8 bytes
   clear, length = plain + 4 + rtcp_tag_len, and unprotect_rtcp returns the packet *)
Theorem C04_rtcp_roundtrip : forall c tx rx pkt,
  crypto_ok c -> same_keys rx tx -> 8 <= zlen pkt ->
  0 <= c_rtcp_index tx -> c_rtcp_index tx + 1 < 2 ^ 31 ->
  exists out,
    protect_rtcp c tx pkt = (Ok out, set_rtcp_index tx (c_rtcp_index tx + 1)) /\
    zlen out = zlen pkt + 4 + rtcp_tag_len (c_prof tx) /\
    firstn 8 out = firstn 8 pkt /\
    unprotect_rtcp c rx out = (Ok pkt, bump_rtcp_index rx (c_rtcp_index tx + 1)).
Proof. exact rtcp_roundtrip. Qed.

(* ---- per-SSRC independence in SrtpSession (no eviction pressure: at most 32 contexts once the
   operation's own SSRC is in the table; `slots` counts it) *)
Theorem C04_ssrc_frame_unprotect : forall c s now sp b,
  slots (h_ssrc (sp_hdr sp)) (s_rx s) <= SSRC_CONTEXT_HIGH_WATERMARK -> b <> h_ssrc (sp_hdr sp) ->
  lookup b (s_rx (snd (sess_unprotect_rtp c s now sp))) = lookup b (s_rx s) /\
  s_tx (snd (sess_unprotect_rtp c s now sp)) = s_tx s.
Proof. exact frame_unprotect_rtp. Qed.

Theorem C04_ssrc_frame_protect : forall c s now p b,
  zlen (s_tx s) <= SSRC_CONTEXT_HIGH_WATERMARK -> b <> h_ssrc (r_hdr p) ->
  lookup b (s_tx (snd (sess_protect_rtp c s now p))) = lookup b (s_tx s) /\
  s_rx (snd (sess_protect_rtp c s now p)) = s_rx s.
Proof. exact frame_protect_rtp. Qed.

Theorem C04_ssrc_frame_unprotect_rtcp : forall c s now pkt b,
  slots (rtcp_ssrc pkt) (s_rx s) <= SSRC_CONTEXT_HIGH_WATERMARK -> b <> rtcp_ssrc pkt ->
  lookup b (s_rx (snd (sess_unprotect_rtcp c s now pkt))) = lookup b (s_rx s) /\
  s_tx (snd (sess_unprotect_rtcp c s now pkt)) = s_tx s.
Proof. exact frame_unprotect_rtcp. Qed.

Theorem C04_ssrc_frame_protect_rtcp : forall c s now pkt b,
  zlen (s_tx s) <= SSRC_CONTEXT_HIGH_WATERMARK -> b <> rtcp_ssrc pkt ->
  lookup b (s_tx (snd (sess_protect_rtcp c s now pkt))) = lookup b (s_tx s) /\
  s_rx (snd (sess_protect_rtcp c s now pkt)) = s_rx s.
Proof. exact frame_protect_rtcp. Qed.

(* on its own SSRC a session operation is the context operation on the stored (else fresh) context *)
Theorem C04_session_is_context_rx : forall c s now sp x,
  slots (h_ssrc (sp_hdr sp)) (s_rx s) <= SSRC_CONTEXT_HIGH_WATERMARK ->
  effective c (s_prof s) (s_rxk s) (h_ssrc (sp_hdr sp)) (s_rx s) = Some x ->
  fst (sess_unprotect_rtp c s now sp) = fst (unprotect c x sp) /\
  effective c (s_prof s) (s_rxk s) (h_ssrc (sp_hdr sp)) (s_rx (snd (sess_unprotect_rtp c s now sp))) =
    Some (snd (unprotect c x sp)).
Proof. exact own_unprotect_rtp. Qed.

Theorem C04_session_is_context_tx : forall c s now p x,
  zlen (s_tx s) <= SSRC_CONTEXT_HIGH_WATERMARK ->
  effective c (s_prof s) (s_txk s) (h_ssrc (r_hdr p)) (s_tx s) = Some x ->
  fst (sess_protect_rtp c s now p) = fst (protect c x p) /\
  effective c (s_prof s) (s_txk s) (h_ssrc (r_hdr p)) (s_tx (snd (sess_protect_rtp c s now p))) =
    Some (snd (protect c x p)).
Proof. exact own_protect_rtp. Qed.

(* ---- key split of setup_srtp (profile table, length tables and slicing translated from the source) *)
Theorem C04_key_split : forall code mat,
  fst (key_split true code mat) = snd (key_split false code mat) /\
  snd (key_split true code mat) = fst (key_split false code mat).
Proof. exact key_split_mirror. Qed.

Theorem C04_key_split_lengths : forall p,
  setup_key_len p = key_len p /\ setup_salt_len p = salt_len p /\ setup_slicing_as_modelled = true.
Proof. exact setup_lengths_agree. Qed.

Theorem C04_key_split_accepted : forall c ssrc role code mat,
  2 * (setup_key_len (setup_profile code) + setup_salt_len (setup_profile code)) <= zlen mat ->
  ctx_new c ssrc (setup_profile code) (fst (fst (key_split role code mat))) (snd (fst (key_split role code mat))) <> None /\
  ctx_new c ssrc (setup_profile code) (fst (snd (key_split role code mat))) (snd (snd (key_split role code mat))) <> None.
Proof. exact key_split_accepted. Qed.

(* whole histories: for EVERY list of protect / unprotect operations (SRTP and SRTCP, any SSRCs, any
   interleaving, any times) that runs without eviction pressure (`calm`: decidable, the complement
   of the listed finding F23), and every (direction, SSRC) pair: the outputs the session produced
   for that pair and the pair's context afterwards are exactly those of ONE SrtpContext run over the
   pair's sub-history -- a session is the product of independent per-SSRC contexts, so everything
   proved about a context (round trip, tracking, histories) holds per SSRC inside a session *)
Theorem C04_session_is_product : forall c l s k x,
  calm c s l -> eff c s k = Some x ->
  sub_outs k (fst (sess_run c s l)) = fst (ctx_run c x (sub_ops k l)) /\
  eff c (snd (sess_run c s l)) k = Some (snd (ctx_run c x (sub_ops k l))).
Proof. exact session_is_product. Qed.

(* ---- listed finding F23, what remains after the receive-side fix (model witness; the statements
   above assume `calm`): forged SSRC floods no longer create anything (33 rejected forgeries leave
   the session exactly as it was), but 32 further AUTHENTICATED SSRCs put 33 contexts into the table
   and a genuine context idle for 60 s is evicted with its rollover counter; the stream's next
   packet is refused (31 further SSRCs, or 59 s, lose nothing) *)
Theorem C04_eviction_refuted :
  crypto_ok toy /\
  snd w_state = [true; true; true; true] /\
  w_next 61 (snd (fst w_state)) = true /\
  snd (w_flood (snd (fst w_state)) 61 1000 33) = true /\
  fst (w_flood (snd (fst w_state)) 61 1000 33) = snd (fst w_state) /\
  w_next 61 (w_auth_flood w_tx2 (snd (fst w_state)) 61 2000 32) = false /\
  w_next 61 (w_auth_flood w_tx2 (snd (fst w_state)) 61 2000 31) = true /\
  w_next 59 (w_auth_flood w_tx2 (snd (fst w_state)) 59 2000 32) = true.
Proof. exact eviction_witness. Qed.

(* the same on the sending side: 33 further SSRCs and 60 s of silence evict a sending context; the
   stream restarts at ROC 0 and its receiver refuses it *)
Theorem C04_tx_eviction_refuted :
  let tx := fst (fst w_state) in let rx := snd (fst w_state) in
  w_tx_next 61 tx rx = true /\
  w_tx_next 61 (w_tx_flood tx 61 2000 33) rx = false /\
  w_tx_next 61 (w_tx_flood tx 61 2000 32) rx = true /\
  w_tx_next 59 (w_tx_flood tx 59 2000 33) rx = true.
Proof. exact tx_eviction_witness. Qed.
