(* C05 -- SRTP rejects forged packets and a rejection never disturbs receiver state.
   Statements only; every proof is `exact <lemma of Proofs/Srtp*.v>`. *)
From Coq Require Import ZArith List Bool.
From RV Require Import Lib.Wrap Gen.Consts Gen.SrtpArith Model.Srtp Proofs.SrtpLib Proofs.SrtpRoc Proofs.SrtpRound Proofs.SrtpHdr Proofs.SrtpReject Proofs.SrtpSession.
Import ListNotations.
Open Scope Z_scope.

(* ---- a rejection (any error, on any input) returns the context unchanged: rollover counter, last
   sequence, SRTCP index, keys *)
Theorem C05_reject_preserves_rtp : forall c st sp r st',
  unprotect c st sp = (r, st') -> is_ok r = false -> st' = st.
Proof. exact reject_preserves_rtp. Qed.

Theorem C05_reject_preserves_rtcp : forall c st pkt r st',
  unprotect_rtcp c st pkt = (r, st') -> is_ok r = false -> st' = st.
Proof. exact reject_preserves_rtcp. Qed.

(* the source places the state update after authentication in unprotect and in both branches of
   unprotect_rtcp (flags regenerated from src/srtp.rs on every run; F9 moved the GCM one) *)
Theorem C05_update_after_auth :
  rtp_update_after_auth && rtcp_hmac_update_after_auth && rtcp_gcm_update_after_auth = true.
Proof. exact update_order. Qed.

(* ---- any interleaving: take a history of SRTP and SRTCP datagrams for one context, mark any set
   of elements that were rejected (forgeries, but also genuine packets that fell out of the window)
   and drop them: the remaining datagrams produce exactly the same outputs and the same final
   state.  Hence every genuine packet accepted without the forgeries is accepted, identically, with
   them. *)
Theorem C05_shadow_receiver : forall c l st,
  dropped_rejected _ _ _ (rx_step c) st l = true ->
  run _ _ _ (rx_step c) st (kept _ l) = run_kept _ _ _ (rx_step c) st l.
Proof. exact ctx_shadow. Qed.

Theorem C05_shadow_receiver_accepted : forall c l st,
  run _ _ _ (rx_step c) st (kept _ (mark_accepted _ _ _ (rx_step c) st l)) =
  (filter is_ok (fst (run _ _ _ (rx_step c) st l)), snd (run _ _ _ (rx_step c) st l)).
Proof. exact ctx_shadow_accepted. Qed.

(* ---- SrtpSession (after the F23 fix 9085571): a rejected datagram -- known or unknown SSRC, any
   table size, any time -- leaves the WHOLE session exactly as it was: no context created, no
   last_used refreshed, nothing evicted, sending side untouched *)
Theorem C05_session_reject_preserves_rtp : forall c s now sp,
  is_ok (fst (sess_unprotect_rtp c s now sp)) = false -> snd (sess_unprotect_rtp c s now sp) = s.
Proof. exact session_reject_preserves_rtp. Qed.

Theorem C05_session_reject_preserves_rtcp : forall c s now pkt,
  is_ok (fst (sess_unprotect_rtcp c s now pkt)) = false -> snd (sess_unprotect_rtcp c s now pkt) = s.
Proof. exact session_reject_preserves_rtcp. Qed.

(* the source commits receiver state only after the operation succeeded (with_rx_context, both
   callers and both evict_stale_* compared verbatim by the translator) *)
Theorem C05_session_commit_after_auth : session_rx_commit_after_auth = true.
Proof. exact session_commit_translated. Qed.

(* C05_session_history: any history of session operations (protect / unprotect, SRTP / SRTCP, any
   SSRCs, any times, with or without table pressure): mark any set of rejected RECEIVE operations
   (forgeries on live or made-up SSRCs, out-of-window packets) and drop them -- the remaining
   operations produce exactly the same outputs and the same final session *)
Theorem C05_session_history : forall c l s,
  dropped_rejected _ _ _ (sess_rstep c) s l = true ->
  run _ _ _ (sess_rstep c) s (kept _ l) = run_kept _ _ _ (sess_rstep c) s l.
Proof. exact session_shadow. Qed.

Theorem C05_session_history_accepted : forall c l s,
  run _ _ _ (sess_rstep c) s (kept _ (mark_accepted _ _ _ (sess_rstep c) s l)) =
  (filter is_ok (fst (run _ _ _ (sess_rstep c) s l)), snd (run _ _ _ (sess_rstep c) s l)).
Proof. exact session_shadow_accepted. Qed.

(* model witness of the fixed F23 scenario: 33 forged SSRCs, all rejected, 61 s later: the session is
   unchanged and the genuine stream (ROC 1) continues; only authenticated SSRCs can still create
   pressure (C04 F23) *)
Theorem C05_forged_flood_harmless :
  crypto_ok toy /\
  snd w_state = [true; true; true; true] /\
  w_next 61 (snd (fst w_state)) = true /\
  snd (w_flood (snd (fst w_state)) 61 1000 33) = true /\
  fst (w_flood (snd (fst w_state)) 61 1000 33) = snd (fst w_state) /\
  w_next 61 (w_auth_flood w_tx2 (snd (fst w_state)) 61 2000 32) = false /\
  w_next 61 (w_auth_flood w_tx2 (snd (fst w_state)) 61 2000 31) = true /\
  w_next 59 (w_auth_flood w_tx2 (snd (fst w_state)) 59 2000 32) = true.
Proof. exact eviction_witness. Qed.

(* the tag comparison: constant_time_eq's body, its two call sites and the tag slices over the FULL
   tag_len() / rtcp_tag_len() are compared verbatim with the source by the translator; the model's
   `bytes_eqb tag (firstn tag_len (mac ..))` is that comparison *)
Theorem C05_tag_compare_as_translated : tag_compare_full_length = true.
Proof. exact tag_compare_translated. Qed.

(* ---- coverage: every byte of the datagram is authenticated *)

(* SrtpPacket::parse is injective: the header bytes the receiver re-serialises for authentication
   are the header bytes it received (no bit of the header escapes the MAC / AAD) *)
Theorem C05_parse_injective : forall raw sp,
  Forall byte raw -> spkt_parse raw = Some sp ->
  raw = write_hdr (sp_pad sp) (sp_hdr sp) ++ sp_body sp.
Proof. exact spkt_parse_datagram. Qed.

(* the HMAC input header || body || ROC determines header || body and the ROC *)
Theorem C05_mac_input_injective : forall hb ct roc hb' ct' roc',
  0 <= roc < 4294967296 -> 0 <= roc' < 4294967296 ->
  rtp_mac_input hb ct roc = rtp_mac_input hb' ct' roc' -> hb ++ ct = hb' ++ ct' /\ roc = roc'.
Proof. exact rtp_mac_input_inj. Qed.

(* acceptance under an HMAC profile means: received tag = truncated HMAC(header || body || estimated ROC) *)
Theorem C05_accept_means_tag : forall c st sp,
  is_gcm (c_prof st) = false -> is_ok (fst (unprotect c st sp)) = true ->
  let '(ct, tag) := hmac_split st sp in
  let roc := est_rl (ctx_rl st) (h_seq (sp_hdr sp)) in
  tag = rtp_tag c st (write_hdr (sp_pad sp) (sp_hdr sp)) ct roc /\
  tag_len (c_prof st) <= zlen (sp_body sp).
Proof. exact accept_hmac. Qed.

(* forgery => rejection, HMAC profiles.  Only security premise (mac_ideal): a tag that verifies
   belongs to a MAC input the key holder produced.  A datagram that differs from every genuine one
   in any bit of header, extension, payload or tag -- or a genuine one presented where the receiver
   estimates another ROC -- is rejected *)
Theorem C05_forgery_rejected_hmac : forall c st sp genuine,
  is_gcm (c_prof st) = false -> 0 <= c_roc st < 4294967296 ->
  Forall (genuine_wf c st) genuine ->
  (forall m, snd (hmac_split st sp) = firstn (Z.to_nat (tag_len (c_prof st))) (mac c (k_auth (c_rtp st)) m) ->
             m = genuine_input c st (sp, est_rl (ctx_rl st) (h_seq (sp_hdr sp))) ->
             In m (map (genuine_input c st) genuine)) ->
  (forall g, In g genuine ->
     datagram sp <> datagram (fst g) \/ est_rl (ctx_rl st) (h_seq (sp_hdr sp)) <> snd g) ->
  is_ok (fst (unprotect c st sp)) = false.
Proof. exact forgery_rejected_hmac. Qed.

(* GCM: only premise aead_ideal (whatever opens was sealed by the key holder) *)
Theorem C05_forgery_rejected_gcm : forall c st sp (sealed : list (bytes * bytes * bytes)),
  is_gcm (c_prof st) = true ->
  (forall n a b pt, open c (k_cipher (c_rtp st)) n a b = Some pt -> In (n, a, b) sealed) ->
  (forall n a b, In (n, a, b) sealed -> datagram sp <> a ++ b) ->
  is_ok (fst (unprotect c st sp)) = false.
Proof. exact forgery_rejected_gcm. Qed.

(* SRTCP: the MAC input is the whole datagram minus the tag (incl. E bit and index); GCM: AAD = first
   8 bytes || E+index word, ciphertext||tag = everything between *)
Theorem C05_forgery_rejected_rtcp_hmac : forall c st pkt (signed : list bytes),
  is_gcm (c_prof st) = false -> crypto_ok c ->
  (forall m, skipn (length pkt - Z.to_nat (rtcp_tag_len (c_prof st))) pkt = rtcp_tag c st m -> In m signed) ->
  (forall m, In m signed -> pkt <> m ++ rtcp_tag c st m) ->
  is_ok (fst (unprotect_rtcp c st pkt)) = false.
Proof. exact forgery_rejected_rtcp_hmac. Qed.

Theorem C05_forgery_rejected_rtcp_gcm : forall c st pkt (sealed : list (bytes * bytes * bytes)),
  is_gcm (c_prof st) = true ->
  (forall n a b pt, open c (k_cipher (c_rtcp st)) n a b = Some pt -> In (n, a, b) sealed) ->
  (forall n a b, In (n, a, b) sealed ->
     (firstn 8 pkt ++ be32 (of_be (skipn (length pkt - 4) pkt)), firstn (length pkt - 4 - 8) (skipn 8 pkt)) <> (a, b)) ->
  is_ok (fst (unprotect_rtcp c st pkt)) = false.
Proof. exact forgery_rejected_rtcp_gcm. Qed.

(* the receive paths never panic (model) *)
Theorem C05_no_panic_rtp : forall c st sp, fst (unprotect c st sp) <> Panic.
Proof. exact unprotect_no_panic. Qed.
Theorem C05_no_panic_rtcp : forall c st pkt, fst (unprotect_rtcp c st pkt) <> Panic.
Proof. exact unprotect_rtcp_no_panic. Qed.
