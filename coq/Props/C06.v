(* C06 -- only authenticated STUN connectivity checks can influence ICE state.
   Statements only; every proof is `exact <lemma of Proofs/IceAuthProofs.v>`.

   `on_packet` is the model of the code (handle_packet / handle_stun_request / response dispatch);
   `on_packet_guarded` is the same function with the authentication test in front -- the
   specification the property asks for, which the code does NOT meet (listed finding F18,
   class unauth_request_mutates, witnessed by C06_request_auth_refuted). *)
From Coq Require Import ZArith List Bool.
From RV Require Import Gen.IcePrio Gen.IceAgent Model.IceAuth Model.IceAuthSpec Proofs.IceAuthProofs.
Import ListNotations.
Open Scope Z_scope.
Open Scope bool_scope.

(* ---------------------------------------------------------------- responses (holds for the code) *)

(* a success / error response changes nothing unless its transaction id is pending; if it is, it
   changes nothing that is protected, removes exactly that entry and hands the verdict to the check *)
Theorem C06_response_needs_txn : forall s sk la src k, is_response k ->
  (lookup (k_tx k) (a_pending s) = None -> on_packet s sk la src k = (s, [])) /\
  (forall t, lookup (k_tx k) (a_pending s) = Some t ->
     let s' := fst (on_packet s sk la src k) in
     protected s' = protected s /\
     a_role s' = a_role s /\ a_locals s' = a_locals s /\ a_latching s' = a_latching s /\ a_rounds s' = a_rounds s /\
     lookup (k_tx k) (a_pending s') = None /\
     (forall id, id <> k_tx k -> lookup id (a_pending s') = lookup id (a_pending s)) /\
     a_done s' = a_done s ++ [(t, succ_of k && is_binding k)] /\
     snd (on_packet s sk la src k) = [ODeliver (k_tx k) (succ_of k)]).
Proof. exact response_needs_txn. Qed.

(* ... over histories: responses that are unsolicited when they arrive can be deleted from any
   history (of packets, API calls and internal check events) without changing the final state *)
Theorem C06_unsolicited_history : forall ops s, run s ops = run_skip s ops.
Proof. exact unsolicited_history. Qed.

(* every pending transaction and every result a check round can act on belongs to a check the
   agent itself launched in this history, whatever datagrams arrived *)
Theorem C06_honoured_only_launched : forall role lat locs ops,
  txns_launched ops (run (init role lat locs) ops).
Proof. exact launched_only. Qed.

(* ---------------------------------------------------------------- requests: the property FAILS on the code *)

(* F18: controlled agent in Checking that knows nobody; ONE request from an unknown address with
   USE-CANDIDATE and no credentials => new remote candidate, selected pair = stranger,
   nomination complete, Connected *)
Theorem C06_request_auth_refuted :
  exists s la src k,
    a_role s = IceRole_Controlled /\ a_state s = St_Checking /\ a_remotes s = [] /\
    a_selected s = None /\ a_nominated s = None /\
    classify k = CReq /\ k_has_username k = false /\ k_has_mi k = false /\ authenticated k = false /\
    k_use_candidate k = true /\ mutation_class s KUdp src k = true /\
    let s' := fst (on_packet s KUdp la src k) in
    a_remotes s' = [prflx src] /\
    a_selected s' = Some (mkPair f18_local (prflx src)) /\
    a_nominated s' = Some true /\ a_state s' = St_Connected.
Proof. exact request_auth_witness. Qed.

(* the same on an accepted ICE-TCP stream, where not even USE-CANDIDATE is needed *)
Theorem C06_request_auth_refuted_tcp :
  exists s la src k,
    a_role s = IceRole_Controlled /\ a_state s = St_Checking /\ a_remotes s = [] /\
    a_selected s = None /\ a_nominated s = None /\
    classify k = CReq /\ k_has_username k = false /\ k_has_mi k = false /\ authenticated k = false /\
    k_use_candidate k = false /\ mutation_class s KTcp src k = true /\
    let s' := fst (on_packet s KTcp la src k) in
    a_remotes s' = [prflx_k KTcp src] /\
    a_selected s' = Some (mkPair f18_local_tcp (prflx_k KTcp src)) /\
    a_nominated s' = Some true /\ a_state s' = St_Connected.
Proof. exact request_auth_witness_tcp. Qed.

(* what does hold: a request without valid credentials that is outside the listed class
   (known source, no latching retarget, no USE-CANDIDATE on the controlled side of a datagram
   socket, not an ICE-TCP stream of a controlled agent awaiting nomination) leaves remote
   candidates, selected pair, nomination flag and state untouched *)
Theorem C06_unauth_inert_outside_class : forall s sk la src k, classify k = CReq -> authenticated k = false ->
  mutation_class s sk src k = false ->
  protected (fst (on_packet s sk la src k)) = protected s.
Proof. exact unauth_inert_outside_class. Qed.

(* datagram sockets: everything a request does, exactly (E1 response, E2 learning, E3 latching
   retarget, E4 USE-CANDIDATE selection / nomination / Connected), and what it never touches *)
Theorem C06_unauth_effects_exact : forall s la src k, classify k = CReq ->
  let s' := fst (on_packet s KUdp la src k) in
  a_pending s' = a_pending s /\ a_done s' = a_done s /\ a_rounds s' = a_rounds s /\
  a_role s' = a_role s /\ a_locals s' = a_locals s /\ a_latching s' = a_latching s /\
  snd (on_packet s KUdp la src k) = OSend src (k_tx k) :: (if known (a_remotes s) src then [] else [ORunChecks]) /\
  a_remotes s' = remotes_after s KUdp src /\
  (if k_use_candidate k && role_guard (a_role s) then
     match find_local (a_locals s) la, find_remote (remotes_after s KUdp src) src with
     | Some l, Some r =>
         a_state s' = St_Connected /\ a_nominated s' = Some true /\
         a_selected s' = (if should_select (sel_after_latch s src) (a_nominated s) (a_role s) (mkPair l r)
                          then Some (mkPair l r) else sel_after_latch s src)
     | _, _ => a_state s' = a_state s /\ a_nominated s' = Some true /\ a_selected s' = sel_after_latch s src
     end
   else a_state s' = a_state s /\ a_nominated s' = a_nominated s /\ a_selected s' = sel_after_latch s src).
Proof. exact request_effects_exact. Qed.

(* ICE-TCP streams: E1..E3 as above; E4' any request completes nomination on a controlled agent
   that is not nominated yet, selecting the pair (passive TCP candidate, source) *)
Theorem C06_unauth_effects_exact_tcp : forall s la src k, classify k = CReq ->
  let s' := fst (on_packet s KTcp la src k) in
  a_pending s' = a_pending s /\ a_done s' = a_done s /\ a_rounds s' = a_rounds s /\
  a_role s' = a_role s /\ a_locals s' = a_locals s /\ a_latching s' = a_latching s /\
  snd (on_packet s KTcp la src k) = OSend src (k_tx k) :: (if known (a_remotes s) src then [] else [ORunChecks]) /\
  a_remotes s' = remotes_after s KTcp src /\
  (if tcp_applies s KTcp then
     a_nominated s' = Some true /\
     match find_local_tcp (a_locals s) la, find_remote (remotes_after s KTcp src) src with
     | Some l, Some r => a_state s' = St_Connected /\ a_selected s' = Some (mkPair l r)
     | _, _ => a_state s' = a_state s /\ a_selected s' = sel_after_latch s src
     end
   else a_state s' = a_state s /\ a_nominated s' = a_nominated s /\ a_selected s' = sel_after_latch s src).
Proof. exact request_effects_exact_tcp. Qed.

(* the candidate E4 pairs with always exists: the known one, else the one just learned *)
Theorem C06_remote_after_learning : forall s sk src,
  exists r, find_remote (remotes_after s sk src) src = Some r /\ c_addr r = src /\
            (known (a_remotes s) src = true -> find_remote (a_remotes s) src = Some r) /\
            (known (a_remotes s) src = false -> r = prflx_k sk src).
Proof. exact remote_after_learning. Qed.

(* the credential facts (and PRIORITY) play no part in the outcome *)
Theorem C06_auth_blind : forall s sk la src k hu uo hm mo pr,
  on_packet s sk la src (with_auth k hu uo hm mo pr) = on_packet s sk la src k.
Proof. exact auth_blind. Qed.

(* a request never touches pending transactions, check results or nominating rounds *)
Theorem C06_request_keeps_transactions : forall s sk la src k, classify k = CReq ->
  let s' := fst (on_packet s sk la src k) in
  a_pending s' = a_pending s /\ a_done s' = a_done s /\ a_rounds s' = a_rounds s.
Proof. exact request_keeps_transactions. Qed.

(* learning an unknown source is always a change of the protected state *)
Theorem C06_learning_is_mutation : forall s sk la src k, classify k = CReq -> known (a_remotes s) src = false ->
  a_remotes (fst (on_packet s sk la src k)) = a_remotes s ++ [prflx_k sk src] /\
  protected (fst (on_packet s sk la src k)) <> protected s.
Proof. exact learning_is_mutation. Qed.

(* once nominated, a request moves the selection only to a pair of strictly higher priority
   (latching aside) -- depends on the translated comparison Gen.IceAgent.upgrade_cmp *)
Theorem C06_upgrade_monotone : forall s sk la src k p p', classify k = CReq ->
  latch_applies s src = false -> is_some (a_nominated s) = true ->
  a_selected s = Some p -> a_selected (fst (on_packet s sk la src k)) = Some p' ->
  p' = p \/ pair_prio p (a_role s) < pair_prio p' (a_role s).
Proof. exact upgrade_monotone. Qed.

(* a controlling agent ignores USE-CANDIDATE *)
Theorem C06_controlling_ignores_use_candidate : forall s sk la src k, classify k = CReq ->
  a_role s = IceRole_Controlling ->
  let s' := fst (on_packet s sk la src k) in
  a_state s' = a_state s /\ a_nominated s' = a_nominated s /\ a_selected s' = sel_after_latch s src.
Proof. exact controlling_ignores_use_candidate. Qed.

(* indications, undecodable STUN and non-STUN datagrams change nothing and are not answered *)
Theorem C06_non_request_inert : forall s sk la src k,
  classify k = CInd \/ classify k = CBad \/ classify k = CData ->
  fst (on_packet s sk la src k) = s /\ sends (snd (on_packet s sk la src k)) = [].
Proof. exact non_request_inert. Qed.

(* in every history of the code, every remote candidate and the remote end of the selected pair
   has an address that was signalled, chosen through the API, or is the source of SOME request *)
Theorem C06_addresses_origin : forall role lat locs ops,
  env_ok on_packet (init role lat locs) ops ->
  let s := run (init role lat locs) ops in
  (forall c, In c (a_remotes s) -> In (c_addr c) (trusted (fun _ => true) ops)) /\
  (forall p, a_selected s = Some p -> In (c_addr (p_remote p)) (trusted (fun _ => true) ops)).
Proof. exact addresses_origin_code. Qed.

(* ---------------------------------------------------------------- the guarded variant: the specification (NOT the code) *)

(* the full property: a request without valid credentials changes nothing and gets no Binding
   success; a response acts only through a pending transaction and consumes exactly it *)
Theorem C06_guarded_sound : forall s sk la src k,
  (classify k = CReq -> authenticated k = false ->
     fst (on_packet_guarded s sk la src k) = s /\ sends (snd (on_packet_guarded s sk la src k)) = []) /\
  (is_response k ->
     protected (fst (on_packet_guarded s sk la src k)) = protected s /\
     (lookup (k_tx k) (a_pending s) = None -> on_packet_guarded s sk la src k = (s, [])) /\
     (forall t, lookup (k_tx k) (a_pending s) = Some t ->
        lookup (k_tx k) (a_pending (fst (on_packet_guarded s sk la src k))) = None /\
        (forall id, id <> k_tx k ->
           lookup id (a_pending (fst (on_packet_guarded s sk la src k))) = lookup id (a_pending s)))).
Proof. exact guarded_sound. Qed.

(* it differs from the code only on requests without valid credentials *)
Theorem C06_guarded_agrees : forall s sk la src k, (classify k = CReq -> authenticated k = true) ->
  on_packet_guarded s sk la src k = on_packet s sk la src k.
Proof. exact guarded_agrees. Qed.

(* over histories: requests without valid credentials can be deleted from any history *)
Theorem C06_guarded_history : forall ops s,
  run_guarded s ops = run_guarded s (filter (fun o => negb (unauth_req_op o)) ops).
Proof. exact guarded_history. Qed.

(* ... and remote candidates / the selected remote address come only from signalling, the API,
   or the source of an AUTHENTICATED request *)
Theorem C06_guarded_addresses_origin : forall role lat locs ops,
  env_ok on_packet_guarded (init role lat locs) ops ->
  let s := run_guarded (init role lat locs) ops in
  (forall c, In c (a_remotes s) -> In (c_addr c) (trusted authenticated ops)) /\
  (forall p, a_selected s = Some p -> In (c_addr (p_remote p)) (trusted authenticated ops)).
Proof. exact addresses_origin_guarded. Qed.

(* ---------------------------------------------------------------- shared-UDP mux socket kind *)

(* the demux (shared_udp.rs) is a filter in front of the same handler: a history seen through it
   is the history of the plain agent on the operations it lets through, so every history
   theorem above applies to `mux_kept m ops` *)
Theorem C06_mux_history : forall ops m s, snd (mux_run (m, s) ops) = run s (mux_kept m ops).
Proof. exact mux_history. Qed.

(* what it adds: a datagram from a source it has not recorded reaches (changes) the agent only if
   it is a Binding request whose USERNAME names this session's ufrag -- no password needed *)
Theorem C06_mux_stranger_needs_ufrag : forall m s sk la src k,
  mux_get m src = None ->
  snd (fst (mux_step (m, s) (Pkt sk la src k))) <> s ->
  mux_extracts k = true /\ k_ufrag k = 1 /\ classify k = CReq.
Proof. exact mux_stranger_needs_ufrag. Qed.

(* a datagram that is not a success / error response (request, indication, undecodable, non-STUN)
   never touches pending transactions, check results or rounds -- even when it carries the
   transaction id of an outstanding transaction (the agent's own check looped back) *)
Theorem C06_only_responses_touch_transactions : forall s sk la src k, ~ is_response k ->
  let s' := fst (on_packet s sk la src k) in
  a_pending s' = a_pending s /\ a_done s' = a_done s /\ a_rounds s' = a_rounds s.
Proof. exact only_responses_touch_transactions. Qed.
