(* C07 -- no bytes from the network or the signalling peer can crash, hang or bloat the stack.
   Statements only; every proof is `exact <lemma of Proofs/C07Cor.v>`.  For every decoder d modelled in
   Model/Dec_*.v (access-by-access transcriptions of the Rust code into the panic-aware monad):
     C07_d_total      : for ALL byte strings, d never panics
     C07_d_terminates : the fuelled loops (fuel = |input| + 1) never run out of fuel -- no hang
     C07_d_cost       : ticks <= a*|input| + b  and  bytes placed in fresh vectors <= a'*|input| + b'
   Hypotheses `len bs < 2^62` are Rust's own bound on slice lengths (isize::MAX), needed where the
   code adds a 16-bit length to a usize offset. *)
From Coq Require Import ZArith List Bool.
From RV Require Import Lib.Wrap Gen.Consts Gen.C07Consts Model.PanicLib Model.Dec_DtlsHs Model.Dec_Sctp Model.Dec_Media Model.Dec_Ice
  Proofs.Dec_DtlsHsProofs Proofs.Dec_SctpProofs Proofs.Dec_MediaProofs Proofs.Dec_IceProofs Proofs.C07Cor.
Import ListNotations.
Open Scope Z_scope.

(* HandshakeMessage::decode *)
Theorem C07_hs_message_total : forall bs, val (hs_decode bs) <> Panic.
Proof. exact hs_message_total. Qed.
Theorem C07_hs_message_terminates : forall bs, val (hs_decode bs) <> OutOfFuel.
Proof. exact hs_message_terminates. Qed.
Theorem C07_hs_message_cost : forall bs, ticks (hs_decode bs) <= 20 /\ allocd (hs_decode bs) <= 0.
Proof. exact hs_message_cost. Qed.

(* ClientHello::decode (guard 35, after the fix) *)
Theorem C07_client_hello_total : forall bs, val (client_hello_decode bs) <> Panic.
Proof. exact client_hello_total. Qed.
Theorem C07_client_hello_terminates : forall bs, val (client_hello_decode bs) <> OutOfFuel.
Proof. exact client_hello_terminates. Qed.
Theorem C07_client_hello_cost : forall bs, ticks (client_hello_decode bs) <= 3 * len bs + 40 /\ allocd (client_hello_decode bs) <= 2 * len bs.
Proof. exact client_hello_cost. Qed.

(* ServerHello::decode (guard 35, after the fix) *)
Theorem C07_server_hello_total : forall bs, val (server_hello_decode bs) <> Panic.
Proof. exact server_hello_total. Qed.
Theorem C07_server_hello_terminates : forall bs, val (server_hello_decode bs) <> OutOfFuel.
Proof. exact server_hello_terminates. Qed.
Theorem C07_server_hello_cost : forall bs, ticks (server_hello_decode bs) <= 3 * len bs + 40 /\ allocd (server_hello_decode bs) <= 2 * len bs.
Proof. exact server_hello_cost. Qed.

(* HelloVerifyRequest::decode *)
Theorem C07_hello_verify_total : forall bs, val (hello_verify_decode bs) <> Panic.
Proof. exact hello_verify_total. Qed.
Theorem C07_hello_verify_terminates : forall bs, val (hello_verify_decode bs) <> OutOfFuel.
Proof. exact hello_verify_terminates. Qed.
Theorem C07_hello_verify_cost : forall bs, ticks (hello_verify_decode bs) <= 2 * len bs + 10 /\ allocd (hello_verify_decode bs) <= len bs.
Proof. exact hello_verify_cost. Qed.

(* CertificateMessage::decode (24-byte Vec header per entry of >= 3 bytes) *)
Theorem C07_certificate_total : forall bs, val (cert_decode bs) <> Panic.
Proof. exact certificate_total. Qed.
Theorem C07_certificate_terminates : forall bs, val (cert_decode bs) <> OutOfFuel.
Proof. exact certificate_terminates. Qed.
Theorem C07_certificate_cost : forall bs, ticks (cert_decode bs) <= 3 * len bs + 10 /\ allocd (cert_decode bs) <= 8 * len bs.
Proof. exact certificate_cost. Qed.

(* ServerKeyExchange::decode *)
Theorem C07_server_key_exchange_total : forall bs, val (ske_decode bs) <> Panic.
Proof. exact server_key_exchange_total. Qed.
Theorem C07_server_key_exchange_terminates : forall bs, val (ske_decode bs) <> OutOfFuel.
Proof. exact server_key_exchange_terminates. Qed.
Theorem C07_server_key_exchange_cost : forall bs, ticks (ske_decode bs) <= 2 * len bs + 20 /\ allocd (ske_decode bs) <= len bs.
Proof. exact server_key_exchange_cost. Qed.

(* ClientKeyExchange::decode *)
Theorem C07_client_key_exchange_total : forall bs, val (cke_decode bs) <> Panic.
Proof. exact client_key_exchange_total. Qed.
Theorem C07_client_key_exchange_terminates : forall bs, val (cke_decode bs) <> OutOfFuel.
Proof. exact client_key_exchange_terminates. Qed.
Theorem C07_client_key_exchange_cost : forall bs, ticks (cke_decode bs) <= 2 * len bs + 10 /\ allocd (cke_decode bs) <= len bs.
Proof. exact client_key_exchange_cost. Qed.

(* Finished::decode *)
Theorem C07_finished_total : forall bs, val (finished_decode bs) <> Panic.
Proof. exact finished_total. Qed.
Theorem C07_finished_terminates : forall bs, val (finished_decode bs) <> OutOfFuel.
Proof. exact finished_terminates. Qed.
Theorem C07_finished_cost : forall bs, ticks (finished_decode bs) <= len bs + 3 /\ allocd (finished_decode bs) <= len bs.
Proof. exact finished_cost. Qed.

(* handle_client_hello extension walk (use_srtp profile list, extended_master_secret) *)
Theorem C07_client_hello_extensions_total : forall ext, len ext < 2 ^ 62 -> val (client_hello_extensions ext) <> Panic.
Proof. exact client_hello_extensions_total. Qed.
Theorem C07_client_hello_extensions_terminates : forall ext, len ext < 2 ^ 62 -> val (client_hello_extensions ext) <> OutOfFuel.
Proof. exact client_hello_extensions_terminates. Qed.
Theorem C07_client_hello_extensions_cost : forall ext, len ext < 2 ^ 62 -> ticks (client_hello_extensions ext) <= 5 * len ext + 2 /\ allocd (client_hello_extensions ext) <= 2 * len ext.
Proof. exact client_hello_extensions_cost. Qed.

(* handle_server_hello extension walk *)
Theorem C07_server_hello_extensions_total : forall ext, val (server_hello_extensions ext) <> Panic.
Proof. exact server_hello_extensions_total. Qed.
Theorem C07_server_hello_extensions_terminates : forall ext, val (server_hello_extensions ext) <> OutOfFuel.
Proof. exact server_hello_extensions_terminates. Qed.
Theorem C07_server_hello_extensions_cost : forall ext, ticks (server_hello_extensions ext) <= 3 * len ext + 2 /\ allocd (server_hello_extensions ext) <= len ext.
Proof. exact server_hello_extensions_cost. Qed.

(* sctp handle_packet: header, checksum, chunk walker (no vector is built) *)
Theorem C07_sctp_packet_total : forall ok bs, val (sctp_packet ok bs) <> Panic.
Proof. exact sctp_packet_total. Qed.
Theorem C07_sctp_packet_terminates : forall ok bs, val (sctp_packet ok bs) <> OutOfFuel.
Proof. exact sctp_packet_terminates. Qed.
Theorem C07_sctp_packet_cost : forall ok bs, ticks (sctp_packet ok bs) <= 3 * len bs + 10 /\ allocd (sctp_packet ok bs) <= 0.
Proof. exact sctp_packet_cost. Qed.

(* sctp handle_init fixed part *)
Theorem C07_sctp_init_total : forall bs, val (handle_init bs) <> Panic.
Proof. exact sctp_init_total. Qed.
Theorem C07_sctp_init_terminates : forall bs, val (handle_init bs) <> OutOfFuel.
Proof. exact sctp_init_terminates. Qed.
Theorem C07_sctp_init_cost : forall bs, ticks (handle_init bs) <= 6 /\ allocd (handle_init bs) <= 0.
Proof. exact sctp_init_cost. Qed.

(* sctp handle_init_ack: fixed part + parameter walker *)
Theorem C07_sctp_init_ack_total : forall bs, val (handle_init_ack bs) <> Panic.
Proof. exact sctp_init_ack_total. Qed.
Theorem C07_sctp_init_ack_terminates : forall bs, val (handle_init_ack bs) <> OutOfFuel.
Proof. exact sctp_init_ack_terminates. Qed.
Theorem C07_sctp_init_ack_cost : forall bs, ticks (handle_init_ack bs) <= 2 * len bs + 10 /\ allocd (handle_init_ack bs) <= 0.
Proof. exact sctp_init_ack_cost. Qed.

(* sctp handle_sack reader (gap blocks vector) *)
Theorem C07_sctp_sack_total : forall bs, val (handle_sack bs) <> Panic.
Proof. exact sctp_sack_total. Qed.
Theorem C07_sctp_sack_terminates : forall bs, val (handle_sack bs) <> OutOfFuel.
Proof. exact sctp_sack_terminates. Qed.
Theorem C07_sctp_sack_cost : forall bs, ticks (handle_sack bs) <= len bs + 10 /\ allocd (handle_sack bs) <= len bs.
Proof. exact sctp_sack_cost. Qed.

(* sctp handle_forward_tsn reader *)
Theorem C07_sctp_forward_tsn_total : forall old bs, val (handle_forward_tsn old bs) <> Panic.
Proof. exact sctp_forward_tsn_total. Qed.
Theorem C07_sctp_forward_tsn_terminates : forall old bs, val (handle_forward_tsn old bs) <> OutOfFuel.
Proof. exact sctp_forward_tsn_terminates. Qed.
Theorem C07_sctp_forward_tsn_cost : forall old bs, ticks (handle_forward_tsn old bs) <= len bs + 10 /\ allocd (handle_forward_tsn old bs) <= len bs.
Proof. exact sctp_forward_tsn_cost. Qed.

(* sctp handle_reconfig parameter walker + SSN reset reader *)
Theorem C07_sctp_reconfig_total : forall last bs, val (handle_reconfig last bs) <> Panic.
Proof. exact sctp_reconfig_total. Qed.
Theorem C07_sctp_reconfig_terminates : forall last bs, val (handle_reconfig last bs) <> OutOfFuel.
Proof. exact sctp_reconfig_terminates. Qed.
Theorem C07_sctp_reconfig_cost : forall last bs, ticks (handle_reconfig last bs) <= 4 * len bs + 1 /\ allocd (handle_reconfig last bs) <= len bs.
Proof. exact sctp_reconfig_cost. Qed.

(* sctp handle_data/process_data_payload header + handle_dcep *)
Theorem C07_sctp_data_dcep_total : forall bs, val (data_chunk_dcep bs) <> Panic.
Proof. exact sctp_data_dcep_total. Qed.
Theorem C07_sctp_data_dcep_terminates : forall bs, val (data_chunk_dcep bs) <> OutOfFuel.
Proof. exact sctp_data_dcep_terminates. Qed.
Theorem C07_sctp_data_dcep_cost : forall bs, ticks (data_chunk_dcep bs) <= 3 * len bs + 30 /\ allocd (data_chunk_dcep bs) <= 2 * len bs.
Proof. exact sctp_data_dcep_cost. Qed.

(* DataChannelOpen::unmarshal *)
Theorem C07_dcep_open_total : forall bs, val (dcep_open_unmarshal bs) <> Panic.
Proof. exact dcep_open_total. Qed.
Theorem C07_dcep_open_terminates : forall bs, val (dcep_open_unmarshal bs) <> OutOfFuel.
Proof. exact dcep_open_terminates. Qed.
Theorem C07_dcep_open_cost : forall bs, ticks (dcep_open_unmarshal bs) <= 3 * len bs + 20 /\ allocd (dcep_open_unmarshal bs) <= 2 * len bs.
Proof. exact dcep_open_cost. Qed.

(* DataChannelAck::unmarshal *)
Theorem C07_dcep_ack_total : forall bs, val (dcep_ack_unmarshal bs) <> Panic.
Proof. exact dcep_ack_total. Qed.
Theorem C07_dcep_ack_terminates : forall bs, val (dcep_ack_unmarshal bs) <> OutOfFuel.
Proof. exact dcep_ack_terminates. Qed.
Theorem C07_dcep_ack_cost : forall bs, ticks (dcep_ack_unmarshal bs) <= 2 /\ allocd (dcep_ack_unmarshal bs) <= 0.
Proof. exact dcep_ack_cost. Qed.

(* H264Depacketizer::push in any reassembly state *)
Theorem C07_h264_push_total : forall video st marker seq ts bs, len bs < 2 ^ 62 -> val (h264_push video st marker seq ts bs) <> Panic.
Proof. exact h264_push_total. Qed.
Theorem C07_h264_push_terminates : forall video st marker seq ts bs, len bs < 2 ^ 62 -> val (h264_push video st marker seq ts bs) <> OutOfFuel.
Proof. exact h264_push_terminates. Qed.
Theorem C07_h264_push_cost : forall video st marker seq ts bs, len bs < 2 ^ 62 -> ticks (h264_push video st marker seq ts bs) <= 5 * len bs + len (fua_buffer st) + 10 /\ allocd (h264_push video st marker seq ts bs) <= 256 * len bs + len (fua_buffer st) + 512.
Proof. exact h264_push_cost. Qed.

(* unwrap_rtx_packet *)
Theorem C07_rtx_unwrap_total : forall bs, val (rtx_unwrap bs) <> Panic.
Proof. exact rtx_unwrap_total. Qed.
Theorem C07_rtx_unwrap_terminates : forall bs, val (rtx_unwrap bs) <> OutOfFuel.
Proof. exact rtx_unwrap_terminates. Qed.
Theorem C07_rtx_unwrap_cost : forall bs, ticks (rtx_unwrap bs) <= 4 /\ allocd (rtx_unwrap bs) <= 0.
Proof. exact rtx_unwrap_cost. Qed.

(* UdtlTransport::recv parse (bounded by the receive buffer, not by the datagram) *)
Theorem C07_udptl_recv_total : forall maxd bs, 0 <= maxd < 2 ^ 62 -> val (udptl_recv maxd bs) <> Panic.
Proof. exact udptl_recv_total. Qed.
Theorem C07_udptl_recv_terminates : forall maxd bs, 0 <= maxd < 2 ^ 62 -> val (udptl_recv maxd bs) <> OutOfFuel.
Proof. exact udptl_recv_terminates. Qed.
Theorem C07_udptl_recv_cost : forall maxd bs, 0 <= maxd < 2 ^ 62 -> ticks (udptl_recv maxd bs) <= 7 * maxd + 21 /\ allocd (udptl_recv maxd bs) <= 18 * maxd.
Proof. exact udptl_recv_cost. Qed.

(* ice handle_packet classifier (with the is_empty guard) *)
Theorem C07_ice_classify_total : forall bs, val (classify bs) <> Panic.
Proof. exact ice_classify_total. Qed.
Theorem C07_ice_classify_terminates : forall bs, val (classify bs) <> OutOfFuel.
Proof. exact ice_classify_terminates. Qed.
Theorem C07_ice_classify_cost : forall bs, ticks (classify bs) <= 1 /\ allocd (classify bs) <= 0.
Proof. exact ice_classify_cost. Qed.

(* handle_turn_packet ChannelData framing *)
Theorem C07_turn_channel_data_total : forall bound bs, len bs < 2 ^ 62 -> val (turn_channel_data bound bs) <> Panic.
Proof. exact turn_channel_data_total. Qed.
Theorem C07_turn_channel_data_terminates : forall bound bs, len bs < 2 ^ 62 -> val (turn_channel_data bound bs) <> OutOfFuel.
Proof. exact turn_channel_data_terminates. Qed.
Theorem C07_turn_channel_data_cost : forall bound bs, len bs < 2 ^ 62 -> ticks (turn_channel_data bound bs) <= 7 /\ allocd (turn_channel_data bound bs) <= 0.
Proof. exact turn_channel_data_cost. Qed.

(* TurnClient::recv TCP frame length vs buffer (with the guard) *)
Theorem C07_turn_tcp_frame_total : forall buflen declared, 0 <= buflen /\ 0 <= declared -> val (turn_tcp_frame true buflen declared) <> Panic.
Proof. exact turn_tcp_frame_total. Qed.
Theorem C07_turn_tcp_frame_terminates : forall buflen declared, 0 <= buflen /\ 0 <= declared -> val (turn_tcp_frame true buflen declared) <> OutOfFuel.
Proof. exact turn_tcp_frame_terminates. Qed.
Theorem C07_turn_tcp_frame_cost : forall buflen declared, 0 <= buflen /\ 0 <= declared -> ticks (turn_tcp_frame true buflen declared) <= 1 /\ allocd (turn_tcp_frame true buflen declared) <= 0.
Proof. exact turn_tcp_frame_cost. Qed.

(* set_remote_description next_mid bump (saturating) *)
Theorem C07_mid_bump_total : forall mid, val (mid_bump mid) <> Panic.
Proof. exact mid_bump_total. Qed.
Theorem C07_mid_bump_terminates : forall mid, val (mid_bump mid) <> OutOfFuel.
Proof. exact mid_bump_terminates. Qed.
Theorem C07_mid_bump_cost : forall mid, ticks (mid_bump mid) <= 0 /\ allocd (mid_bump mid) <= 0.
Proof. exact mid_bump_cost. Qed.

(* IceCandidate::from_sdp token walk *)
Theorem C07_candidate_total : forall addr_ok ipok parts, len parts < 2 ^ 62 -> val (cand_parse addr_ok ipok parts) <> Panic.
Proof. exact candidate_total. Qed.
Theorem C07_candidate_terminates : forall addr_ok ipok parts, len parts < 2 ^ 62 -> val (cand_parse addr_ok ipok parts) <> OutOfFuel.
Proof. exact candidate_terminates. Qed.
Theorem C07_candidate_cost : forall addr_ok ipok parts, len parts < 2 ^ 62 -> ticks (cand_parse addr_ok ipok parts) <= 4 * len parts + 20 /\ allocd (cand_parse addr_ok ipok parts) <= 0.
Proof. exact candidate_cost. Qed.

(* the loops themselves, with the fuel spelled out: |input| + 1 iterations always suffice, because every
   iteration consumes at least one byte or exits (a zero length field stops the walk, it cannot spin) *)
Theorem C07_chunk_walk_fuel_suffices : forall bs acc, val (chunk_walk (S (length bs)) bs acc) <> OutOfFuel /\ val (chunk_walk (S (length bs)) bs acc) <> Panic.
Proof. exact chunk_walk_fuel. Qed.
Theorem C07_param_walk_fuel_suffices : forall bs ck, val (param_walk (S (length bs)) bs ck) <> OutOfFuel /\ val (param_walk (S (length bs)) bs ck) <> Panic.
Proof. exact param_walk_fuel. Qed.
Theorem C07_gap_loop_fuel_suffices : forall n bs acc, val (gap_loop (S (length bs)) n bs acc) <> OutOfFuel /\ val (gap_loop (S (length bs)) n bs acc) <> Panic.
Proof. exact gap_loop_fuel. Qed.
Theorem C07_pair_loop_fuel_suffices : forall bs acc, val (pair_loop (S (length bs)) bs acc) <> OutOfFuel /\ val (pair_loop (S (length bs)) bs acc) <> Panic.
Proof. exact pair_loop_fuel. Qed.
Theorem C07_reconfig_walk_fuel_suffices : forall bs last acc, val (reconfig_walk (S (length bs)) bs last acc) <> OutOfFuel /\ val (reconfig_walk (S (length bs)) bs last acc) <> Panic.
Proof. exact reconfig_walk_fuel. Qed.
Theorem C07_cipher_suite_loop_fuel_suffices : forall bs acc, val (cs_loop (S (length bs)) bs acc) <> OutOfFuel /\ val (cs_loop (S (length bs)) bs acc) <> Panic.
Proof. exact cipher_suite_loop_fuel. Qed.
Theorem C07_certificate_loop_fuel_suffices : forall bs acc, val (cert_loop (S (length bs)) bs acc) <> OutOfFuel /\ val (cert_loop (S (length bs)) bs acc) <> Panic.
Proof. exact certificate_loop_fuel. Qed.

(* ---- the defects found and fixed: the code as it was is refuted, the code as it is now is total ---- *)
(* F2: Client/ServerHello length guard 34 (version + random only): `get_u8` of the session_id length panics *)
Theorem C07_hello_guard34_refuted : exists bs, val (client_hello_decode_guard 34 bs) = Panic.
Proof. exact hello_guard34_refuted. Qed.
Theorem C07_client_hello_guard_total : forall bs, val (client_hello_decode_guard CH_MIN_LEN bs) <> Panic.
Proof. exact client_hello_guard_ok. Qed.
Theorem C07_server_hello_guard_total : forall bs, val (client_hello_decode_guard SH_MIN_LEN bs) <> Panic.
Proof. exact server_hello_guard_ok. Qed.
(* F3: a TURN Data indication / ChannelData message relaying zero bytes reached `packet[0]` *)
Theorem C07_relayed_empty_unguarded_refuted : val (relayed false []) = Panic.
Proof. exact classify_unguarded_panics. Qed.
Theorem C07_relayed_total : forall bs, val (relayed true bs) <> Panic.
Proof. exact ice_classify_total. Qed.
(* F4: TURN/TCP frame length above the 1500-byte receive buffer sliced out of range *)
Theorem C07_turn_tcp_unguarded_refuted : exists buflen declared, val (turn_tcp_frame false buflen declared) = Panic.
Proof. exact turn_tcp_unguarded_refuted. Qed.
Theorem C07_turn_read_buffer_frame_total : forall declared, 0 <= declared -> val (turn_tcp_frame true TURN_READ_BUF declared) <> Panic.
Proof. exact turn_read_buffer_total. Qed.
(* F5: `mid_val + 1` on a=mid:65535 *)
Theorem C07_mid_unchecked_refuted : exists mid, 0 <= mid <= 65535 /\ val (mid_bump_unchecked mid) = Panic.
Proof. exact mid_unchecked_refuted. Qed.
Theorem C07_mid_bump_in_range : forall mid x, 0 <= mid <= 65535 -> val (mid_bump mid) = Ok x -> 0 <= x <= 65535.
Proof. exact mid_bump_in_range. Qed.

(* DTLS handshake fragment reassembly (process_handshake_payload, offset-aware since 03019cb): over ANY history of
   fragments, in any order and with any declared total_length / offsets, nothing panics; the bytes placed in the
   reassembly buffer and in re-encoded complete messages are at most 2 x (fragment bytes received) + 12 per fragment
   (+ what was buffered before); and what is buffered is at most the total_length of the message in progress.  The
   peer-declared 24-bit total_length bounds the buffer from above, it is never a size that gets allocated.  A variant
   that sizes the buffer from the declared length is refuted by one 1-byte fragment. *)
Theorem C07_reassembly_total : forall fs st, reasm_wf st -> val (reasm_fold st fs) <> Panic /\ val (reasm_fold st fs) <> OutOfFuel.
Proof. exact reasm_fold_total. Qed.
Theorem C07_reassembly_alloc : forall fs st, reasm_wf st ->
  allocd (reasm_fold st fs) <= 2 * frags_bytes fs + 12 * len fs + len (r_buf st).
Proof. exact reasm_fold_alloc_bound. Qed.
Theorem C07_reassembly_buffer_bound : forall fs st st', reasm_wf st ->
  val (reasm_fold st fs) = Ok st' ->
  len (r_buf st') <= r_cap st' /\ len (r_buf st') <= 2 * frags_bytes fs + 12 * len fs + len (r_buf st).
Proof. exact reasm_fold_buffer_bound. Qed.
Theorem C07_reassembly_init_wf : reasm_wf reasm_init.
Proof. exact reasm_init_wf. Qed.
Theorem C07_reassembly_reserving_refuted :
  exists f, len (f_body f) = 1 /\ allocd (reasm_step_reserving reasm_init f) > 16000000.
Proof. exact reasm_reserving_refuted. Qed.

(* F26: `recv_message_seq += 1` after 65536 accepted handshake messages *)
Theorem C07_recv_seq_unchecked_refuted : exists s, 0 <= s < 65536 /\ val (recv_seq_bump_unchecked s) = Panic.
Proof. exact recv_seq_unchecked_refuted. Qed.
Theorem C07_recv_seq_any_number_of_messages : forall n s, 0 <= s < 65536 ->
  exists s', val (recv_seq_run recv_seq_bump n s) = Ok s' /\ 0 <= s' < 65536.
Proof. exact recv_seq_run_total. Qed.

(* the premises are satisfiable and the models really decode (not vacuous): *)
Theorem C07_chunk_walk_example :
  val (chunk_walk 20 [4; 0; 0; 5; 77; 0; 0; 0; 7; 0; 0; 4] []) = Ok [(4, 0, [77]); (7, 0, [])].
Proof. exact chunk_walk_example. Qed.
Theorem C07_walkers_stop_on_zero_length :
  val (chunk_walk 5 [4; 0; 0; 0; 9; 9; 9; 9] []) = Ok [] /\ val (param_walk 5 [0; 7; 0; 0; 9; 9; 9; 9] None) = Ok None.
Proof. exact walkers_zero_length. Qed.

