(* C08 -- generated answers are valid answers to the offer they respond to; SDP print/parse round trip.
   Statements only; every proof is `exact <lemma of Proofs/*>`. *)
From Coq Require Import ZArith List Bool String.
From RV Require Import Gen.SdpTables Model.Sdp Proofs.SdpProofs.
Import ListNotations.
Open Scope Z_scope.

(* ---------------------------------------------------------------- part 1: print / parse *)

(* parsing what the printer emitted yields the normal form of the description (transport attributes
   first, direction / mid / connection-named attributes absorbed) -- for every description whose
   attribute keys contain no ':' and whose m= lines list a format *)
Theorem C08_print_parse_normalises : forall d, wf_desc d = true -> parse (print d) = Some (normalise d).
Proof. exact parse_print. Qed.

Theorem C08_normalise_idempotent : forall d, normalise (normalise d) = normalise d.
Proof. exact normalise_idem. Qed.

(* printing is stable after one round: print (parse (print d)) = print d *)
Theorem C08_print_stable : forall d,
  wf_desc d = true -> plain d = true -> exists d', parse (print d) = Some d' /\ print d' = print d.
Proof. exact print_parse_print. Qed.

(* from the second round on the round trip is the identity *)
Theorem C08_roundtrip_after_normalise : forall d,
  wf_desc d = true -> parse (print (normalise d)) = Some (normalise d).
Proof. exact roundtrip_after_normalise. Qed.

(* the literal round trip of the property holds exactly when no section stores a transport attribute
   (ice-ufrag / ice-pwd / fingerprint / setup / candidate) behind a media attribute *)
Theorem C08_roundtrip_iff_transport_first : forall d,
  wf_desc d = true -> plain d = true -> (parse (print d) = Some d <-> ordered d).
Proof. exact roundtrip_iff_ordered. Qed.

(* every description the parser returns is in the domain of the theorems above *)
Theorem C08_parsed_in_domain : forall ls d,
  forallb line_ok ls = true -> parse ls = Some d -> wf_desc d = true /\ plain d = true.
Proof. exact parse_plain_wf. Qed.

(* listed finding F16 (attr_order_not_preserved): parse (print d) <> d *)
Theorem C08_roundtrip_refuted :
  exists d, wf_desc d = true /\ plain d = true /\ parse (print d) <> Some d /\
            parse (print d) = Some (normalise d) /\ ~ ordered d.
Proof. exact roundtrip_refuted. Qed.

(* ---------------------------------------------------------------- part 2: answers *)
From RV Require Import Model.Answer Proofs.AnswerProofs Proofs.AnswerValid.

(* One negotiation round as the answerer: set_remote_description(offer); create_answer().
   Hypotheses shared by the structural theorems (the "A case": every offered section carries its own
   non-empty mid):
     wfA            the offer's mids are non-empty and pairwise distinct
     inv_state      no two transceivers carry the same non-empty mid (true of a fresh connection with any
                    pre-added transceivers, kept by every round: theorems C08_inv_init etc.)
     compat_state   a transceiver that already carries the mid of an offered section has that section's
                    kind (re-offers do not change the kind of an m-line)
     applied        the description is processed (first offer, or it differs from the stored one) *)

(* count and order -- from any state whatsoever *)
Theorem C08_count : forall c s o a,
  s_remote s = Some o -> create_answer c s = AOk a -> List.length (a_secs a) = List.length (f_secs o).
Proof. exact answer_count. Qed.

(* kinds and mids, section by section; the mids are the offered ones (mids_kept: a BUNDLE group was
   offered -- in every compatibility mode since ca1331b -- or, outside LegacySip mode, there is a single
   section) unless the final clearing applies (no BUNDLE offered and LegacySip mode or more than one
   section -- listed finding F26) *)
Theorem C08_sections : forall c s o changed a,
  wfA (f_secs o) -> inv_state s -> compat_state s o -> applied s changed ->
  create_answer c (set_remote c s o changed) = AOk a ->
  Forall2 (fun x sec => a_kind x = o_kind sec /\
                        a_mid x = (if mids_kept c o then o_mid sec else EmptyString)) (a_secs a) (f_secs o).
Proof. exact sections_ok. Qed.

(* mid-less sections are answered with their kind from any state *)
Theorem C08_sections_midless_kind : forall c s o a,
  s_remote s = Some o -> create_answer c s = AOk a ->
  Forall2 (fun x sec => str_empty (o_mid sec) = true -> a_kind x = o_kind sec) (a_secs a) (f_secs o).
Proof. exact sections_kind_midless. Qed.

Theorem C08_mids_refuted :
  exists c o a, snd (negotiate c st_init o true) = AOk a /\ wfA (f_secs o) /\
                forall2b (fun sec x => v_sec_struct sec x) (f_secs o) (a_secs a) = false.
Proof. exact mids_refuted. Qed.

(* direction: compatible with the offered one, for every state of the sender side *)
Theorem C08_direction : forall c s o changed a,
  wfA (f_secs o) -> inv_state s -> compat_state s o -> applied s changed ->
  create_answer c (set_remote c s o changed) = AOk a ->
  Forall2 (fun x sec => dir_compat (o_dir sec) (a_dir x) = true) (a_secs a) (f_secs o).
Proof. exact direction_ok. Qed.

Theorem C08_direction_midless_refuted :
  exists a, snd (negotiate f30_cfg (fst (negotiate f30_cfg f30_state f30_offer1 true)) f30_offer2 true) = AOk a /\
            forall2b (fun sec x => v_sec_dir sec x) (f_secs f30_offer2) (a_secs a) = false.
Proof. exact direction_midless_refuted. Qed.

(* header extensions: only (id, uri) pairs offered for that section, no duplicate ids *)
Theorem C08_extmap : forall c s o changed a,
  wfA (f_secs o) -> inv_state s -> compat_state s o -> applied s changed ->
  (forall sec, In sec (f_secs o) -> nodup_z (map fst (o_ext sec)) = true) ->
  create_answer c (set_remote c s o changed) = AOk a ->
  Forall2 (fun x sec => v_sec_ext sec x = true) (a_secs a) (f_secs o).
Proof. exact extmap_ok. Qed.

Theorem C08_extmap_refuted :
  exists c o a, snd (negotiate c st_init o true) = AOk a /\
                (forall sec, In sec (f_secs o) -> nodup_z (map fst (o_ext sec)) = true) /\
                forall2b (fun sec x => v_sec_ext sec x) (f_secs o) (a_secs a) = false.
Proof. exact extmap_refuted. Qed.

(* rtcp-mux only where offered -- from any state, any offer *)
Theorem C08_rtcp_mux : forall c s o a,
  s_remote s = Some o -> create_answer c s = AOk a ->
  Forall2 (fun x y => a_mux x = true -> o_mux y = true) (a_secs a) (f_secs o).
Proof. exact answer_rtcp_mux. Qed.

Theorem C08_rtcp_mux_policy : forall c s o a,
  s_remote s = Some o -> create_answer c s = AOk a ->
  Forall (fun x => a_mux x = true -> c_mux c = true /\ c_legacy c = false /\ is_rtp_kind (a_kind x) = true) (a_secs a).
Proof. exact answer_rtcp_mux_policy. Qed.

(* BUNDLE: a group is answered only if one was offered (and then in every compatibility mode), and stays
   inside the offered group when that group covers every section (listed finding F27 otherwise) *)
Theorem C08_bundle : forall c s o changed a,
  wfA (f_secs o) -> inv_state s -> compat_state s o -> applied s changed ->
  (forall sec, In sec (f_secs o) -> In (o_mid sec) (List.concat (f_groups o))) ->
  create_answer c (set_remote c s o changed) = AOk a ->
  v_bundle o a = true /\ (a_group a <> None -> f_groups o <> []).
Proof. exact bundle_ok. Qed.

(* an offered BUNDLE group is echoed over all sections with the offered mids, in every compatibility mode
   (LegacySip included since ca1331b) *)
Theorem C08_bundle_echo : forall c s o changed a,
  wfA (f_secs o) -> inv_state s -> compat_state s o -> applied s changed ->
  f_groups o <> [] -> f_secs o <> [] ->
  create_answer c (set_remote c s o changed) = AOk a ->
  a_group a = Some (map o_mid (f_secs o)) /\ map a_mid (a_secs a) = map o_mid (f_secs o).
Proof. exact bundle_echo. Qed.

Theorem C08_bundle_refuted :
  exists c o a, snd (negotiate c st_init o true) = AOk a /\ wfA (f_secs o) /\ v_bundle o a = false.
Proof. exact bundle_refuted. Qed.

(* DTLS setup: active or passive, compatible with the value the offer uses -- at media level, at session
   level (finding F29, fixed by aa4c5b4) or both *)
Theorem C08_setup : forall c s o changed a v,
  c_mode c = MWebRtc -> applied s changed ->
  (f_sess_setup o = None \/ f_sess_setup o = Some v) ->
  (forall sec, In sec (f_secs o) -> o_setup sec = None \/ o_setup sec = Some v) ->
  In v ["active"%string; "passive"%string; "actpass"%string] ->
  (s_role s = None \/ exists r, s_role s = Some r /\ setup_ok v (role_to_setup (Some r)) = true) ->
  create_answer c (set_remote c s o changed) = AOk a ->
  Forall2 (fun x sec => v_sec_setup (f_sess_setup o) sec x = true) (a_secs a) (f_secs o).
Proof. exact setup_ok_thm. Qed.

(* the former F29 witness: session-level a=setup:active is answered setup:passive *)
Theorem C08_setup_session_level :
  exists a, snd (negotiate cfg_default st_init f29_offer true) = AOk a /\
            forall2b (fun sec x => v_sec_setup (f_sess_setup f29_offer) sec x) (f_secs f29_offer) (a_secs a) = true /\
            Forall (fun x => a_setup x = Some "passive"%string) (a_secs a).
Proof. exact setup_session_level_ok. Qed.

(* RTX associations: only pairs the offer proposed for that section *)
Theorem C08_rtx : forall c s o changed a,
  wfA (f_secs o) -> inv_state s -> compat_state s o -> applied s changed ->
  create_answer c (set_remote c s o changed) = AOk a ->
  Forall2 (fun x sec => v_sec_rtx sec x = true) (a_secs a) (f_secs o).
Proof. exact rtx_ok. Qed.

(* payload types: inside the offered ones when the locally configured types are among them, or for a
   re-negotiated audio section that shares a codec with the local list (listed finding F15 otherwise) *)
Theorem C08_codecs : forall c s o changed a,
  wfA (f_secs o) -> inv_state s -> compat_state s o -> applied s changed ->
  (forall sec, In sec (f_secs o) -> offer_abs_ok sec) ->
  (forall sec, In sec (f_secs o) -> local_in_offer c sec \/ audio_follows_offer c s sec) ->
  create_answer c (set_remote c s o changed) = AOk a ->
  Forall2 (fun x sec => v_sec_pts sec x = true) (a_secs a) (f_secs o).
Proof. exact codecs_ok. Qed.

Theorem C08_codecs_refuted :
  exists c o a, snd (negotiate c st_init o true) = AOk a /\ wfA (f_secs o) /\
                (forall sec, In sec (f_secs o) -> offer_abs_ok sec) /\
                forall2b (fun sec x => v_sec_pts sec x) (f_secs o) (a_secs a) = false.
Proof. exact codecs_refuted. Qed.

(* rejected m-lines (port 0 without a=bundle-only): answered in place -- C08_count / C08_sections do not
   depend on the port -- but with a live port (listed finding F31): the answered port is a constant of the
   mode, never the offered one *)
Theorem C08_answer_port_constant : forall c s o a,
  s_remote s = Some o -> create_answer c s = AOk a ->
  Forall (fun x => a_port x = match c_mode c with MWebRtc => Some default_port | _ => None end) (a_secs a).
Proof. exact answer_port_constant. Qed.

Theorem C08_rejected_port_refuted :
  exists c o a, snd (negotiate c st_init o true) = AOk a /\ wfA (f_secs o) /\
                List.length (a_secs a) = List.length (f_secs o) /\
                forall2b (fun sec x => v_sec_port sec x) (f_secs o) (a_secs a) = false.
Proof. exact rejected_port_refuted. Qed.

(* the state invariant: holds for a fresh connection, kept by add_transceiver and by every round *)
Theorem C08_inv_init : inv_state st_init.
Proof. exact inv_init. Qed.
Theorem C08_inv_add_transceiver : forall s k d, inv_state s -> inv_state (add_transceiver s k d).
Proof. exact inv_add_transceiver. Qed.
Theorem C08_inv_negotiate : forall c s o changed,
  wfA (f_secs o) -> inv_state s -> compat_state s o -> inv_state (fst (negotiate c s o changed)).
Proof. exact inv_negotiate. Qed.

(* first and subsequent negotiations: for a fresh connection with any pre-added transceivers and any
   sequence of offers that carry distinct non-empty mids and never change the kind of a mid, the
   hypotheses of the per-round theorems above hold at every round *)
From RV Require Import Proofs.AnswerRounds.
Theorem C08_all_rounds : forall c pre rs,
  Forall (fun r => wfA (f_secs (fst r))) rs ->
  consistent (map fst rs) ->
  Forall (fun x => let '(s', o, ch) := x in wfA (f_secs o) /\ inv_state s' /\ compat_state s' o)
         (trace c (fresh pre) rs).
Proof. exact all_rounds_fresh. Qed.

(* the hypotheses are satisfiable and the whole of valid_answer then holds *)
Theorem C08_valid_answer_example :
  exists a, snd (negotiate cfg_default (add_transceiver st_init KAudio DSendRecv) good_offer true) = AOk a /\
            valid_answer good_offer a = true.
Proof. exact valid_answer_example. Qed.

(* all structural facts of one processed round at once (kinds, mids, direction, RTX, rtcp-mux, and --
   under the stated premises -- extmap and BUNDLE), and the same for the UNCHANGED re-offer: the stack only
   replaces the stored description when a re-offer equals the stored one; sending the offer of a processed
   round again is answered with the same guarantees *)
Theorem C08_round_facts : forall c s o changed a,
  wfA (f_secs o) -> inv_state s -> compat_state s o -> applied s changed ->
  create_answer c (set_remote c s o changed) = AOk a -> round_facts c o a.
Proof. exact round_facts_applied. Qed.

Theorem C08_unchanged_round : forall c s o changed a,
  wfA (f_secs o) -> inv_state s -> compat_state s o -> applied s changed ->
  create_answer c (set_remote c (fst (negotiate c s o changed)) o false) = AOk a -> round_facts c o a.
Proof. exact round_facts_unchanged. Qed.

(* offers without a=mid (legacy SIP). midless_state: no transceiver has a mid yet (fresh connection with any
   pre-added transceivers) or every transceiver carries the empty mid (what mid-less rounds leave behind when
   no pre-added transceiver stayed unmatched). From such a state kinds, (empty) mids and directions follow
   the offer: the matching loop of set_remote_description and the matching of create_answer pick the same
   transceivers (lock-step). The excluded states -- bound transceivers mixed with spare mid-less ones -- are
   exactly the listed finding F30. *)
From RV Require Import Proofs.AnswerMidless.
Theorem C08_midless_negotiation : forall c s o changed a,
  wfB (f_secs o) -> midless_state s -> applied s changed ->
  create_answer c (set_remote c s o changed) = AOk a -> midless_facts o a.
Proof. exact midless_negotiation. Qed.

Theorem C08_midless_unchanged : forall c s o changed a,
  wfB (f_secs o) -> midless_state s -> applied s changed ->
  create_answer c (set_remote c (fst (negotiate c s o changed)) o false) = AOk a -> midless_facts o a.
Proof. exact midless_unchanged. Qed.

(* first negotiation of a fresh connection with any pre-added transceivers *)
Theorem C08_midless_first_negotiation : forall c pre o changed a,
  wfB (f_secs o) ->
  create_answer c (set_remote c (fresh pre) o changed) = AOk a -> midless_facts o a.
Proof. exact midless_first_fresh. Qed.

(* every round (first offer and re-offers) of a connection without spare transceivers *)
Theorem C08_midless_all_rounds : forall c rs s,
  all_se (s_trx s) -> Forall (fun r => wfB (f_secs (fst r))) rs ->
  Forall (fun x => let '(s', o, ch) := x in wfB (f_secs o) /\ midless_state s') (trace c s rs).
Proof. exact midless_all_rounds. Qed.
Theorem C08_midless_init : all_se (s_trx st_init).
Proof. exact all_se_init. Qed.
