(* C09 -- signaling state follows the JSEP state machine; rejected calls change nothing.
   Statements only; every proof is `exact <lemma of Proofs/SignalingProofs.v>`.

   `step m s c` is the model of one API call on a PeerConnection in transport mode m
   (Model/Signaling.v, following the order of effects of src/peer_connection.rs); `run` iterates
   it over a call list; `spec_step` is the JSEP table.  A call carries the flag `envf`: the
   environment failed the transport step reached by that call (socket bind / ICE start error);
   the theorems hold for both values (no hypothesis about the environment). *)
From Coq Require Import ZArith List Bool.
From RV Require Import Gen.Signaling.
From RV Require Import Model.Signaling.
From RV Require Import Proofs.SignalingProofs.
From RV Require Import Model.SignalingConc.
From RV Require Import Proofs.SignalingConcProofs.
Import ListNotations.
Open Scope Z_scope.

(* ------------------------------------------------------------------ conformance *)
(* For every call sequence, from every state (in particular from a fresh connection with any
   transceivers, and from any previously negotiated one), in every transport mode: after every
   call the reported signaling state is the one the JSEP machine prescribes, and every call the
   machine forbids returned an error. *)
Theorem C09_conformance : forall m s cs, conf_trace (sig s) cs (run m s cs).
Proof. exact run_conformance_from. Qed.

Theorem C09_conformance_fresh : forall m l cs, conf_trace Stable cs (run m (init l) cs).
Proof. exact conformance_from_init. Qed.

Theorem C09_step_conforms : forall m s c,
  sig (fst (step m s c)) = spec_after (sig s) (kind_of c) (snd (step m s c)) /\
  (spec_step (sig s) (kind_of c) = None -> is_err (snd (step m s c)) = true).
Proof. exact step_conforms. Qed.

(* provisional answers leave the state unchanged -- in the table ... *)
Theorem C09_spec_pranswer_unchanged : forall q q',
  (spec_step q (KSetLocal Pranswer) = Some q' -> q' = q) /\
  (spec_step q (KSetRemote Pranswer) = Some q' -> q' = q).
Proof. exact spec_pranswer_keeps_state. Qed.

(* ... and in the implementation, accepted or not, environment failure or not *)
Theorem C09_pranswer_unchanged : forall m s d e, d_ty d = Pranswer ->
  sig (fst (step m s (SetLocal d))) = sig s /\ sig (fst (step m s (SetRemote d e))) = sig s.
Proof. exact pranswer_keeps_state. Qed.

(* rollback is refused (NotImplemented) and changes nothing at all *)
Theorem C09_rollback_refused : forall m s d e, d_ty d = Rollback ->
  step m s (SetLocal d) = (s, Err ENotImplemented) /\ step m s (SetRemote d e) = (s, Err ENotImplemented).
Proof. exact rollback_refused. Qed.

(* close is absorbing: whatever is called afterwards, with or without environment failures *)
Theorem C09_close_absorbing : forall m s cs,
  Forall (fun p => sig (fst p) = Closed) (run m (fst (step m s Close)) cs).
Proof. exact close_absorbing_after_close. Qed.

Theorem C09_closed_rejects : forall m s c,
  sig s = Closed -> c <> Close -> c <> EnvDtlsStarted ->
  fst (step m s c) = s /\ is_err (snd (step m s c)) = true.
Proof. exact closed_rejects. Qed.

(* the table the code implements (regenerated from the source) is a sub-table of JSEP, and the
   only JSEP-allowed calls it refuses are the two re-offer self-loops and create_offer outside
   Stable -- all of which JSEP maps to the unchanged state *)
Theorem C09_impl_table_sub_spec : forall q k q', impl_table q k = Some q' -> spec_step q k = Some q'.
Proof. exact impl_table_sub_spec. Qed.

Theorem C09_refused_though_allowed : forall q k,
  (impl_table q k = None /\ spec_step q k <> None) <-> refused_though_allowed q k = true.
Proof. exact impl_table_vs_spec. Qed.

(* the state only moves along an edge of that table *)
Theorem C09_moves_along_table : forall m s c,
  sig (fst (step m s c)) = sig s \/ impl_table (sig s) (kind_of c) = Some (sig (fst (step m s c))).
Proof. exact step_moves_along_table. Qed.

(* ------------------------------------------------------------------ atomicity *)
(* A call that returns an error leaves the ENTIRE model state as it was -- signaling state, both
   stored descriptions, every transceiver's mid / direction / payload map / extmap, the
   transceiver list itself, the mid counter, the cached fingerprint -- whether or not the
   environment failed the call's transport step (restore-on-error guard, commit 26c1790). *)
Theorem C09_atomicity : forall m s c e,
  snd (step m s c) = Err e -> fst (step m s c) = s.
Proof. exact step_err_same. Qed.

Theorem C09_atomicity_observable : forall m s c,
  is_err (snd (step m s c)) = true ->
  obs (fst (step m s c)) = obs s /\ next_mid (fst (step m s c)) = next_mid s.
Proof. exact step_atomic. Qed.

Theorem C09_atomicity_run : forall m s cs, atomic_trace s (run m s cs).
Proof. exact run_atomic_from. Qed.

(* the two former witnesses of the finding transport_start_failure are now refused without change *)
Theorem C09_env_failure_set_remote_atomic :
  step Rtp (init [w_audio]) (SetRemote (w_desc Offer 1 1 7) true) = (init [w_audio], Err EInternal).
Proof. exact env_failure_set_remote_now_atomic. Qed.

Theorem C09_env_failure_create_offer_atomic :
  step Rtp (init [w_audio]) (CreateOffer true) = (init [w_audio], Err EInternal).
Proof. exact env_failure_create_offer_now_atomic. Qed.

(* fixed finding transport_start_failure, kept as statements about the UNGUARDED step functions
   (`*_gen false`; the generated booleans `*_restores_on_error` select what the source has now):
   without the guard set_remote_description(offer) returns Err after it has moved to
   HaveRemoteOffer, stored the description and updated the transceivers ... *)
Theorem C09_env_unguarded_set_remote_refuted :
  exists m s d e, snd (set_remote_gen false true true m s d true) = Err e /\
                  sig (fst (set_remote_gen false true true m s d true)) <> sig s /\
                  obs (fst (set_remote_gen false true true m s d true)) <> obs s.
Proof. exact env_failure_unguarded_set_remote_witness. Qed.

(* ... and create_offer returns Err after it has assigned mids and advanced the mid counter *)
Theorem C09_env_unguarded_create_offer_refuted :
  exists m s e, snd (create_offer_gen false m s true) = Err e /\
                txs (fst (create_offer_gen false m s true)) <> txs s /\
                next_mid (fst (create_offer_gen false m s true)) <> next_mid s.
Proof. exact env_failure_unguarded_create_offer_witness. Qed.

(* fixed findings, kept as statements about the step functions parametrised by the order of
   effects (the generated booleans select the order the source has now):
   F13 -- state check after the transceiver mutation in set_local_description *)
Theorem C09_F13_old_order_refuted :
  exists s d e, snd (set_local_gen false s d) = Err e /\ txs (fst (set_local_gen false s d)) <> txs s.
Proof. exact F13_old_order_witness. Qed.

(* next_mid raised before the state check in set_remote_description *)
Theorem C09_next_mid_old_order_refuted :
  exists m s d e, snd (set_remote_gen false true false m s d false) = Err e /\
                  next_mid (fst (set_remote_gen false true false m s d false)) <> next_mid s.
Proof. exact next_mid_old_order_witness. Qed.

(* fingerprint-change refusal after the re-INVITE application and the transition *)
Theorem C09_fingerprint_old_order_refuted :
  exists m s d e, snd (set_remote_gen false false true m s d false) = Err e /\
                  sig (fst (set_remote_gen false false true m s d false)) <> sig s /\
                  txs (fst (set_remote_gen false false true m s d false)) <> txs s.
Proof. exact fingerprint_old_order_witness. Qed.

(* ------------------------------------------------------------------ racing signalling calls *)
(* Model/SignalingConc.v: threads calling the API concurrently on one connection, at the
   granularity of the locks the code takes.  With the operation lock and the atomic transition
   (commit da17f4e; `signalling_calls_serialised` / `transition_atomic` are regenerated from the
   source) every interleaving -- any number of threads, any schedule, close() and the environment
   falling anywhere, also between the two steps of a call in flight -- is linearisable: the final
   state is that of the sequential run of the linearised calls, the results are the sequential
   results, at most one call is in flight. *)
Theorem C09_conc_model_applies : serialised_model_applies = true.
Proof. exact serialised_model_applies_now. Qed.

Theorem C09_conc_linearizable : forall m s0 calls sched,
  let k := cexec m sched (cstart s0 calls) in
  complete k = final m s0 (map fst (c_lin k)) /\
  map snd (c_lin k) = map snd (run m s0 (map fst (c_lin k))) /\
  mutex k.
Proof. exact conc_linearizable. Qed.

(* so conformance and atomicity hold for every interleaving *)
Theorem C09_conc_conformance : forall m s0 calls sched,
  let k := cexec m sched (cstart s0 calls) in
  conf_trace (sig s0) (map fst (c_lin k)) (run m s0 (map fst (c_lin k))) /\
  atomic_trace s0 (run m s0 (map fst (c_lin k))).
Proof. exact conc_conformance. Qed.

(* the synchronous set_local_description does not wait for a call in flight: it returns an
   error and changes nothing (API promise: "another signalling operation is in progress") *)
Theorem C09_conc_try_lock_busy : forall m i j k d,
  c_lock k = Some j -> nth_error (c_thr k) i = Some (TIdle (SetLocal d)) ->
  c_st (cstep m i k) = c_st k /\ c_lin (cstep m i k) = c_lin k /\
  nth_error (c_thr (cstep m i k)) i = Some (TDone (Err EInvalidState)).
Proof. exact conc_try_lock_busy. Qed.

(* fixed findings (replayed on the real code with two OS threads), as statements about the racy
   model -- separate read (`borrow`) and write (`send`) of the state cell, no operation lock:
   glare: set_local_description(offer) || set_remote_description(offer) both succeed, which no
   sequential order allows ... *)
Theorem C09_race_glare_refuted :
  let thr := [rthread_of (KSetLocal Offer); rthread_of (KSetRemote Offer)] in
  exists sched, snd (rexec sched (Stable, thr)) = [RDone true; RDone true] /\
    (forall order, In order [[KSetLocal Offer; KSetRemote Offer]; [KSetRemote Offer; KSetLocal Offer]] ->
                   snd (seq_results Stable order) <> [true; true]).
Proof. exact racy_glare. Qed.

(* ... and a setter racing close() re-opens the closed connection *)
Theorem C09_race_unclose_refuted :
  let thr := [rthread_of (KSetLocal Offer); rthread_of KClose] in
  exists sched, rexec sched (Stable, thr) = (HaveLocalOffer, [RDone true; RDone true]) /\
    (forall order, In order [[KSetLocal Offer; KClose]; [KClose; KSetLocal Offer]] ->
                   fst (seq_results Stable order) = Closed).
Proof. exact racy_unclose. Qed.
