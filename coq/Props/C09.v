(* C09 -- signaling state follows the JSEP state machine; rejected calls change nothing.
   Statements only; every proof is `exact <lemma of Proofs/SignalingProofs.v>`.

   `step m s c` is the model of one API call on a PeerConnection in transport mode m
   (Model/Signaling.v, following the order of effects of src/peer_connection.rs); `run` iterates
   it over a call list; `spec_step` is the JSEP table; `benign c` says the environment did not
   fail the transport step of that call (no socket-bind / ICE-start error). *)
From Coq Require Import ZArith List Bool.
From RV Require Import Gen.Signaling.
From RV Require Import Model.Signaling.
From RV Require Import Proofs.SignalingProofs.
Import ListNotations.
Open Scope Z_scope.

(* ------------------------------------------------------------------ conformance *)
(* For every call sequence, from every state (in particular from a fresh connection with any
   transceivers, and from any previously negotiated one), in every transport mode: after every
   call the reported signaling state is the one the JSEP machine prescribes, and every call the
   machine forbids returned an error. *)
Theorem C09_conformance : forall m s cs,
  Forall benign cs -> conf_trace (sig s) cs (run m s cs).
Proof. exact run_conformance_from. Qed.

Theorem C09_conformance_fresh : forall m l cs,
  Forall benign cs -> conf_trace Stable cs (run m (init l) cs).
Proof. exact conformance_from_init. Qed.

Theorem C09_step_conforms : forall m s c, benign c ->
  sig (fst (step m s c)) = spec_after (sig s) (kind_of c) (snd (step m s c)) /\
  (spec_step (sig s) (kind_of c) = None -> is_err (snd (step m s c)) = true).
Proof. exact step_conforms. Qed.

(* provisional answers leave the state unchanged -- in the table ... *)
Theorem C09_spec_pranswer_unchanged : forall q q',
  (spec_step q (KSetLocal Pranswer) = Some q' -> q' = q) /\
  (spec_step q (KSetRemote Pranswer) = Some q' -> q' = q).
Proof. exact spec_pranswer_keeps_state. Qed.

(* ... and in the implementation, accepted or not, environment failure or not *)
Theorem C09_pranswer_unchanged : forall m s d e, d_ty d = Pranswer ->
  sig (fst (step m s (SetLocal d))) = sig s /\ sig (fst (step m s (SetRemote d e))) = sig s.
Proof. exact pranswer_keeps_state. Qed.

(* rollback is refused (NotImplemented) and changes nothing at all *)
Theorem C09_rollback_refused : forall m s d e, d_ty d = Rollback ->
  step m s (SetLocal d) = (s, Err ENotImplemented) /\ step m s (SetRemote d e) = (s, Err ENotImplemented).
Proof. exact rollback_refused. Qed.

(* close is absorbing: whatever is called afterwards, with or without environment failures *)
Theorem C09_close_absorbing : forall m s cs,
  Forall (fun p => sig (fst p) = Closed) (run m (fst (step m s Close)) cs).
Proof. exact close_absorbing_after_close. Qed.

Theorem C09_closed_rejects : forall m s c,
  sig s = Closed -> c <> Close -> c <> EnvDtlsStarted ->
  fst (step m s c) = s /\ is_err (snd (step m s c)) = true.
Proof. exact closed_rejects. Qed.

(* the table the code implements (regenerated from the source) is a sub-table of JSEP, and the
   only JSEP-allowed calls it refuses are the two re-offer self-loops and create_offer outside
   Stable -- all of which JSEP maps to the unchanged state *)
Theorem C09_impl_table_sub_spec : forall q k q', impl_table q k = Some q' -> spec_step q k = Some q'.
Proof. exact impl_table_sub_spec. Qed.

Theorem C09_refused_though_allowed : forall q k,
  (impl_table q k = None /\ spec_step q k <> None) <-> refused_though_allowed q k = true.
Proof. exact impl_table_vs_spec. Qed.

(* even under environment failures the state only moves along an edge of that table *)
Theorem C09_moves_along_table : forall m s c,
  sig (fst (step m s c)) = sig s \/ impl_table (sig s) (kind_of c) = Some (sig (fst (step m s c))).
Proof. exact step_moves_along_table. Qed.

(* ------------------------------------------------------------------ atomicity *)
(* A call that returns an error leaves the ENTIRE model state as it was -- signaling state, both
   stored descriptions, every transceiver's mid / direction / payload map / extmap, the
   transceiver list itself, the mid counter, the cached fingerprint -- provided the
   environment did not fail the call's transport step. *)
Theorem C09_atomicity : forall m s c e,
  benign c -> snd (step m s c) = Err e -> fst (step m s c) = s.
Proof. exact step_err_same. Qed.

Theorem C09_atomicity_observable : forall m s c,
  benign c -> is_err (snd (step m s c)) = true ->
  obs (fst (step m s c)) = obs s /\ next_mid (fst (step m s c)) = next_mid s.
Proof. exact step_atomic. Qed.

Theorem C09_atomicity_run : forall m s cs,
  Forall benign cs -> atomic_trace s (run m s cs).
Proof. exact run_atomic_from. Qed.

(* listed finding (known_findings.d/C09.jsonl, class transport_start_failure): the hypothesis
   `benign` cannot be dropped.  When the socket bind / ICE start reached by the call fails,
   set_remote_description(offer) returns Err after it has moved to HaveRemoteOffer, stored the
   description and updated the transceivers (so conformance fails too) ... *)
Theorem C09_atomicity_env_refuted :
  exists m s c e, env_fail c = true /\ snd (step m s c) = Err e /\
                  sig (fst (step m s c)) <> sig s /\ obs (fst (step m s c)) <> obs s /\
                  sig (fst (step m s c)) <> spec_after (sig s) (kind_of c) (snd (step m s c)).
Proof. exact env_failure_set_remote_witness. Qed.

(* ... and create_offer returns Err after it has assigned mids and advanced the mid counter *)
Theorem C09_atomicity_env_create_offer_refuted :
  exists m s c e, env_fail c = true /\ snd (step m s c) = Err e /\
                  txs (fst (step m s c)) <> txs s /\ next_mid (fst (step m s c)) <> next_mid s.
Proof. exact env_failure_create_offer_witness. Qed.

(* fixed findings, kept as statements about the step functions parametrised by the order of
   effects (the generated booleans select the order the source has now):
   F13 -- state check after the transceiver mutation in set_local_description *)
Theorem C09_F13_old_order_refuted :
  exists s d e, snd (set_local_gen false s d) = Err e /\ txs (fst (set_local_gen false s d)) <> txs s.
Proof. exact F13_old_order_witness. Qed.

(* next_mid raised before the state check in set_remote_description *)
Theorem C09_next_mid_old_order_refuted :
  exists m s d e, snd (set_remote_gen true false m s d false) = Err e /\
                  next_mid (fst (set_remote_gen true false m s d false)) <> next_mid s.
Proof. exact next_mid_old_order_witness. Qed.

(* fingerprint-change refusal after the re-INVITE application and the transition *)
Theorem C09_fingerprint_old_order_refuted :
  exists m s d e, snd (set_remote_gen false true m s d false) = Err e /\
                  sig (fst (set_remote_gen false true m s d false)) <> sig s /\
                  txs (fst (set_remote_gen false true m s d false)) <> txs s.
Proof. exact fingerprint_old_order_witness. Qed.
