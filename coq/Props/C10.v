(* C10 -- any two compatibly configured endpoints connect and exchange data and media.
   Statements only; every proof is `exact <lemma of Proofs/LatticeProofs.v>`.

   Split of the property: the negotiation LOGIC (which a=setup each side writes, which DTLS role each
   side takes, which SRTP profile and which slices of the common DTLS exporter output become tx / rx
   keys, the SDES keying, BUNDLE / rtcp-mux agreement) is proved here for every point of the
   configuration lattice `Model.Lattice.lattice`; connectivity and delivery on loopback are runtime and
   are explored by harness/src/bin/c10.rs (evidence: exploration). *)
From Coq Require Import ZArith List Bool.
From RV Require Import Gen.Nego Model.Lattice Proofs.LatticeProofs.
Import ListNotations.
Open Scope Z_scope.

(* every lattice point pairs two compatible, well-formed endpoint configurations *)
Theorem C10_lattice_compatible : forall p, In p lattice ->
  compatible (offerer_cfg p) (answerer_cfg p) = true /\
  cfg_wf (offerer_cfg p) = true /\ cfg_wf (answerer_cfg p) = true /\ mix_wf (p_mode p) (p_mix p) = true.
Proof. exact lattice_compatible. Qed.

(* ... and the lattice is not vacuous: every transport mode x every media mix it can carry is present *)
Theorem C10_lattice_covers :
  forallb (fun m => forallb (mode_mix_covered m) Mix_all) TransportMode_all = true.
Proof. exact lattice_covers. Qed.

(* for EVERY lattice point that runs DTLS and every a=setup value a rustrtc offerer can emit (whatever
   its role state), exactly one side becomes DTLS client and the other DTLS server.  Finite domain: the
   lattice (bound visible: `In p lattice`), decided by vm_compute over all of it *)
Theorem C10_roles_complementary :
  forall p, In p lattice -> p_mode p = TransportMode_WebRtc ->
  forall so, In so offer_setups ->
  exists b, offerer_role_for (p_mode p) (Some so) = Some b /\
            answerer_role_for (p_mode p) (Some so) = Some (negb b).
Proof. exact roles_complementary. Qed.

(* the same for ANY a=setup string an offer may carry (active / passive / actpass / holdconn / other) *)
Theorem C10_roles_complementary_any_offer_setup :
  forall so, exists b, offerer_role_for TransportMode_WebRtc (Some so) = Some b /\
                       answerer_role_for TransportMode_WebRtc (Some so) = Some (negb b).
Proof. exact roles_complementary_any_offer_setup. Qed.

(* where set_remote_description takes the a=setup value from (translated lookup order): the first
   media-level value; the session-level one only if no media section carries any.  A description rustrtc
   generated is read back as the value it emitted, and an offer with a session-level a=setup only (any
   value) still gives complementary roles *)
Theorem C10_setup_source : forall s media session,
  first_setup (s :: media) session = Some s /\ first_setup [] session = session.
Proof. exact setup_source. Qed.

Theorem C10_described_setup_read_back : forall so n, 0 < n ->
  first_setup (fst (described_setups so n)) (snd (described_setups so n)) = so.
Proof. exact described_setup_read_back. Qed.

Theorem C10_roles_complementary_session_level : forall so n, 0 < n ->
  let ra := derive_role_desc TransportMode_WebRtc None [] (Some so) in
  let d := described_setups (emitted_setup TransportMode_WebRtc Sdp_Answer ra) n in
  let ro := derive_role_desc TransportMode_WebRtc None (fst d) (snd d) in
  exists b, ro = Some b /\ ra = Some (negb b).
Proof. exact roles_complementary_session_level. Qed.

(* the outcome of one offer/answer round on every lattice point: complementary roles where DTLS runs,
   no DTLS attributes and no DTLS profile where it does not *)
Theorem C10_negotiate_roles : forall p, In p lattice ->
  (p_mode p = TransportMode_WebRtc ->
     exists b, o_role_off (negotiate p) = Some b /\ o_role_ans (negotiate p) = Some (negb b)) /\
  (p_mode p <> TransportMode_WebRtc ->
     o_offer_setup (negotiate p) = None /\ o_answer_setup (negotiate p) = None /\ o_profile (negotiate p) = None).
Proof. exact negotiate_roles. Qed.

(* the answerer always answers with a value answerers emit, never with actpass *)
Theorem C10_answer_setup_emittable :
  forall so, exists sa, answer_setup_for TransportMode_WebRtc (Some so) = Some sa /\ In sa answer_setups /\
                        sa <> Setup_actpass.
Proof. exact answer_setup_emittable. Qed.

(* a role, once taken, survives every later description *)
Theorem C10_role_stable : forall m r s, derive_role m (Some r) s = Some r.
Proof. exact role_stable. Qed.

(* SRTP keys from DTLS: for both role assignments, all profile codes and ALL exporter outputs, what the
   client transmits with is what the server receives with and vice versa, under the same profile *)
Theorem C10_keys_mirrored : forall code mat,
  mirrored (derive_srtp true code mat) (derive_srtp false code mat) /\
  mirrored (derive_srtp false code mat) (derive_srtp true code mat).
Proof. exact keys_mirrored. Qed.

(* RFC 5764 4.2: client key | server key | client salt | server salt tile the exporter output exactly,
   each part has the profile's length (SrtpProfile::{key_len,salt_len} of src/srtp.rs) *)
Theorem C10_keys_layout : forall code mat,
  Z.of_nat (length mat) = exporter_len code ->
  let c := derive_srtp true code mat in
  let pr := srtp_profile_of_code code in
  k_tx_key c ++ k_rx_key c ++ k_tx_salt c ++ k_rx_salt c = mat /\
  Z.of_nat (length (k_tx_key c)) = srtp_key_len pr /\ Z.of_nat (length (k_rx_key c)) = srtp_key_len pr /\
  Z.of_nat (length (k_tx_salt c)) = srtp_salt_len pr /\ Z.of_nat (length (k_rx_salt c)) = srtp_salt_len pr.
Proof. exact keys_layout. Qed.

(* unknown or absent use_srtp codes map to the same default on both sides; the negotiated code between
   two rustrtc endpoints is one both tables know *)
Theorem C10_profile_default : forall c,
  ~ In c srtp_profile_codes -> srtp_profile_of_code (Some c) = srtp_profile_default.
Proof. exact profile_default. Qed.

Theorem C10_profile_default_none : srtp_profile_of_code None = srtp_profile_default.
Proof. exact profile_default_none. Qed.

Theorem C10_profile_agree : forall code m1 m2,
  k_profile (derive_srtp true code m1) = k_profile (derive_srtp false code m2).
Proof. exact profile_agree. Qed.

Theorem C10_negotiated_profile_known :
  exists c, dtls_client_accepts (dtls_select_profile dtls_offered_profiles) = Some c /\ In c dtls_offered_profiles /\
            In c srtp_profile_codes.
Proof. exact negotiated_profile_known. Qed.

(* the translated tables agree with the registries (RFC 5764 / 7714 codes, RFC 4568 suite names, RFC 3711 /
   7714 key and salt lengths) and with RFC 4145 / 8842 (offers say actpass; `active` peer => we are server) *)
Theorem C10_tables_match_registries :
  srtp_profile_of_code (Some 1) = SrtpProfile_Aes128Sha1_80 /\
  srtp_profile_of_code (Some 2) = SrtpProfile_Aes128Sha1_32 /\
  srtp_profile_of_code (Some 7) = SrtpProfile_AeadAes128Gcm /\
  map_crypto_suite Suite_AES_CM_128_HMAC_SHA1_80 = Some SrtpProfile_Aes128Sha1_80 /\
  map_crypto_suite Suite_AES_CM_128_HMAC_SHA1_32 = Some SrtpProfile_Aes128Sha1_32 /\
  map_crypto_suite Suite_AEAD_AES_128_GCM = Some SrtpProfile_AeadAes128Gcm /\
  (forall pr, srtp_key_len pr = 16) /\
  srtp_salt_len SrtpProfile_Aes128Sha1_80 = 14 /\ srtp_salt_len SrtpProfile_Aes128Sha1_32 = 14 /\
  srtp_salt_len SrtpProfile_AeadAes128Gcm = 12 /\
  sdes_offer_suite = Suite_AES_CM_128_HMAC_SHA1_80 /\
  setup_of_role Sdp_Offer None = Setup_actpass /\
  setup_is_client Setup_active = false /\ setup_is_client Setup_passive = true.
Proof. exact tables_match_registries. Qed.

Theorem C10_profile_lens_agree : forall pr,
  dtls_key_len pr = srtp_key_len pr /\ dtls_salt_len pr = srtp_salt_len pr /\
  sdes_key_len pr = srtp_key_len pr /\ sdes_salt_len pr = srtp_salt_len pr.
Proof. exact profile_lens_agree. Qed.

(* SDES mode: each side transmits with its own a=crypto key and receives with the peer's *)
Theorem C10_sdes_keys_mirrored : forall pr ka kb,
  mirrored (derive_sdes pr ka kb) (derive_sdes pr kb ka).
Proof. exact sdes_keys_mirrored. Qed.

(* ... and it is the RFC 4568 assignment: transmit with the key of one's own a=crypto line *)
Theorem C10_sdes_tx_is_own_key : forall pr local remote,
  let c := derive_sdes pr local remote in
  k_tx_key c = slice 0 (srtp_key_len pr) local /\ k_rx_key c = slice 0 (srtp_key_len pr) remote /\
  k_tx_salt c = slice (srtp_key_len pr) (srtp_key_len pr + srtp_salt_len pr) local /\
  k_rx_salt c = slice (srtp_key_len pr) (srtp_key_len pr + srtp_salt_len pr) remote.
Proof. exact sdes_tx_is_own_key. Qed.

Theorem C10_sdes_suite_agree :
  exists pr, map_crypto_suite sdes_round_offer = Some pr /\ map_crypto_suite sdes_round_answer = Some pr.
Proof. exact sdes_suite_agree. Qed.

Theorem C10_sdes_layout : forall pr k,
  Z.of_nat (length k) = sdes_generated_len ->
  let c := derive_sdes pr k k in
  k_tx_key c ++ k_tx_salt c = firstn (Z.to_nat (srtp_key_len pr + srtp_salt_len pr)) k /\
  Z.of_nat (length (k_tx_key c)) = srtp_key_len pr /\ Z.of_nat (length (k_tx_salt c)) = srtp_salt_len pr.
Proof. exact sdes_layout. Qed.

(* an answer never adds BUNDLE or rtcp-mux that the offer did not carry (any two configurations); on the
   lattice -- where the two ends may differ in compatibility mode and rtcp-mux policy -- the answer keeps
   exactly the offer's BUNDLE decision (after fix ca1331b) and has rtcp-mux iff both ends offer it *)
Theorem C10_answer_within_offer : forall off ans x,
  (o_answer_bundle (negotiate_c off ans x) = true -> o_offer_bundle (negotiate_c off ans x) = true) /\
  (o_answer_mux (negotiate_c off ans x) = true -> o_offer_mux (negotiate_c off ans x) = true).
Proof. exact answer_within_offer. Qed.

Theorem C10_lattice_transport_agreement : forall p, In p lattice ->
  o_answer_bundle (negotiate p) = o_offer_bundle (negotiate p) /\
  o_answer_mux (negotiate p) =
    (o_offer_mux (negotiate p) && local_offers_rtcp_mux (c_rtcp_mux (answerer_cfg p)) (c_compat (answerer_cfg p)))%bool.
Proof. exact lattice_transport_agreement. Qed.

(* listed finding C10-F2 (known_findings.d/C10.jsonl, class srtp_nonbundle_sections): in SDES-SRTP mode a
   non-BUNDLE audio+video description advertises one socket per section, but the endpoint applying it
   configures a single transport -- so "both ends agree on the transports of every section" is refuted
   as stated, and holds on every other lattice point *)
Theorem C10_transport_layout_refuted :
  exists p, In p lattice /\
    advertised_transports (p_mode p) (o_offer_bundle (negotiate p)) (p_mix p) <>
    configured_transports (p_mode p) (o_offer_bundle (negotiate p)) (p_mix p).
Proof. exact transport_layout_refuted. Qed.

Theorem C10_transport_layout : forall p, In p lattice -> layout_known_class p = false ->
  let o := negotiate p in
  advertised_transports (p_mode p) (o_offer_bundle o) (p_mix p) = configured_transports (p_mode p) (o_offer_bundle o) (p_mix p) /\
  advertised_transports (p_mode p) (o_answer_bundle o) (p_mix p) = configured_transports (p_mode p) (o_answer_bundle o) (p_mix p).
Proof. exact transport_layout. Qed.
