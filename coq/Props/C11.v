(* C11 -- DTLS handshakes converge: both sides agree on keys or neither connects.
   Statements only; every proof is `exact <lemma>`.  The network of C11_agreement is Model/DtlsPair.v:
   two handshake machines; an event delivers ANY record the peer has emitted so far (any one, any
   number of times: loss, duplication, reordering, delay) or fires a retransmit tick / the deadline at
   either end.  Cryptography is the argument `C`; its premises are written out. *)
From Coq Require Import ZArith List Bool.
From RV Require Import Gen.Dtls Model.DtlsHs Model.DtlsPair Model.DtlsSym
                       Proofs.DtlsHsProofs Proofs.DtlsPairProofs Proofs.DtlsSymProofs Proofs.DtlsC11Witness.
Import ListNotations.
Open Scope Z_scope.

(* For every event history: if both ends are Connected then master secret, randoms, key block (hence
   the four record keys/IVs), SRTP profile and exporter output are identical. *)
Theorem C11_agreement :
  forall (T : Type) (C : crypto T),
  (forall a b, t_eqb C a b = true -> a = b) ->
  (forall s l d s' l' d', prf C s l d = prf C s' l' d' -> s = s') ->
  (forall s l d, prf C s l d <> zero_vd C) ->
  forall (gc gs : cfg T) (es : list hevent) (kc : keys T) (pc : option Z) (ks : keys T) (ps : option Z),
  g_role gc = Client -> g_role gs = Server ->
  let p := hrun C (hstart C gc gs) es in
  st (h_c p) = StConnected kc pc -> st (h_s p) = StConnected ks ps ->
  kc = ks /\ pc = ps /\
  (forall l, export_keying_material C (h_c p) l = export_keying_material C (h_s p) l) /\
  client_write C kc = client_write C ks /\ server_write C kc = server_write C ks.
Proof. exact @agreement. Qed.

(* never Connected on different keys *)
Theorem C11_no_split_brain :
  forall (T : Type) (C : crypto T),
  (forall a b, t_eqb C a b = true -> a = b) ->
  (forall s l d s' l' d', prf C s l d = prf C s' l' d' -> s = s') ->
  (forall s l d, prf C s l d <> zero_vd C) ->
  forall (gc gs : cfg T) (es : list hevent) (kc : keys T) (pc : option Z) (ks : keys T) (ps : option Z),
  g_role gc = Client -> g_role gs = Server ->
  let p := hrun C (hstart C gc gs) es in
  ~ (st (h_c p) = StConnected kc pc /\ st (h_s p) = StConnected ks ps /\ (kc <> ks \/ pc <> ps)).
Proof. exact @no_split_brain. Qed.

(* application data sealed by one Connected end is opened and delivered by the other *)
Theorem C11_app_data_readable :
  forall (T : Type) (C : crypto T),
  (forall a b, t_eqb C a b = true -> a = b) -> (forall a, t_eqb C a a = true) ->
  (forall s l d s' l' d', prf C s l d = prf C s' l' d' -> s = s') ->
  (forall s l d, prf C s l d <> zero_vd C) ->
  forall (gc gs : cfg T) (es : list hevent) (kc : keys T) (pc : option Z) (ks : keys T) (ps : option Z),
  g_role gc = Client -> g_role gs = Server ->
  let p := hrun C (hstart C gc gs) es in
  st (h_c p) = StConnected kc pc -> st (h_s p) = StConnected ks ps ->
  (forall n d r, send_app C (h_c p) n d = Some r ->
     handle_record C (h_s p) r = (add_log (EvApp d) (h_s p), [OUp d], RNext)) /\
  (forall n d r, send_app C (h_s p) n d = Some r ->
     handle_record C (h_c p) r = (add_log (EvApp d) (h_c p), [OUp d], RNext)).
Proof. exact @app_data_readable. Qed.

(* the premises hold in the free term algebra, and its lossless run connects on identical keys *)
Theorem C11_premises_satisfiable :
  (forall a b, t_eqb sym a b = true -> a = b) /\ (forall a, t_eqb sym a a = true) /\
  (forall s l d s' l' d', prf sym s l d = prf sym s' l' d' -> s = s') /\
  (forall s l d, prf sym s l d <> zero_vd sym) /\
  both_agree (flush sym 64 no_drop no_drop start0) = true.
Proof. exact (conj sym_eqb_sound (conj sym_eqb_refl (conj sym_prf_inj_secret (conj sym_prf_nonzero lossless_converges)))). Qed.

(* fragments of one message delivered in offset order without duplication reassemble to the message *)
Theorem C11_reassembly_in_order :
  forall (T : Type) (C : crypto T), (forall a, t_eqb C a a = true) ->
  forall (b : body T) (cuts : list Z), increasing 0 cuts -> assemble C (slices b 0 cuts) = b.
Proof. exact @reassembly_in_order. Qed.

(* Convergence (partial: the timer is an abstract tick; one round = both retransmit ticks fire, then
   everything emitted since is delivered once in order; computed on the symbolic instance).
   Every single lost datagram of the ten is repaired by ONE retransmission round -- this includes the
   ClientKeyExchange (fix c3f15a2) and the server's Finished (fix 1decd50, formerly F19). *)
Theorem C11_convergence_single_loss :
  forallb (fun i => both_agree (round sym (lose_client i))) (seq 0 4) = true /\
  forallb (fun i => both_agree (round sym (lose_server i))) (seq 0 6) = true.
Proof. exact single_loss_recovers. Qed.

(* any two of the ten datagrams lost together are repaired within two rounds *)
Theorem C11_convergence_double_loss :
  forallb (fun a => forallb (fun b => both_agree (rounds sym 2 (lose_two a b))) datagrams) datagrams = true.
Proof. exact double_loss_recovers. Qed.

(* the F19 witness as a regression: losing the server's Finished leaves (Handshaking, Connected), and one
   round now repairs it *)
Theorem C11_lost_server_finished_recovers :
  pair_codes (lose_server 5) = (1, 2) /\ both_agree (round sym (lose_server 5)) = true.
Proof. exact lost_server_finished_recovers. Qed.

(* and losing it twice (the original and the answer to the first client retransmission) by the next one *)
Theorem C11_server_finished_lost_twice_recovers :
  pair_codes (round_losing [] [5; 7]%nat (lose_sets [] [5; 7]%nat)) = (1, 2) /\
  both_agree (round sym (round_losing [] [5; 7]%nat (lose_sets [] [5; 7]%nat))) = true.
Proof. exact server_finished_lost_twice_recovers. Qed.

(* Reassembly after 03019cb (formerly finding F20): a buffer fed with legal fragments of ONE message, in
   ANY order and with ANY duplicates or cut points, only ever holds a prefix of that message: each step
   either leaves it incomplete (still a prefix) or completes it to exactly that message. *)
Theorem C11_reassembly_any_order :
  forall (T : Type) (C : crypto T), (forall a, t_eqb C a a = true) ->
  forall (b : body T) (total : Z) (c : ctx T) (f : frag T) c' ob,
  b <> BGarbled -> hfrag b total f ->
  (inc_seq c = f_seq f -> chain b 0 (inc c) (inc_len c)) ->
  reassemble C c f = (c', ob) ->
  (ob = None /\ inc_seq c' = f_seq f /\ chain b 0 (inc c') (inc_len c')) \/
  (ob = Some b /\ inc c' = [] /\ inc_len c' = 0).
Proof. exact @reassemble_honest. Qed.

(* the F20 witnesses as regressions (symbolic instance): the Certificate in three fragments in all six
   orders and with duplicated fragments never fails the client, and one retransmission of the flight lets
   it continue (it sends ClientKeyExchange, ChangeCipherSpec, Finished) *)
Theorem C11_fragments_any_order_heal : forallb frag_ok frag_orders = true.
Proof. exact fragments_any_order_heal. Qed.
