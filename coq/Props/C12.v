(* C12 -- Data channel messages keep their boundaries, channel and delivery mode.
   Statements only; every proof is `exact <lemma of Proofs/*.v>`.  Vocabulary as in Props/C01.v
   (one model of the SCTP receive path, DCEP and Open/Close events: Model/SctpRecv.v). *)
From Coq Require Import ZArith List Bool.
From RV Require Import Lib.Wrap Gen.Consts Gen.Serial Gen.Sctp Model.SctpRecv
     Proofs.SctpRecvBase Proofs.SctpRecvRefine Proofs.SctpSendSpec Proofs.SctpTheorems
     Proofs.DcepProofs Proofs.OpenCloseProofs Proofs.ReconfigProofs.
Import ListNotations.
Open Scope Z_scope.

(* Integrity on every reliable channel, ordered or unordered, any number of channels, all sizes
   (empty to multi-fragment), for every history of arrivals drawn from the sender's chunk stream
   (any order / duplication / omission) and setup chunks: what is delivered on channel c is an
   initial segment of what was submitted on c -- hence no duplicate (multiplicities are bounded by
   the submitted ones), no merge, split, fabrication or cross-channel leak (every delivered
   message is byte-identical to a submission on the same channel), in submission order. *)
Theorem C12_integrity : forall sc W t0 rc h,
  Z.of_nat (length (chunks sc W t0)) < 2147483648 ->
  wf_workload sc W ->
  Forall (genuine_input (chunks sc W t0)) h ->
  forall c,
    (exists rest, submitted W c = log_of c (snd (run (est_r (w32 (t0 - 1)) rc) h)) ++ rest) /\
    (forall m, (count_occ (list_eq_dec Z.eq_dec) (log_of c (snd (run (est_r (w32 (t0 - 1)) rc) h))) m <=
                count_occ (list_eq_dec Z.eq_dec) (submitted W c) m)%nat) /\
    (forall m, In m (log_of c (snd (run (est_r (w32 (t0 - 1)) rc) h))) ->
               exists s, In s W /\ s_sid s = c /\ s_data s = m).
Proof. exact integrity. Qed.

(* The sender side of the boundary: the fragments of a message concatenate to the message, for
   every fragment size (so boundaries survive whatever max_payload_size a channel uses). *)
Theorem C12_fragments_concat : forall fuel mps d, concat (split_frags fuel mps d) = d.
Proof. exact split_frags_concat. Qed.

(* DCEP: unmarshal (marshal o) = Ok o for labels / protocols up to 65535 bytes of valid UTF-8 *)
Theorem C12_dcep_roundtrip : forall o, wf_open o -> unmarshal_open (marshal_open o) = Some o.
Proof. exact open_roundtrip. Qed.

(* the channel-type table of send_dcep_open and its inverse in handle_dcep (both regenerated from
   the source into Gen/Sctp.v) agree on all six channel types, which are those of RFC 8832 *)
Theorem C12_type_table_inverse : forall ordered has_rex has_life,
  dcep_type_ordered (dcep_channel_type ordered has_rex has_life) = ordered /\
  dcep_type_is_rex (dcep_channel_type ordered has_rex has_life) = has_rex /\
  dcep_type_is_timed (dcep_channel_type ordered has_rex has_life) = (has_life && negb has_rex).
Proof. exact type_table_inverse. Qed.
Theorem C12_type_table_rfc8832 :
  dcep_channel_type true false false = 0 /\ dcep_channel_type true true false = 1 /\
  dcep_channel_type true false true = 2 /\ dcep_channel_type false false false = 128 /\
  dcep_channel_type false true false = 129 /\ dcep_channel_type false false true = 130.
Proof. exact type_table_rfc8832. Qed.

(* a channel opened in-band appears at the peer with the label, protocol, ordering and reliability
   parameters it was created with, announced (Open) first and acknowledged (DCEP ACK) *)
Theorem C12_inband_same_config : forall c a,
  wf_cfg c -> find_chan (ch_id c) (a_chans a) = None ->
  exists ch,
    handle_dcep a (ch_id c) (marshal_open (open_of_chan c)) =
      (mkApp3 (a_chans a ++ [ch]) (a_streams a) (a_dcep a),
       [Ev (ch_id c) EOpen; NewDc ch; TxDcep (ch_id c) [DCEP_TYPE_ACK]], true) /\
    ch_id ch = ch_id c /\ ch_label ch = ch_label c /\ ch_proto ch = ch_proto c /\
    ch_ordered ch = ch_ordered c /\ ch_rex ch = ch_rex c /\ ch_life ch = ch_life c /\
    ch_negotiated ch = false /\ ch_state ch = DataChannelState_Open.
Proof. exact inband_open_same_config. Qed.

(* Open at most once and Close at most once per channel -- for EVERY input history from every
   state with distinct channel ids: genuine or arbitrary DATA, DCEP OPEN / ACK (duplicated or not),
   duplicated setup chunks, FORWARD-TSN, close_data_channel calls, teardown, in any order. *)
Theorem C12_open_close_at_most_once : forall st h sid,
  NoDup (map ch_id (a_chans (r_app st))) ->
  (cnt is_open sid (snd (run st h)) <= 1)%nat /\ (cnt is_close sid (snd (run st h)) <= 1)%nat.
Proof. exact open_close_at_most_once. Qed.

(* a channel created in-band by the peer's DCEP OPEN announces Open before any message *)
Theorem C12_inband_open_first : forall st h sid,
  find_chan sid (a_chans (r_app st)) = None ->
  evs_of sid (snd (run st h)) = [] \/ exists r, evs_of sid (snd (run st h)) = EOpen :: r.
Proof. exact inband_open_first. Qed.

(* establishing the association announces Open (exactly one event) on a negotiated channel that is
   still Connecting; the handshake itself delivers no message (C01_safety_from_start) *)
Theorem C12_establish_opens_negotiated : forall st pre sid ch,
  NoDup (map ch_id (a_chans (r_app st))) ->
  find_chan sid (a_chans (r_app st)) = Some ch -> connecting ch -> ch_negotiated ch = true ->
  (forall x, evs_of x pre = []) ->
  evs_of sid (snd (establish st pre)) = [EOpen].
Proof. exact establish_opens_negotiated. Qed.

(* a duplicated DCEP OPEN creates no second channel: only the ACK is repeated *)
Theorem C12_dup_open_no_second_channel : forall a sid d o ch,
  unmarshal_open d = Some o -> find_chan sid (a_chans a) = Some ch ->
  (exists tl, d = DCEP_TYPE_OPEN :: tl) ->
  handle_dcep a sid d = (a, [TxDcep sid [DCEP_TYPE_ACK]], true).
Proof. exact dup_open_no_second_channel. Qed.

(* RE-CONFIG outgoing SSN reset (what the peer's close_data_channel sends).  The parameter walk of
   handle_reconfig yields, for a request encoded with its zero padding, exactly one parameter: the
   request WITHOUT the padding ... *)
Theorem C12_reconfig_walk : forall rsn rsp tsn ids,
  16 + 2 * Z.of_nat (length ids) < 65536 ->
  reconfig_params (length (encode_ssn_reset rsn rsp tsn ids)) (encode_ssn_reset rsn rsp tsn ids) =
  [(RECONFIG_PARAM_OUTGOING_SSN_RESET, reset_body rsn rsp tsn ids)].
Proof. exact walk_encoded. Qed.

(* ... so a reset request for the stream list L touches only the streams of L (frame property):
   association state, reorder queue, window, channels and their states are unchanged, only a
   RE-CONFIG response is emitted, every stream outside L keeps its ordering state (next SSN and
   pending messages), streams of L are reset (new request) or left alone (repeated request).
   Any length of L, odd or even (2-byte padding or none). *)
Theorem C12_reconfig_frame : forall st rsn rsp tsn ids,
  16 + 2 * Z.of_nat (length ids) < 65536 -> 0 <= rsn < 4294967296 ->
  Forall (fun x => 0 <= x < 65536) ids -> ids <> [] ->
  let r := step st (IReconfig (encode_ssn_reset rsn rsp tsn ids)) in
  same_but_streams st (fst r) /\ only_ctl (snd r) /\
  (forall sid, ~ In sid ids -> sm_find sid (a_streams (r_app (fst r))) = sm_find sid (a_streams (r_app st))) /\
  (forall sid, In sid ids ->
     sm_find sid (a_streams (r_app (fst r))) = sm_find sid (a_streams (r_app st)) \/
     sm_find sid (a_streams (r_app (fst r))) = None).
Proof. exact reset_frame. Qed.

(* every RE-CONFIG chunk whatsoever (any bytes) leaves everything but the stream table alone *)
Theorem C12_reconfig_any_bytes : forall st v,
  same_but_streams st (fst (handle_reconfig st v)) /\ only_ctl (snd (handle_reconfig st v)).
Proof. exact handle_reconfig_frame. Qed.

(* non-vacuity: the peer closes stream 5 (one id + 2 padding bytes); the ordered channel on stream
   0 keeps delivering in order with its SSN sequence *)
Theorem C12_reconfig_example :
  let chans := [mkChan 0 true true [] [] None None DataChannelState_Open []; mkChan 5 true true [] [] None None DataChannelState_Open []] in
  let r := run (est_r 999 chans)
               [IData (D 1000 3 0 0 53 [97]); IData (D 1001 3 5 0 53 [120]);
                IReconfig (encode_ssn_reset 0 0 1002 [5]); IData (D 1002 3 0 1 53 [98])] in
  log_of 0 (snd r) = [[97]; [98]] /\ is_next (sm_get 0 (a_streams (r_app (fst r)))) = 2 /\
  sm_find 5 (a_streams (r_app (fst r))) = None /\
  encode_ssn_reset 0 0 1002 [5] = [0; 13; 0; 18; 0; 0; 0; 0; 0; 0; 0; 0; 0; 0; 3; 234; 0; 5; 0; 0].
Proof. exact close_other_stream_keeps_stream0. Qed.

(* ---- listed finding F21: model witnesses (replayed on the implementation by harness c12) ---- *)

(* ---- former findings F27 / F11b / F28, fixed in /repo (165fa18, 412d9a4) ---- *)

(* no Message event while the association is not established, for every kind of input from the
   start of run_loop (stays_down: no step of the history establishes the association); with
   C12_establish_opens_negotiated: a negotiated channel announces Open before its first message *)
Theorem C12_no_message_before_established : forall h st,
  dormant st -> r_conn st <> SctpState_Connected -> stays_down st h ->
  forall sid, log_of sid (snd (run st h)) = [].
Proof. exact no_message_before_established. Qed.

Theorem C12_message_after_open_fixed :
  evs_of 0 (snd (run (init_r 0 f11_rc)
                     [IInitAck 5000 true; IData (D 5000 3 0 0 53 [97]); ICookieAck; IData (D 5000 3 0 0 53 [97])]))
  = [EOpen; EMsg [97]].
Proof. exact message_after_open_fixed. Qed.

Theorem C12_unordered_no_duplicate_fixed :
  log_of 0 (snd (run (init_r 0 f11u_rc)
                     [IInitAck 5000 true; IData (D 5000 7 0 0 53 [97]); IInitAck 5000 true;
                      IData (D 5000 7 0 0 53 [97]); ICookieAck; IData (D 5000 7 0 0 53 [97]); IData (D 5000 7 0 0 53 [97])]))
  = [[97]].
Proof. exact unordered_no_duplicate_fixed. Qed.

(* a DCEP OPEN longer than one DATA chunk (1300-byte label, the two fragments send_dcep_open's
   send_data_raw produces) is reassembled and creates the channel with that label; data follows *)
Theorem C12_fragmented_open_reassembled :
  let o := marshal_open (open_of_chan long_chan) in
  let f1 := firstn 1172 o in
  let f2 := skipn 1172 o in
  let r := run (est_r 4999 [])
               [IData (D 5000 6 101 0 DATA_CHANNEL_PPID_DCEP f1); IData (D 5001 5 101 0 DATA_CHANNEL_PPID_DCEP f2);
                IData (D 5002 3 101 0 53 [104; 105])] in
  Z.of_nat (length o) = 1313 /\ r_cum (fst r) = 5002 /\
  evs_of 101 (snd r) = [EOpen; EMsg [104; 105]] /\
  match a_chans (r_app (fst r)) with
  | [ch] => ch_label ch = repeat 76 1300 /\ ch_proto ch = [112] /\ ch_ordered ch = true
  | _ => False
  end.
Proof. exact fragmented_open_reassembled. Qed.

(* a malformed OPEN is dropped and its chunk consumed: the association does not stall behind it *)
Theorem C12_malformed_open_consumed :
  let st := est_r 999 [] in
  let c := D 1000 7 5 0 DATA_CHANNEL_PPID_DCEP [DCEP_TYPE_OPEN; 0; 0] in
  r_cum (fst (recv_data st c)) = 1000 /\ snd (recv_data st c) = [] /\ a_chans (r_app (fst (recv_data st c))) = [].
Proof. exact malformed_open_consumed. Qed.

(* class forward_tsn (F21): no drain of the reorder queue after FORWARD-TSN; numeric comparison
   across the TSN wrap; stream/SSN pairs ignored for streams without state *)
Theorem C12_forward_tsn_no_drain_refuted :
  let chans := [mkChan 0 true true [] [] None None DataChannelState_Open []] in
  let r := run (est_r 999 chans)
               [IData (D 1000 3 0 0 53 [97]); IData (D 1003 3 0 2 53 [99]); IFwdTsn 1002 [(0, 1)]] in
  r_cum (fst r) = 1002 /\ length (r_rq (fst r)) = 1%nat /\ log_of 0 (snd r) = [[97]] /\
  log_of 0 (snd (run (fst r) [IData (D 1004 3 0 3 53 [100])])) = [[99]; [100]].
Proof. exact forward_tsn_no_drain_witness. Qed.
Theorem C12_forward_tsn_wrap_refuted :
  let chans := [mkChan 0 true true [] [] None None DataChannelState_Open []] in
  r_cum (fst (run (est_r 4294967295 chans) [IFwdTsn 0 []])) = 4294967295 /\
  tsn_gt 0 4294967295 = true.
Proof. exact forward_tsn_wrap_witness. Qed.
Theorem C12_forward_tsn_first_message_refuted :
  let chans := [mkChan 0 true true [] [] None None DataChannelState_Open []] in
  let r := run (est_r 999 chans)
               [IFwdTsn 1000 [(0, 0)]; IData (D 1001 3 0 1 53 [98]); IData (D 1002 3 0 2 53 [99])] in
  r_cum (fst r) = 1002 /\ log_of 0 (snd r) = [] /\
  length (is_pend (sm_get 0 (a_streams (r_app (fst r))))) = 2%nat.
Proof. exact forward_tsn_first_message_witness. Qed.
