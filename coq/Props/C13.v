(* C13 -- The SCTP sender obeys packet-size, checksum, window and quiescence rules.
   Statements only; every proof is `exact <lemma of Proofs/SctpSendPacket.v or Proofs/SctpSendSm.v>`.
   Models: Model/Crc32c.v, Model/SctpSend.v (packet construction), Model/SctpSendSm.v (sender
   state machine); constants and leaf arithmetic: Gen/Consts.v, Gen/SctpSendGen.v, Gen/Serial.v. *)
From Coq Require Import ZArith List Bool.
From RV Require Import Lib.Wrap Gen.Consts Gen.Serial Gen.SctpSendGen Model.Crc32c Model.SctpSend Model.SctpSendSm
  Proofs.SctpSendPacket Proofs.SctpSendSm.
Import ListNotations.
Open Scope Z_scope.

(* ================================================================== packet size *)
(* the batcher of transmit_chunks_with_tag: if every chunk fits next to the common header, every
   packet it emits is at most MAX_SCTP_PACKET_SIZE bytes long (bytes of the encoded packet) *)
Theorem C13_size : forall sport dport tag ws,
  Forall (fun w => wchunk_size w <= MAX_SCTP_PACKET_SIZE - SCTP_COMMON_HEADER_SIZE) ws ->
  Forall (fun p => len (packet_bytes sport dport tag p) <= MAX_SCTP_PACKET_SIZE) (packets_of ws).
Proof. exact packets_of_size. Qed.

(* the size the batcher adds up is the length of the bytes create_data_chunk / send_chunk produce *)
Theorem C13_size_is_encoded_length : forall w, wchunk_size w < 2 ^ 61 -> len (encode_wchunk w) = wchunk_size w.
Proof. exact wchunk_size_encode. Qed.

(* a DATA chunk with at most DEFAULT_MAX_PAYLOAD_SIZE bytes fits (with header and padding) *)
Theorem C13_size_data_chunk : forall fr tsn d,
  len (d_data d) <= DEFAULT_MAX_PAYLOAD_SIZE ->
  wchunk_size (WData fr tsn d) <= MAX_SCTP_PACKET_SIZE - SCTP_COMMON_HEADER_SIZE.
Proof. exact wchunk_size_data. Qed.

(* send_data_raw, every message of every length on every channel with max_payload_size >= 1: the
   fragments concatenate to the message and none carries more than DEFAULT_MAX_PAYLOAD_SIZE bytes *)
Theorem C13_size_fragments : forall dc sid ppid data,
  1 <= chan_mps dc ->
  concat (map d_data (fst (send_data_raw dc sid ppid data))) = data /\
  Forall (fun d => len (d_data d) <= DEFAULT_MAX_PAYLOAD_SIZE) (fst (send_data_raw dc sid ppid data)).
Proof. exact send_data_raw_payload. Qed.

(* the batcher preserves order, loses nothing, duplicates nothing, emits no empty packet *)
Theorem C13_batch_preserves_chunks : forall (A : Type) (sz : A -> Z) chunks,
  concat (batch sz chunks) = chunks /\ Forall (fun b => b <> []) (batch sz chunks).
Proof. exact batch_preserves_chunks. Qed.

(* ================================================================== fragmentation flags *)
(* B only on the first fragment, E only on the last (a single B|E fragment for the empty message),
   1..mps bytes per fragment of a non-empty message *)
Theorem C13_fragments : forall mps fb data, 1 <= mps ->
  let r := fragment mps fb data in
  concat (map snd r) = data /\
  Forall (fun fp => len (snd fp) <= mps) r /\
  (data <> [] -> Forall (fun fp => 1 <= len (snd fp)) r) /\
  frags_ok fb true r.
Proof. exact fragment_spec. Qed.

Theorem C13_fragment_flag_bits : forall fb first last,
  Z.testbit fb 0 = false -> Z.testbit fb 1 = false ->
  Z.testbit (frag_flags fb first last) 1 = first /\ Z.testbit (frag_flags fb first last) 0 = last.
Proof. exact frag_flags_bits. Qed.

Theorem C13_fragments_same_stream : forall dc sid ppid data,
  exists ssn, Forall (fun d => d_sid d = sid /\ d_ssn d = ssn /\ d_ppid d = ppid) (fst (send_data_raw dc sid ppid data)).
Proof. exact send_data_raw_fields. Qed.

(* ================================================================== checksum and verification tag *)
(* the receiver's own check (handle_packet: crc32c(p[..8]) ++ 0000 ++ p[12..] against the
   little-endian word at 8..12) accepts every packet send_packet_with_tag builds, and the tag
   field holds the tag it was given *)
Theorem C13_checksum : forall sport dport tag p,
  Forall wf_wchunk p -> 0 <= tag < 4294967296 ->
  verify_checksum (packet_bytes sport dport tag p) = true /\ pkt_vtag (packet_bytes sport dport tag p) = tag.
Proof. exact packet_checksum_and_tag. Qed.

Theorem C13_checksum_raw : forall sport dport tag chunks,
  Forall wf_bytes chunks -> SCTP_COMMON_HEADER_SIZE <= 12 ->
  verify_checksum (build_packet sport dport tag chunks) = true.
Proof. exact verify_build_packet. Qed.

(* sctp_crc32c_append composes (the split computation of the receiver equals the one-shot CRC) *)
Theorem C13_crc_append : forall c a b, crc32c_append (crc32c_append c a) b = crc32c_append c (a ++ b).
Proof. exact crc32c_append_app. Qed.

(* ================================================================== every packet of every run *)
(* from any well-formed state, over any sequence of operations (API sends of byte strings, transmit,
   SACKs with any content, T3, probes, heartbeats, echoed heartbeats that fit a packet, inbound data):
   every packet is <= MAX_SCTP_PACKET_SIZE, passes the receiver's check, and carries the tag *)
Theorem C13_every_packet : forall c ops sport dport tag, cfg_ok c -> 0 <= tag < 4294967296 ->
  forall s, state_P chunk_ok s -> Forall op_ok ops ->
  Forall (packet_ok sport dport tag) (snd (run c s ops)).
Proof. exact run_packets_ok. Qed.

Theorem C13_initial_state_ok : forall a b c0, state_P chunk_ok (init_state a b c0).
Proof. exact init_state_ok. Qed.

(* ================================================================== consecutive TSNs *)
(* across any operation sequence the first transmissions carry next, next+1, ... (mod 2^32) in
   emission order, and next_tsn advances by exactly their number *)
Theorem C13_tsn_consecutive : forall c ops s,
  let r := run c s ops in
  let n := length (fresh_tsns (chunks_of (snd r))) in
  fresh_tsns (chunks_of (snd r)) = tsn_seq (s_next_tsn s) n /\ s_next_tsn (fst r) = tsn_adv (s_next_tsn s) n.
Proof. exact run_fresh. Qed.

Theorem C13_tsn_consecutive_closed : forall c s ops i,
  0 <= s_next_tsn s < 4294967296 ->
  (i < length (fresh_tsns (chunks_of (snd (run c s ops)))))%nat ->
  nth i (fresh_tsns (chunks_of (snd (run c s ops)))) 0 = (s_next_tsn s + Z.of_nat i) mod 2 ^ 32.
Proof. exact run_tsn_consecutive. Qed.

(* ================================================================== no retransmission after an acknowledgement *)
(* once handle_sack has processed a SACK that covers t -- t serially at or below the cumulative
   ack, or inside a gap block -- no later packet of any continuation (the transmit inside
   handle_sack, transmits, T3, fast retransmit, tail-loss probe, further SACKs) carries DATA with
   TSN t, unless t is assigned to new data again (after 2^32 further chunks) *)
Theorem C13_no_rtx_after_ack : forall c s now cum rw gaps t ops,
  acked_emptied (s_sent s) ->
  late_sack (s_sent s) cum gaps = false ->
  sack_covers cum gaps t ->
  let out := snd (run c s (OpSack now cum rw gaps :: ops)) in
  ~ In t (fresh_tsns (chunks_of out)) -> ~ In t (retx_tsns (chunks_of out)).
Proof. exact no_rtx_after_ack. Qed.

(* the invariant premise holds in every reachable state *)
Theorem C13_acked_emptied_reachable : forall c ops a b c0,
  acked_emptied (s_sent (fst (run c (init_state a b c0) ops))).
Proof. exact acked_emptied_reachable. Qed.

(* in general: a TSN without a live record in the sent queue appears in no later packet before it
   is sent as new data *)
Theorem C13_no_rtx_without_record : forall c ops s t,
  ~ rtxable (s_sent s) t ->
  ~ In t (fresh_tsns (chunks_of (snd (run c s ops)))) ->
  ~ In t (retx_tsns (chunks_of (snd (run c s ops)))).
Proof. exact run_no_rtx. Qed.

(* finding F-C13-1 (fixed by /repo commit 709abdb): with the outstanding TSNs straddling 2^32 the
   unfixed late-SACK filter dropped a fresh cumulative SACK covering an outstanding TSN ... *)
Theorem C13_wrap_unfixed_refuted :
  map r_tsn (s_sent wrap_state) = [0; 4294967294; 4294967295] /\
  late_sack_unfixed (s_sent wrap_state) 4294967294 [] = true /\
  sack_covers 4294967294 [] 4294967294 /\
  rtxable (s_sent wrap_state) 4294967294.
Proof. exact wrap_unfixed_drops_fresh_sack. Qed.
(* ... the fixed filter processes it, and T3 afterwards retransmits only what is still unacknowledged *)
Theorem C13_wrap_fixed :
  late_sack (s_sent wrap_state) 4294967294 [] = false /\
  retx_tsns (chunks_of (snd (run wrap_cfg wrap_state [OpSack 10 4294967294 1048576 []; OpT3; OpTransmit]))) = [0; 4294967295].
Proof. exact wrap_fixed_processes_sack. Qed.

(* a SACK the late filter drops is really stale: in every reachable state whose outstanding TSNs lie
   within 2^30 of the oldest one (m), a dropped SACK with its cumulative point within 2^30 of m and
   well-formed gap blocks covers none of the outstanding TSNs.  Together with C13_no_rtx_after_ack:
   every delivered SACK that covers an outstanding t is processed and ends the retransmission of t *)
Theorem C13_dropped_sack_covers_nothing : forall c ops a b c0 m kc cum gaps,
  let sent := s_sent (fst (run c (init_state a b c0) ops)) in
  0 <= m < 4294967296 ->
  (forall r, In r sent -> exists j, 0 <= j < 1073741824 /\ r_tsn r = wrap32 (m + j)) ->
  (exists r, In r sent /\ r_tsn r = m) ->
  cum = wrap32 (m + kc) -> - 1073741824 <= kc < 1073741824 ->
  Forall (fun g => 0 <= fst g <= snd g /\ snd g < 65536) gaps ->
  late_sack sent cum gaps = true ->
  forall r, In r sent -> ~ sack_covers cum gaps (r_tsn r).
Proof. exact dropped_sack_covers_nothing. Qed.

(* the sent queue stays sorted by key (the BTreeMap order the model relies on) *)
Theorem C13_sent_queue_sorted : forall c ops s, sorted (s_sent s) -> sorted (s_sent (fst (run c s ops))).
Proof. exact run_sorted. Qed.

(* ================================================================== quiescence *)
(* sent queue empty, outbound queue empty, no SACK owed: transmit, T3, the probe and the
   delayed-SACK flush emit nothing, in any number and order, and the state stays quiescent
   (only OpHeartbeat -- the heartbeat timer -- puts a packet on the wire) *)
Theorem C13_quiescent : forall c ops s, quiescent s -> Forall idle_op ops ->
  snd (run c s ops) = [] /\ quiescent (fst (run c s ops)).
Proof. exact quiescent_run. Qed.

Theorem C13_quiescent_reachable :
  let c := mkCfg 0 262144 8 131072 [mkCh 0 true 1200] in
  let s := fst (run c (init_state 100 1048576 7) [OpSend 0 53 [1; 2; 3]; OpTransmit; OpSack 5 100 1048576 []]) in
  quiescent s /\ s_next_tsn s = 101.
Proof. exact quiescent_reachable. Qed.

(* ================================================================== window *)
(* transmit: with the peer's advertised window (or cwnd) at or below the bytes in flight no new
   DATA is dequeued; otherwise the bytes in flight afterwards exceed the window (and cwnd) by less
   than one padded DATA chunk (max_chunk = MAX_SCTP_PACKET_SIZE - SCTP_COMMON_HEADER_SIZE) *)
Theorem C13_window : forall c s,
  let r := transmit_chunks c s in
  (s_rwnd s <= s_flight s \/ s_cwnd s <= s_flight s -> fresh_tsns (snd r) = [] /\ s_outq (fst r) = s_outq s) /\
  (Forall (fun d => len (d_data d) <= DEFAULT_MAX_PAYLOAD_SIZE) (s_outq s) ->
   fresh_tsns (snd r) <> [] ->
   s_flight (fst r) < s_rwnd s + max_chunk /\ s_flight (fst r) < s_cwnd s + max_chunk).
Proof. exact transmit_chunks_window. Qed.

(* a SACK advertising a zero window: the transmit inside handle_sack sends no new DATA *)
Theorem C13_zero_window : forall c s now cum gaps,
  0 <= s_flight (sack_update c s now cum 0 gaps) ->
  fresh_tsns (chunks_of (snd (handle_sack c s now cum 0 gaps))) = [].
Proof. exact handle_sack_zero_window. Qed.

(* the drain loop stops as the `budget > 0` rule says: all dequeued chunks but the last fit the budget *)
Theorem C13_drain : forall cap outq budget,
  let r := drain cap outq budget in
  outq = fst r ++ snd r /\
  (budget <= 0 -> fst r = []) /\
  (fst r <> [] -> sum_by drain_charge (removelast (fst r)) < budget).
Proof. exact drain_spec. Qed.

(* ================================================================== ties between model arithmetic and generated items *)
(* the serial comparison of the model is the generated tsn_gt; the mask arithmetic is the cast
   arithmetic of Lib/Wrap.v; the budget charge of transmit is the length create_data_chunk produces *)
Theorem C13_tie_tsn_gt : forall a b, tsn_gt a b = (i32_sub a b >? 0).
Proof. exact tsn_gt_i32_sub. Qed.
Theorem C13_tie_wrap32 : forall x, wrap32 x = cast_u32 x.
Proof. exact wrap32_cast. Qed.
Theorem C13_tie_i32_sub : forall a b, i32_sub a b = cast_i32 (cast_u32 (a - b)).
Proof. exact i32_sub_cast. Qed.
Theorem C13_tie_drain_charge : forall d, drain_charge d = data_wire_len d.
Proof. exact drain_charge_wire. Qed.
Theorem C13_tie_max_data_chunk :
  roundup4 (DATA_CHUNK_HDR + (DATA_VALUE_HDR + DEFAULT_MAX_PAYLOAD_SIZE)) <= MAX_SCTP_PACKET_SIZE - SCTP_COMMON_HEADER_SIZE.
Proof. exact max_data_chunk_fits. Qed.
