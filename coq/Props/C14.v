(* C14 -- SRTP-mandatory modes never send or accept cleartext media.
   Statements only; every proof is `exact <lemma of Proofs/GateProofs.v>`.
   Model: Model/Gate.v (RtpTransport's session slot / srtp_required gate; decision tables and the call-site
   census regenerated from /repo into Gen/SendSites.v on every run). *)
From Coq Require Import ZArith List Bool String Permutation.
From RV Require Import Gen.SendSites.
From RV Require Import Model.Gate.
From RV Require Import Proofs.GateProofs.
Import ListNotations.
Open Scope Z_scope.

(* da / db: whether the transport's / the bridge target's socket is a datagram (UDP) socket or an RFC 4571 TCP
   stream (on which the non-blocking senders emit nothing); the statements hold for both.
   required = true: for EVERY operation history from a fresh transport and every position i, whatever
   operation i writes on the transport's own socket (send, send_rtp, send_rtcp, sync BYE, close) is protected
   under the key set installed by the LAST InstallKeys before i -- in particular there is such an InstallKeys *)
Theorem C14_no_clear_out : forall da db rb ops i outs w,
  nth_error (trace (init_on da db true rb) ops) i = Some outs -> In (Wire SockA w) outs ->
  exists k p, w = Prot k Tx p /\ last_a None (firstn i ops) = Some k /\ In (InstallKeys k) (firstn i ops).
Proof. exact no_clear_out. Qed.

(* ... hence nothing at all leaves before keys exist *)
Theorem C14_silent_before_keys : forall da db rb ops i outs w,
  nth_error (trace (init_on da db true rb) ops) i = Some outs ->
  (forall k, ~ In (InstallKeys k) (firstn i ops)) -> ~ In (Wire SockA w) outs.
Proof. exact silent_before_keys. Qed.

(* the rewrite bridge: the TARGET's required flag and the TARGET's slot decide; whatever the source's mode *)
Theorem C14_no_clear_out_bridge : forall da db ra ops i outs w,
  nth_error (trace (init_on da db ra true) ops) i = Some outs -> In (Wire SockB w) outs ->
  exists k p, w = Prot k Tx p /\ last_b None (firstn i ops) = Some k /\ In (TInstallKeys k) (firstn i ops).
Proof. exact no_clear_out_bridge. Qed.

Theorem C14_bridge_silent_before_keys : forall da db ra ops i outs w,
  nth_error (trace (init_on da db ra true) ops) i = Some outs ->
  (forall k, ~ In (TInstallKeys k) (firstn i ops)) -> ~ In (Wire SockB w) outs.
Proof. exact bridge_silent_before_keys. Qed.

(* required = true: whatever is handed to a track listener, the RTCP listener, the ingress observer or the
   bridge, at any position of any history, authenticated under the key set installed by the last InstallKeys,
   and is the protected packet that this very operation received *)
Theorem C14_no_clear_in : forall da db rb ops i outs snk d,
  nth_error (trace (init_on da db true rb) ops) i = Some outs -> In (Deliver snk d) outs -> inbound snk = true ->
  exists k p, d = Auth k p /\ last_a None (firstn i ops) = Some k /\
              (nth_error ops i = Some (RecvRtp (Prot k Rx p)) \/ nth_error ops i = Some (RecvRtcp (Prot k Rx p))).
Proof. exact no_clear_in. Qed.

(* ... and what the bridged peer is sent is such an authenticated packet *)
Theorem C14_bridge_in : forall da db rb ops i outs w,
  nth_error (trace (init_on da db true rb) ops) i = Some outs -> In (Wire SockB w) outs ->
  exists k p, nth_error ops i = Some (RecvRtp (Prot k Rx p)) /\ wire_pid w = p /\
              last_a None (firstn i ops) = Some k.
Proof. exact bridge_in. Qed.

(* racing tasks: each operation evaluates its gate atomically (one read of the slot under its mutex), so a
   concurrent execution is an interleaving of the tasks' operation lists; every interleaving is an operation
   list (a permutation of all the tasks' operations), hence safe *)
Theorem C14_racing : forall tasks merged da db ra rb,
  Interleave tasks merged -> Permutation (List.concat tasks) merged /\ safe_history da db ra rb merged.
Proof. exact racing. Qed.

(* a socket write that completes after later operations (it happens after the gate released its locks) is
   still under a key set that had been installed: "installed before" is monotone *)
Theorem C14_delayed_emission : forall ops i j k,
  (i <= j)%nat -> In (InstallKeys k) (firstn i ops) -> In (InstallKeys k) (firstn j ops).
Proof. exact installed_mono. Qed.

(* the decision tables regenerated from rtp.rs are the specified gate in all five send paths and both
   receive branches *)
Theorem C14_gate_tables : forall h r,
  gate_send h r = spec_gate h r /\ gate_send_rtp h r = spec_gate h r /\
  gate_send_rtcp h r = spec_gate h r /\ gate_send_rtcp_sync h r = spec_gate h r /\
  gate_bridge h r = spec_gate h r /\
  gate_recv_rtp h r = spec_rgate h r /\ gate_recv_rtcp h r = spec_rgate h r.
Proof. exact gate_tables. Qed.

(* statement order in the source: observers and the bridge come after the receive gate, the socket write after
   the send gate *)
Theorem C14_stage_order :
  send_stages = [S_gate; S_clear_send; S_protect; S_protected_send] /\
  send_rtp_stages = [S_observer; S_gate; S_protect; S_marshal_clear; S_send] /\
  bridge_stages = [S_bridge_check; S_observer; S_gate; S_protect; S_marshal_clear; S_send] /\
  receive_stages = [S_gate; S_unprotect_rtcp; S_rtcp_listener;
                    S_gate; S_unprotect_rtp; S_plain_parse; S_observer; S_bridge; S_listener].
Proof. exact stage_order. Qed.

(* census: every call of an IceConn sender in src/ is one of the four gated senders of RtpTransport, the
   bridge fast path, or a DTLS record sender *)
Theorem C14_sites : Forall (fun s => In s (map fst allowed_sites)) send_sites.
Proof. exact sites_allowed. Qed.

(* ... every raw socket write is inside IceConn's own senders, the socket wrappers, or the STUN / TURN agent *)
Theorem C14_socket_sites : Forall (fun s => In s (map fst allowed_socket_sites)) socket_sites.
Proof. exact socket_sites_allowed. Qed.

(* ... the raw connection is taken out of an RtpTransport only at the listed places *)
Theorem C14_ice_conn_uses : Forall (fun u => In u allowed_ice_conn_uses) ice_conn_uses.
Proof. exact ice_conn_uses_allowed. Qed.

(* ... and a transport is created with srtp_required = (mode <> Rtp), or with false only on Rtp-mode paths *)
Theorem C14_required_flag : Forall (fun c => ctor_ok c = true) ctor_sites /\ ctor_sites <> [].
Proof. exact ctor_sites_ok. Qed.

(* the gated senders the model describes exist in the census *)
Theorem C14_sites_present : Forall (fun s => snd s = DtlsRecord \/ In (fst s) send_sites) allowed_sites.
Proof. exact gated_sites_present. Qed.

(* ... no function other than the listed ones takes or returns the raw connection, no struct other than
   RtpTransport and the DTLS transport stores it *)
Theorem C14_carriers : Forall (fun c => In c allowed_carriers) ice_conn_carriers.
Proof. exact carriers_allowed. Qed.

Theorem C14_holders : Forall (fun c => In c allowed_holders) ice_conn_holders.
Proof. exact holders_allowed. Qed.

(* ... the traits implemented for IceConn (what a trait object holding one can do) and the PacketReceiver impls
   contain no send / socket-write site, and no macro mentions a sender *)
Theorem C14_trait_objects :
  Forall (fun c => In c allowed_trait_impls) ice_conn_trait_impls /\
  Forall (fun c => In c allowed_receiver_impls) packet_receiver_impls /\ send_macros = [].
Proof. exact trait_impls_allowed. Qed.

(* the only byte-dependent outcome of the model comparison (protected RTCP fed to the plain RTCP parser) arises
   only in a transport that is not SRTP-mandatory and has no keys: the property does not speak about it *)
Theorem C14_plain_rtcp_only_unprotected_mode : forall s o,
  plain_rtcp_path s o = true -> required (a s) = false /\ session (a s) = None.
Proof. exact plain_rtcp_path_unprotected. Qed.
