(* C15 -- RTP and RTCP encode/decode are mutually inverse and standards-conformant.
   Statements only; every proof is `exact <lemma of Proofs/*>`. *)
From Coq Require Import ZArith List Bool.
From RV Require Import Lib.Wrap.
From RV Require Import Gen.Consts.
From RV Require Import Gen.RtpConsts.
From RV Require Import Model.RtpLib.
From RV Require Import Model.Rtp.
From RV Require Import Proofs.RtpProofs.
From RV Require Import Proofs.RtpExtProofs.
From RV Require Import Model.Nack.
From RV Require Import Proofs.NackProofs.
From RV Require Import Model.Rtcp.
From RV Require Import Proofs.RtcpProofs.
From RV Require Import Proofs.RtcpTotal.
From RV Require Import Proofs.RtcpBack.
From RV Require Import Model.NackSend.
From RV Require Import Proofs.NackSendProofs.
Import ListNotations.
Open Scope Z_scope.

(* ---- RTP packets ---- *)

(* parsing what the stack serialised returns the same logical packet: every packet within the Rust
   field ranges (wf_packet) with a 7-bit payload type and an extension block below 2^18 bytes
   (representable); marshal itself refuses > 15 CSRCs and unaligned extension data (C15_rtp_marshal_ok_iff) *)
Theorem C15_rtp_parse_marshal : forall p bs,
  wf_packet p -> representable p -> marshal_packet p = Ok bs -> parse_packet bs = Ok p.
Proof. exact parse_marshal. Qed.

Theorem C15_rtp_marshal_ok_iff : forall p, (exists bs, marshal_packet p = Ok bs) <-> encodable (p_hdr p).
Proof. exact marshal_ok_iff. Qed.

Theorem C15_rtp_marshal_no_panic : forall p, marshal_packet p <> Panic.
Proof. exact marshal_no_panic. Qed.

(* the serialisation is the RFC 3550 section 5.1 layout (stated arithmetically, without the code's bit operations) *)
Theorem C15_rtp_wire_format : forall p bs,
  wf_packet p -> representable p -> marshal_packet p = Ok bs -> bs = rfc3550_bytes p.
Proof. exact marshal_rfc3550. Qed.

Theorem C15_rtp_marshal_len : forall p bs, 0 <= p_padlen p -> marshal_packet p = Ok bs -> len bs = packet_len p.
Proof. exact marshal_len. Qed.

(* any packet parsed from any byte string re-serialises, to the RFC layout, and that parses to the same
   logical packet (padding bytes may differ from the input, fields do not) *)
Theorem C15_rtp_parse_marshal_parse : forall raw p,
  bytes raw -> parse_packet raw = Ok p ->
  exists bs, marshal_packet p = Ok bs /\ parse_packet bs = Ok p /\ bs = rfc3550_bytes p.
Proof. exact parse_marshal_parse. Qed.

Theorem C15_rtp_marshal_injective : forall p q bs,
  wf_packet p -> representable p -> wf_packet q -> representable q ->
  marshal_packet p = Ok bs -> marshal_packet q = Ok bs -> p = q.
Proof. exact marshal_injective. Qed.

(* parse never panics, on any byte string (C07 for this decoder) *)
Theorem C15_rtp_parse_total : forall raw, bytes raw -> parse_packet raw <> Panic.
Proof. exact parse_packet_total. Qed.

Theorem C15_rtp_parse_header_total : forall raw, parse_header raw <> Panic.
Proof. exact parse_header_total. Qed.

(* satisfiability of the premises at the boundary values: 15 CSRCs, extension, 255 bytes of padding *)
Theorem C15_rtp_example :
  exists bs, marshal_packet example_packet = Ok bs /\ parse_packet bs = Ok example_packet /\ len bs = 12 + 60 + 8 + 3 + 255.
Proof. exact example_packet_roundtrip. Qed.

(* ---- header extensions (RFC 8285 one-byte form, profile 0xBEDE) ----
   set_args_ok h id v :  1 <= id <= 14, 1 <= |v| <= 16, and h has no extension or a 0xBEDE one.
   The laws hold for every content of the existing block (received from the wire or not): complete
   elements, padding, an id-15 stop element, a truncated last element. *)

Theorem C15_ext_set_ok_iff : forall h id data,
  byte id -> ((exists h', set_extension h id data = Ok h') <-> set_args_ok h id data).
Proof. exact set_ok_iff. Qed.

(* setting an extension then reading it returns the value *)
Theorem C15_ext_set_then_get : forall h id data h',
  set_args_ok h id data -> set_extension h id data = Ok h' -> get_extension h' id = Ok (Some data).
Proof. exact set_then_get. Qed.

(* ... and leaves every other extension intact *)
Theorem C15_ext_set_keeps_others : forall h id data h' id',
  set_args_ok h id data -> set_extension h id data = Ok h' -> id' <> id ->
  get_extension h' id' = get_extension h id'.
Proof. exact set_keeps_others. Qed.

(* the rebuilt block is 0xBEDE, 32-bit aligned, serialisable, and no other header field moves *)
Theorem C15_ext_set_result : forall h id data h',
  set_args_ok h id data -> set_extension h id data = Ok h' ->
  exists e, h_ext h' = Some e /\ x_profile e = EXT_ONE_BYTE /\ len (x_data e) mod 4 = 0 /\
            (len (h_csrcs h) <= MAX_CSRC -> encodable h') /\
            h_marker h' = h_marker h /\ h_pt h' = h_pt h /\ h_seq h' = h_seq h /\ h_ts h' = h_ts h /\
            h_ssrc h' = h_ssrc h /\ h_csrcs h' = h_csrcs h.
Proof. exact set_result_aligned. Qed.

(* no header content makes set_extension / get_extension panic (finding F1, fixed in /repo 00d5056) *)
Theorem C15_ext_set_no_panic : forall h id data, set_extension h id data <> Panic.
Proof. exact set_extension_no_panic. Qed.

Theorem C15_ext_set_after_parse_no_panic : forall raw p id data,
  parse_packet raw = Ok p -> set_extension (p_hdr p) id data <> Panic.
Proof. exact set_after_parse_no_panic. Qed.

Theorem C15_ext_get_no_panic : forall h id,
  match h_ext h with Some e => bytes (x_data e) | None => True end -> get_extension h id <> Panic.
Proof. exact get_extension_no_panic. Qed.

Theorem C15_ext_get_after_parse_no_panic : forall raw p id,
  bytes raw -> parse_packet raw = Ok p -> get_extension (p_hdr p) id <> Panic.
Proof. exact get_after_parse_no_panic. Qed.

(* the F1 witness: the pre-fix copy loop panics on it, the current code rebuilds the block *)
Theorem C15_ext_F1_prefix_refuted : set1_unfixed 4 [31; 0; 0; 0] 2 [32; 9] = Panic.
Proof. exact f1_witness_unfixed. Qed.

Theorem C15_ext_F1_fixed :
  set_extension (mkHdr false 96 1 2 3 [] (Some (mkExt 48862 [31; 0; 0; 0]))) 2 [9] =
  Ok (mkHdr false 96 1 2 3 [] (Some (mkExt 48862 [32; 9; 0; 0]))).
Proof. exact f1_witness_fixed. Qed.

Theorem C15_ext_example :
  exists h', set_extension (mkHdr false 96 1 2 3 [] (Some (mkExt 48862 [18; 170; 187; 204; 0; 0; 32; 255]))) 1 [17; 34] = Ok h' /\
             get_extension h' 1 = Ok (Some [17; 34]) /\ get_extension h' 2 = Ok (Some [255]).
Proof. exact set_example. Qed.

(* ---- NACK bitmask packing ----
   pack_nack_pairs = sort_unstable + dedup + greedy (pid, blp) grouping; unpack_pairs = the loop of
   parse_nack_body.  The set of lost sequence numbers is preserved for every list of 16-bit numbers,
   including sets that straddle 65535 -> 0. *)
Theorem C15_nack_set : forall l, Forall u16 l ->
  forall y, In y (unpack_pairs (pack_nack_pairs l)) <-> In y l.
Proof. exact nack_set. Qed.

Theorem C15_nack_pairs_fit_u16 : forall l, Forall u16 l ->
  Forall (fun pb => u16 (fst pb) /\ u16 (snd pb)) (pack_nack_pairs l).
Proof. exact nack_pairs_u16. Qed.

Theorem C15_nack_nonempty : forall l, l <> [] -> pack_nack_pairs l <> [].
Proof. exact pack_nonempty. Qed.

Theorem C15_nack_wrap_example :
  pack_nack_pairs [65535; 0; 65534; 1; 16; 0] = [(0, 32769); (65534, 1)] /\
  unpack_pairs (pack_nack_pairs [65535; 0; 65534; 1; 16; 0]) = [0; 1; 16; 65534; 65535].
Proof. exact nack_wrap_example. Qed.

(* ---- RTX (RFC 4588) ---- wrapping then unwrapping restores sequence number, timestamp, marker and
   payload; CSRCs / header extension / padding are intentionally not carried (stated). *)
Theorem C15_rtx_roundtrip : forall original rtx_ssrc rtx_pt rtx_seq primary_ssrc primary_pt,
  u16 (h_seq (p_hdr original)) ->
  exists restored,
    unwrap_rtx (wrap_rtx original rtx_ssrc rtx_pt rtx_seq) primary_ssrc primary_pt = Some restored /\
    h_seq (p_hdr restored) = h_seq (p_hdr original) /\
    h_ts (p_hdr restored) = h_ts (p_hdr original) /\
    h_marker (p_hdr restored) = h_marker (p_hdr original) /\
    p_payload restored = p_payload original /\
    h_ssrc (p_hdr restored) = primary_ssrc /\ h_pt (p_hdr restored) = primary_pt /\
    h_csrcs (p_hdr restored) = [] /\ h_ext (p_hdr restored) = None /\ p_padlen restored = 0.
Proof. exact rtx_roundtrip. Qed.

Theorem C15_rtx_roundtrip_exact : forall original rtx_ssrc rtx_pt rtx_seq,
  u16 (h_seq (p_hdr original)) -> h_csrcs (p_hdr original) = [] -> h_ext (p_hdr original) = None ->
  p_padlen original = 0 ->
  unwrap_rtx (wrap_rtx original rtx_ssrc rtx_pt rtx_seq) (h_ssrc (p_hdr original)) (h_pt (p_hdr original)) = Some original.
Proof. exact rtx_roundtrip_exact. Qed.

Theorem C15_rtx_over_wire : forall original rtx_ssrc rtx_pt rtx_seq primary_ssrc primary_pt bs,
  wf_packet original -> u32 rtx_ssrc -> 0 <= rtx_pt < 128 -> u16 rtx_seq ->
  marshal_packet (wrap_rtx original rtx_ssrc rtx_pt rtx_seq) = Ok bs ->
  exists rtx restored,
    parse_packet bs = Ok rtx /\ unwrap_rtx rtx primary_ssrc primary_pt = Some restored /\
    h_seq (p_hdr restored) = h_seq (p_hdr original) /\ h_ts (p_hdr restored) = h_ts (p_hdr original) /\
    h_marker (p_hdr restored) = h_marker (p_hdr original) /\ p_payload restored = p_payload original.
Proof. exact rtx_over_wire. Qed.

Theorem C15_rtx_unwrap_short : forall rtx s pt, len (p_payload rtx) < 2 -> unwrap_rtx rtx s pt = None.
Proof. exact unwrap_short. Qed.

(* ---- receiver gap detection (DefaultRtpReceiverNackHandler) ---- *)
Theorem C15_gap_detect : forall last seq,
  u16 last -> u16 seq ->
  let diff := cast_u16 (seq - last) in
  1 < diff < 32768 ->
  let gap := diff - 1 in
  let skip := Z.max 0 (gap - MAX_RECEIVER_NACK_GAP) in
  gap_lost last seq = map (fun i => cast_u16 (last + 1 + skip + i)) (zrange (Z.to_nat (Z.min gap MAX_RECEIVER_NACK_GAP))).
Proof. exact gap_lost_spec. Qed.

Theorem C15_gap_detect_exact : forall last seq x,
  u16 last -> u16 seq -> u16 x ->
  1 < cast_u16 (seq - last) < 32768 -> cast_u16 (seq - last) - 1 <= MAX_RECEIVER_NACK_GAP ->
  (In x (gap_lost last seq) <-> 1 <= cast_u16 (x - last) < cast_u16 (seq - last)).
Proof. exact gap_lost_exact. Qed.

Theorem C15_gap_detect_length : forall last seq,
  u16 last -> u16 seq -> 1 < cast_u16 (seq - last) < 32768 ->
  len (gap_lost last seq) = Z.min (cast_u16 (seq - last) - 1) MAX_RECEIVER_NACK_GAP.
Proof. exact gap_lost_length. Qed.

Theorem C15_gap_step_emits : forall st seq ssrc lost st' over,
  nack_step st seq ssrc = (st', Some lost, over) ->
  lost = gap_lost (n_last_seq st) seq /\ 1 < cast_u16 (seq - n_last_seq st) < 32768 /\
  n_last_seq st' = seq /\ n_init st = true.
Proof. exact nack_step_emits. Qed.

(* ---- RTCP compound packets ----
   valid x = valid_fields x && fits x is an explicit boolean (Proofs/RtcpProofs.v): Rust field ranges; at most 31
   report blocks / SDES chunks / BYE sources; packets_lost in [-2^23, 2^23); SDES item type 1..255 and text
   <= 255 bytes of clean UTF-8; BYE reason <= 255 bytes of clean UTF-8; non-empty NACK list; REMB bitrate < 2^64
   with <= 255 SSRCs; TWCC reference time < 2^24 (any payload length); encoding <= 2^18 bytes.
   canon is the identity except NACK (lost list becomes sorted / de-duplicated: same set, C15_rtcp_canon_nack)
   and REMB (bits below the 18-bit mantissa are cleared by the format, C15_remb_trunc). *)
Theorem C15_rtcp_roundtrip : forall xs,
  forallb valid xs = true ->
  exists bs, marshal_rtcp xs = Ok bs /\ parse_rtcp bs = Ok (map canon xs).
Proof. exact rtcp_roundtrip. Qed.

Theorem C15_rtcp_roundtrip_one : forall x,
  valid x = true -> exists bs, marshal_rtcp [x] = Ok bs /\ parse_rtcp bs = Ok [canon x].
Proof. exact rtcp_roundtrip_one. Qed.

Theorem C15_rtcp_compound_is_concat : forall xs ys bx by_,
  marshal_rtcp xs = Ok bx -> marshal_rtcp ys = Ok by_ -> marshal_rtcp (xs ++ ys) = Ok (bx ++ by_).
Proof. exact marshal_compound. Qed.

Theorem C15_rtcp_canon_id : forall x,
  match x with NACK _ _ _ | REMB _ _ _ => True | _ => canon x = x end.
Proof. exact canon_id. Qed.

Theorem C15_rtcp_canon_nack : forall s m l,
  Forall u16 l -> exists l', canon (NACK s m l) = NACK s m l' /\ forall y, In y l' <-> In y l.
Proof. exact canon_nack_set. Qed.

Theorem C15_rtcp_canon_remb_exact : forall s br ss,
  0 <= br <= 262143 -> canon (REMB s br ss) = REMB s br ss.
Proof. exact canon_remb. Qed.

(* REMB is lossy by format (not a defect): the decoded value is br with the bits below the mantissa cleared *)
Theorem C15_remb_trunc : forall br,
  0 <= br < 18446744073709551616 ->
  exists e, 0 <= e <= 64 /\ remb_decoded br = 2 ^ e * (br / 2 ^ e) /\
            remb_decoded br <= br < remb_decoded br + 2 ^ e /\ br / 2 ^ e <= 262143 /\
            (br <= 262143 -> remb_decoded br = br).
Proof. exact remb_truncation. Qed.

(* 24-bit signed packets_lost: sign extension on parse inverts the encoding on the whole range *)
Theorem C15_rtcp_packets_lost : forall x,
  - 8388608 <= x < 8388608 -> exists b5 b6 b7, lost24 x = [b5; b6; b7] /\ sext24 b5 b6 b7 = x.
Proof. exact lost24_sext. Qed.

(* finding F12 (fixed in /repo 3fd9cb1, 106552b): what does not fit the wire fields is refused, not emitted *)
Theorem C15_rtcp_refuses_counts :
  (forall s nm nl ts pc oc bl, 31 < len bl -> marshal_one (SR s nm nl ts pc oc bl) = Err EInvalidRtcp) /\
  (forall s bl, 31 < len bl -> marshal_one (RR s bl) = Err EInvalidRtcp) /\
  (forall ch, 31 < len ch -> marshal_one (SDES ch) = Err EInvalidRtcp) /\
  (forall so r, 31 < len so -> marshal_one (BYE so r) = Err EInvalidRtcp) /\
  (forall s br ss, 255 < len ss -> marshal_one (REMB s br ss) = Err EInvalidRtcp) /\
  (forall s m, marshal_one (NACK s m []) = Err EInvalidRtcp).
Proof. exact marshal_refuses_counts. Qed.

Theorem C15_rtcp_refuses_long_sdes_item : forall ssrc ty text,
  255 < len text -> marshal_one (SDES [mkChunk ssrc [mkItem ty text]]) = Err EInvalidRtcp.
Proof. exact marshal_refuses_long_item. Qed.

Theorem C15_rtcp_ascii_text_is_clean : forall t, Forall (fun b => 0 <= b < 128) t -> utf8_lossy t = t.
Proof. exact ascii_clean. Qed.

(* finding F26 (fixed in /repo 9d24b1e): a TWCC whose opaque payload is not 32-bit aligned is written with RFC 3550
   padding (P bit + pad count) and comes back unchanged -- valid no longer restricts the payload length *)
Theorem C15_rtcp_twcc_unaligned_roundtrip :
  (forall s m ba c rf fb pl, valid (TWCC s m ba c rf fb pl) = true ->
     exists bs, marshal_rtcp [TWCC s m ba c rf fb pl] = Ok bs /\ parse_rtcp bs = Ok [TWCC s m ba c rf fb pl]) /\
  valid twcc_witness = true /\
  marshal_rtcp [twcc_witness] = Ok [175; 205; 0; 5; 0; 0; 0; 1; 0; 0; 0; 2; 0; 3; 0; 1; 0; 0; 5; 0; 32; 0; 0; 3].
Proof. exact twcc_unaligned_roundtrip. Qed.

(* satisfiability: one compound with every packet type at its boundary values is valid and round-trips *)
Theorem C15_rtcp_example :
  forallb valid example_compound = true /\
  exists bs, marshal_rtcp example_compound = Ok bs /\ parse_rtcp bs = Ok (map canon example_compound).
Proof. exact example_compound_ok. Qed.

(* parse_rtcp_packets never panics, on any byte string (every sub-parser, the compound walk, padding handling;
   fuel exhaustion counts as Panic, so this includes termination) *)
Theorem C15_rtcp_parse_total : forall raw, bytes raw -> parse_rtcp raw <> Panic.
Proof. exact parse_rtcp_total. Qed.

(* ---- the other direction for RTCP ----
   String::from_utf8_lossy (as modelled) is idempotent and keeps bytes: a decoded text is a fixed point *)
Theorem C15_utf8_lossy_idem : forall l, utf8_lossy (utf8_lossy l) = utf8_lossy l.
Proof. exact utf8_lossy_idem. Qed.

Theorem C15_utf8_lossy_bytes : forall l, bytes l -> bytes (utf8_lossy l).
Proof. exact utf8_lossy_bytes. Qed.

(* a decoded REMB bitrate (18-bit mantissa shifted by a 6-bit exponent, wrapped to u64) re-encodes exactly *)
Theorem C15_remb_decoded_stable : forall mant e0,
  0 <= mant <= 262143 -> 0 <= e0 < 64 ->
  remb_decoded (cast_u64 (Z.shiftl mant e0)) = cast_u64 (Z.shiftl mant e0).
Proof. exact remb_stable. Qed.

(* whatever parse_rtcp_packets returns, from any byte string, lies inside the field part of `valid` as soon as its
   decoded texts are <= 255 bytes (always so for valid UTF-8 input) and a NACK is not empty *)
Theorem C15_rtcp_parsed_valid : forall bs xs,
  bytes bs -> parse_rtcp bs = Ok xs ->
  Forall (fun x => text_short x = true -> nack_ne x = true -> valid_fields x = true) xs.
Proof. exact rtcp_parsed_valid. Qed.

(* ... hence it re-serialises, and the re-serialisation parses to the same packets: exactly for every type but NACK
   (whose lost list comes back as the same set), for all nine types incl. SDES / BYE *)
Theorem C15_rtcp_parse_marshal_parse : forall bs xs,
  bytes bs -> parse_rtcp bs = Ok xs ->
  forallb text_short xs = true -> forallb nack_ne xs = true -> forallb fits xs = true ->
  exists bs', marshal_rtcp xs = Ok bs' /\ parse_rtcp bs' = Ok (map canon xs) /\
              Forall (fun x => not_nack x = true -> canon x = x) xs /\
              (forallb not_nack xs = true -> parse_rtcp bs' = Ok xs).
Proof. exact rtcp_parse_marshal_parse. Qed.

(* ---- sender-side NACK buffer (NackSendBuffer) and resend cooldown (DefaultRtpSenderNackHandler) ----
   sb_run max ps = the buffer after on_packet_sent of ps in order; max >= 1 is what `new` guarantees. *)

(* bound and index invariants, for every history of sent packets (repeated sequence numbers, wrap-around included) *)
Theorem C15_sender_buffer_invariant : forall max ps,
  1 <= max ->
  let b := sb_run max ps in
  sb_len b <= max /\ sb_len b = len (sb_order b) /\ NoDup (sb_order b) /\
  (forall k, In k (sb_order b) <-> (exists p, sb_get b k = Some p)) /\
  (forall k p, sb_get b k = Some p -> pseq p = k /\ In p ps).
Proof. exact sender_buffer_invariant. Qed.

Theorem C15_sender_buffer_latest : forall max ps p,
  1 <= max -> sb_get (sb_run max (ps ++ [p])) (pseq p) = Some p.
Proof. exact sender_buffer_latest. Qed.

(* with pairwise distinct sequence numbers the buffer is exactly the window of the last `max` packets *)
Theorem C15_sender_buffer_window : forall max, 1 <= max -> forall ps,
  NoDup (map pseq ps) ->
  sb_order (sb_run max ps) = map pseq (drop (len ps - max) ps) /\
  (forall p, In p (drop (len ps - max) ps) -> sb_get (sb_run max ps) (pseq p) = Some p) /\
  (forall p, In p ps -> ~ In p (drop (len ps - max) ps) -> sb_get (sb_run max ps) (pseq p) = None).
Proof. exact sender_buffer_window. Qed.

(* packets_for_nack: exactly the requested, buffered, non-cooling sequence numbers, each once *)
Theorem C15_sender_nack_spec : forall h seqs now h' out,
  indexed h -> sh_packets_for_nack h seqs now = (h', out) ->
  (forall p, In p out -> In (pseq p) seqs /\ sb_get (sh_buf h) (pseq p) = Some p /\ cooling (sh_recent h) (pseq p) now = false) /\
  (forall seq p, In seq seqs -> sb_get (sh_buf h) seq = Some p -> cooling (sh_recent h) seq now = false -> In p out) /\
  NoDup (map pseq out) /\ sh_supp h <= sh_supp h' /\ sh_buf h' = sh_buf h /\ sh_max h' = sh_max h /\ sh_rtx h' = sh_rtx h.
Proof. exact packets_for_nack_spec. Qed.

(* a sequence number handed out at t1 is not handed out again by the next call while t2 - t1 < NACK_RESEND_COOLDOWN *)
Theorem C15_sender_cooldown : forall h seqs1 t1 h1 out1 seqs2 t2 h2 out2 p,
  indexed h -> 0 < NACK_RESEND_COOLDOWN_US ->
  sh_packets_for_nack h seqs1 t1 = (h1, out1) -> sh_packets_for_nack h1 seqs2 t2 = (h2, out2) ->
  In p out1 -> since t2 t1 < NACK_RESEND_COOLDOWN_US ->
  forall q, In q out2 -> pseq q <> pseq p.
Proof. exact cooldown_suppresses. Qed.

Theorem C15_sender_on_sent : forall h p, 1 <= sh_max h -> (exists ps, Inv (sh_buf h) (sh_max h) ps) ->
  exists ps', Inv (sh_buf (sh_on_sent h p)) (sh_max (sh_on_sent h p)) ps' /\
  (sh_rtx h <> 0 /\ h_ssrc (p_hdr p) = sh_rtx h -> sh_on_sent h p = h) /\
  (~ (sh_rtx h <> 0 /\ h_ssrc (p_hdr p) = sh_rtx h) -> sb_get (sh_buf (sh_on_sent h p)) (pseq p) = Some p).
Proof. exact on_sent_indexed. Qed.

(* the repository's unit tests sender_nack_buffer_bounded_and_indexed and
   sender_nack_suppresses_duplicate_resend_within_cooldown, evaluated on the model *)
Theorem C15_sender_test_bounded_and_indexed :
  let h := fold_left sh_on_sent (map tp [1; 2; 3; 4; 5; 6; 7; 8; 9; 10]) (sh_new 4) in
  sb_len (sh_buf h) = 4 /\
  snd (sh_packets_for_nack h [7; 8; 9; 10] 0) = map tp [7; 8; 9; 10] /\
  snd (sh_packets_for_nack h [1; 2; 3; 4; 5; 6] 0) = [].
Proof. exact test_bounded_and_indexed. Qed.

Theorem C15_sender_test_cooldown :
  let h0 := sh_on_sent (sh_new 8) (tp 50) in
  let '(h1, first) := sh_packets_for_nack h0 [50; 50] 0 in
  let '(h2, second) := sh_packets_for_nack h1 [50] 5000 in
  let '(h3, third) := sh_packets_for_nack h2 [50] 26000 in
  first = [tp 50] /\ sh_supp h1 = 1 /\ second = [] /\ sh_supp h2 = 2 /\ third = [tp 50].
Proof. exact test_cooldown. Qed.

(* ---- two-byte header extensions (RFC 8285, profile 0x1000) ----
   enc2 elems trail = the block made of the elements (id, data), each preceded by `pad` zero octets, then `trail`
   zero octets; find2 = first element with that id.  The stack only reads this form: *)
Theorem C15_ext2_get : forall h elems trail id,
  h_ext h = Some (mkExt EXT_TWO_BYTE (enc2 elems trail)) ->
  Forall (fun x => snd (fst x) <> 0) elems ->
  get_extension h id = Ok (find2 elems id).
Proof. exact get_extension_twobyte. Qed.

(* ... set_extension refuses to rewrite it (and any other non-0xBEDE profile), for all arguments; being an error
   return, the header is left as it was *)
Theorem C15_ext2_set_refused : forall h e id data,
  h_ext h = Some e -> x_profile e <> EXT_ONE_BYTE -> set_extension h id data = Err EInvalidHeader.
Proof. exact set_extension_refuses_other_profiles. Qed.

Theorem C15_ext2_example :
  get_extension (mkHdr false 96 1 2 3 [] (Some (mkExt 4096 (enc2 [(1%nat, 200, [7; 8; 9]); (0%nat, 5, []); (2%nat, 200, [1])] 3%nat)))) 200 = Ok (Some [7; 8; 9]) /\
  get_extension (mkHdr false 96 1 2 3 [] (Some (mkExt 4096 (enc2 [(1%nat, 200, [7; 8; 9]); (0%nat, 5, []); (2%nat, 200, [1])] 3%nat)))) 5 = Ok (Some []) /\
  get_extension (mkHdr false 96 1 2 3 [] (Some (mkExt 4096 (enc2 [(1%nat, 200, [7; 8; 9]); (0%nat, 5, []); (2%nat, 200, [1])] 3%nat)))) 6 = Ok None.
Proof. exact twobyte_example. Qed.
