(* C15 -- RTP and RTCP encode/decode are mutually inverse and standards-conformant.
   Statements only; every proof is `exact <lemma of Proofs/*>`. *)
From Coq Require Import ZArith List Bool.
From RV Require Import Lib.Wrap.
From RV Require Import Gen.Consts.
From RV Require Import Gen.RtpConsts.
From RV Require Import Model.RtpLib.
From RV Require Import Model.Rtp.
From RV Require Import Proofs.RtpProofs.
From RV Require Import Proofs.RtpExtProofs.
From RV Require Import Model.Nack.
From RV Require Import Proofs.NackProofs.
From RV Require Import Model.Rtcp.
From RV Require Import Proofs.RtcpProofs.
From RV Require Import Proofs.RtcpTotal.
Import ListNotations.
Open Scope Z_scope.

(* ---- RTP packets ---- *)

(* parsing what the stack serialised returns the same logical packet: every packet within the Rust
   field ranges (wf_packet) with a 7-bit payload type and an extension block below 2^18 bytes
   (representable); marshal itself refuses > 15 CSRCs and unaligned extension data (C15_rtp_marshal_ok_iff) *)
Theorem C15_rtp_parse_marshal : forall p bs,
  wf_packet p -> representable p -> marshal_packet p = Ok bs -> parse_packet bs = Ok p.
Proof. exact parse_marshal. Qed.

Theorem C15_rtp_marshal_ok_iff : forall p, (exists bs, marshal_packet p = Ok bs) <-> encodable (p_hdr p).
Proof. exact marshal_ok_iff. Qed.

Theorem C15_rtp_marshal_no_panic : forall p, marshal_packet p <> Panic.
Proof. exact marshal_no_panic. Qed.

(* the serialisation is the RFC 3550 section 5.1 layout (stated arithmetically, without the code's bit operations) *)
Theorem C15_rtp_wire_format : forall p bs,
  wf_packet p -> representable p -> marshal_packet p = Ok bs -> bs = rfc3550_bytes p.
Proof. exact marshal_rfc3550. Qed.

Theorem C15_rtp_marshal_len : forall p bs, 0 <= p_padlen p -> marshal_packet p = Ok bs -> len bs = packet_len p.
Proof. exact marshal_len. Qed.

(* any packet parsed from any byte string re-serialises, to the RFC layout, and that parses to the same
   logical packet (padding bytes may differ from the input, fields do not) *)
Theorem C15_rtp_parse_marshal_parse : forall raw p,
  bytes raw -> parse_packet raw = Ok p ->
  exists bs, marshal_packet p = Ok bs /\ parse_packet bs = Ok p /\ bs = rfc3550_bytes p.
Proof. exact parse_marshal_parse. Qed.

Theorem C15_rtp_marshal_injective : forall p q bs,
  wf_packet p -> representable p -> wf_packet q -> representable q ->
  marshal_packet p = Ok bs -> marshal_packet q = Ok bs -> p = q.
Proof. exact marshal_injective. Qed.

(* parse never panics, on any byte string (C07 for this decoder) *)
Theorem C15_rtp_parse_total : forall raw, bytes raw -> parse_packet raw <> Panic.
Proof. exact parse_packet_total. Qed.

Theorem C15_rtp_parse_header_total : forall raw, parse_header raw <> Panic.
Proof. exact parse_header_total. Qed.

(* satisfiability of the premises at the boundary values: 15 CSRCs, extension, 255 bytes of padding *)
Theorem C15_rtp_example :
  exists bs, marshal_packet example_packet = Ok bs /\ parse_packet bs = Ok example_packet /\ len bs = 12 + 60 + 8 + 3 + 255.
Proof. exact example_packet_roundtrip. Qed.

(* ---- header extensions (RFC 8285 one-byte form, profile 0xBEDE) ----
   set_args_ok h id v :  1 <= id <= 14, 1 <= |v| <= 16, and h has no extension or a 0xBEDE one.
   The laws hold for every content of the existing block (received from the wire or not): complete
   elements, padding, an id-15 stop element, a truncated last element. *)

Theorem C15_ext_set_ok_iff : forall h id data,
  byte id -> ((exists h', set_extension h id data = Ok h') <-> set_args_ok h id data).
Proof. exact set_ok_iff. Qed.

(* setting an extension then reading it returns the value *)
Theorem C15_ext_set_then_get : forall h id data h',
  set_args_ok h id data -> set_extension h id data = Ok h' -> get_extension h' id = Ok (Some data).
Proof. exact set_then_get. Qed.

(* ... and leaves every other extension intact *)
Theorem C15_ext_set_keeps_others : forall h id data h' id',
  set_args_ok h id data -> set_extension h id data = Ok h' -> id' <> id ->
  get_extension h' id' = get_extension h id'.
Proof. exact set_keeps_others. Qed.

(* the rebuilt block is 0xBEDE, 32-bit aligned, serialisable, and no other header field moves *)
Theorem C15_ext_set_result : forall h id data h',
  set_args_ok h id data -> set_extension h id data = Ok h' ->
  exists e, h_ext h' = Some e /\ x_profile e = EXT_ONE_BYTE /\ len (x_data e) mod 4 = 0 /\
            (len (h_csrcs h) <= MAX_CSRC -> encodable h') /\
            h_marker h' = h_marker h /\ h_pt h' = h_pt h /\ h_seq h' = h_seq h /\ h_ts h' = h_ts h /\
            h_ssrc h' = h_ssrc h /\ h_csrcs h' = h_csrcs h.
Proof. exact set_result_aligned. Qed.

(* no header content makes set_extension / get_extension panic (finding F1, fixed in /repo 00d5056) *)
Theorem C15_ext_set_no_panic : forall h id data, set_extension h id data <> Panic.
Proof. exact set_extension_no_panic. Qed.

Theorem C15_ext_set_after_parse_no_panic : forall raw p id data,
  parse_packet raw = Ok p -> set_extension (p_hdr p) id data <> Panic.
Proof. exact set_after_parse_no_panic. Qed.

Theorem C15_ext_get_no_panic : forall h id,
  match h_ext h with Some e => bytes (x_data e) | None => True end -> get_extension h id <> Panic.
Proof. exact get_extension_no_panic. Qed.

Theorem C15_ext_get_after_parse_no_panic : forall raw p id,
  bytes raw -> parse_packet raw = Ok p -> get_extension (p_hdr p) id <> Panic.
Proof. exact get_after_parse_no_panic. Qed.

(* the F1 witness: the pre-fix copy loop panics on it, the current code rebuilds the block *)
Theorem C15_ext_F1_prefix_refuted : set1_unfixed 4 [31; 0; 0; 0] 2 [32; 9] = Panic.
Proof. exact f1_witness_unfixed. Qed.

Theorem C15_ext_F1_fixed :
  set_extension (mkHdr false 96 1 2 3 [] (Some (mkExt 48862 [31; 0; 0; 0]))) 2 [9] =
  Ok (mkHdr false 96 1 2 3 [] (Some (mkExt 48862 [32; 9; 0; 0]))).
Proof. exact f1_witness_fixed. Qed.

Theorem C15_ext_example :
  exists h', set_extension (mkHdr false 96 1 2 3 [] (Some (mkExt 48862 [18; 170; 187; 204; 0; 0; 32; 255]))) 1 [17; 34] = Ok h' /\
             get_extension h' 1 = Ok (Some [17; 34]) /\ get_extension h' 2 = Ok (Some [255]).
Proof. exact set_example. Qed.

(* ---- NACK bitmask packing ----
   pack_nack_pairs = sort_unstable + dedup + greedy (pid, blp) grouping; unpack_pairs = the loop of
   parse_nack_body.  The set of lost sequence numbers is preserved for every list of 16-bit numbers,
   including sets that straddle 65535 -> 0. *)
Theorem C15_nack_set : forall l, Forall u16 l ->
  forall y, In y (unpack_pairs (pack_nack_pairs l)) <-> In y l.
Proof. exact nack_set. Qed.

Theorem C15_nack_pairs_fit_u16 : forall l, Forall u16 l ->
  Forall (fun pb => u16 (fst pb) /\ u16 (snd pb)) (pack_nack_pairs l).
Proof. exact nack_pairs_u16. Qed.

Theorem C15_nack_nonempty : forall l, l <> [] -> pack_nack_pairs l <> [].
Proof. exact pack_nonempty. Qed.

Theorem C15_nack_wrap_example :
  pack_nack_pairs [65535; 0; 65534; 1; 16; 0] = [(0, 32769); (65534, 1)] /\
  unpack_pairs (pack_nack_pairs [65535; 0; 65534; 1; 16; 0]) = [0; 1; 16; 65534; 65535].
Proof. exact nack_wrap_example. Qed.

(* ---- RTX (RFC 4588) ---- wrapping then unwrapping restores sequence number, timestamp, marker and
   payload; CSRCs / header extension / padding are intentionally not carried (stated). *)
Theorem C15_rtx_roundtrip : forall original rtx_ssrc rtx_pt rtx_seq primary_ssrc primary_pt,
  u16 (h_seq (p_hdr original)) ->
  exists restored,
    unwrap_rtx (wrap_rtx original rtx_ssrc rtx_pt rtx_seq) primary_ssrc primary_pt = Some restored /\
    h_seq (p_hdr restored) = h_seq (p_hdr original) /\
    h_ts (p_hdr restored) = h_ts (p_hdr original) /\
    h_marker (p_hdr restored) = h_marker (p_hdr original) /\
    p_payload restored = p_payload original /\
    h_ssrc (p_hdr restored) = primary_ssrc /\ h_pt (p_hdr restored) = primary_pt /\
    h_csrcs (p_hdr restored) = [] /\ h_ext (p_hdr restored) = None /\ p_padlen restored = 0.
Proof. exact rtx_roundtrip. Qed.

Theorem C15_rtx_roundtrip_exact : forall original rtx_ssrc rtx_pt rtx_seq,
  u16 (h_seq (p_hdr original)) -> h_csrcs (p_hdr original) = [] -> h_ext (p_hdr original) = None ->
  p_padlen original = 0 ->
  unwrap_rtx (wrap_rtx original rtx_ssrc rtx_pt rtx_seq) (h_ssrc (p_hdr original)) (h_pt (p_hdr original)) = Some original.
Proof. exact rtx_roundtrip_exact. Qed.

Theorem C15_rtx_over_wire : forall original rtx_ssrc rtx_pt rtx_seq primary_ssrc primary_pt bs,
  wf_packet original -> u32 rtx_ssrc -> 0 <= rtx_pt < 128 -> u16 rtx_seq ->
  marshal_packet (wrap_rtx original rtx_ssrc rtx_pt rtx_seq) = Ok bs ->
  exists rtx restored,
    parse_packet bs = Ok rtx /\ unwrap_rtx rtx primary_ssrc primary_pt = Some restored /\
    h_seq (p_hdr restored) = h_seq (p_hdr original) /\ h_ts (p_hdr restored) = h_ts (p_hdr original) /\
    h_marker (p_hdr restored) = h_marker (p_hdr original) /\ p_payload restored = p_payload original.
Proof. exact rtx_over_wire. Qed.

Theorem C15_rtx_unwrap_short : forall rtx s pt, len (p_payload rtx) < 2 -> unwrap_rtx rtx s pt = None.
Proof. exact unwrap_short. Qed.

(* ---- receiver gap detection (DefaultRtpReceiverNackHandler) ---- *)
Theorem C15_gap_detect : forall last seq,
  u16 last -> u16 seq ->
  let diff := cast_u16 (seq - last) in
  1 < diff < 32768 ->
  let gap := diff - 1 in
  let skip := Z.max 0 (gap - MAX_RECEIVER_NACK_GAP) in
  gap_lost last seq = map (fun i => cast_u16 (last + 1 + skip + i)) (zrange (Z.to_nat (Z.min gap MAX_RECEIVER_NACK_GAP))).
Proof. exact gap_lost_spec. Qed.

Theorem C15_gap_detect_exact : forall last seq x,
  u16 last -> u16 seq -> u16 x ->
  1 < cast_u16 (seq - last) < 32768 -> cast_u16 (seq - last) - 1 <= MAX_RECEIVER_NACK_GAP ->
  (In x (gap_lost last seq) <-> 1 <= cast_u16 (x - last) < cast_u16 (seq - last)).
Proof. exact gap_lost_exact. Qed.

Theorem C15_gap_detect_length : forall last seq,
  u16 last -> u16 seq -> 1 < cast_u16 (seq - last) < 32768 ->
  len (gap_lost last seq) = Z.min (cast_u16 (seq - last) - 1) MAX_RECEIVER_NACK_GAP.
Proof. exact gap_lost_length. Qed.

Theorem C15_gap_step_emits : forall st seq ssrc lost st' over,
  nack_step st seq ssrc = (st', Some lost, over) ->
  lost = gap_lost (n_last_seq st) seq /\ 1 < cast_u16 (seq - n_last_seq st) < 32768 /\
  n_last_seq st' = seq /\ n_init st = true.
Proof. exact nack_step_emits. Qed.

(* ---- RTCP compound packets ----
   valid x = valid_fields x && fits x is an explicit boolean (Proofs/RtcpProofs.v): Rust field ranges; at most 31
   report blocks / SDES chunks / BYE sources; packets_lost in [-2^23, 2^23); SDES item type 1..255 and text
   <= 255 bytes of clean UTF-8; BYE reason <= 255 bytes of clean UTF-8; non-empty NACK list; REMB bitrate < 2^64
   with <= 255 SSRCs; TWCC reference time < 2^24 and payload length a multiple of 4; encoding <= 2^18 bytes.
   canon is the identity except NACK (lost list becomes sorted / de-duplicated: same set, C15_rtcp_canon_nack)
   and REMB (bits below the 18-bit mantissa are cleared by the format, C15_remb_trunc). *)
Theorem C15_rtcp_roundtrip : forall xs,
  forallb valid xs = true ->
  exists bs, marshal_rtcp xs = Ok bs /\ parse_rtcp bs = Ok (map canon xs).
Proof. exact rtcp_roundtrip. Qed.

Theorem C15_rtcp_roundtrip_one : forall x,
  valid x = true -> exists bs, marshal_rtcp [x] = Ok bs /\ parse_rtcp bs = Ok [canon x].
Proof. exact rtcp_roundtrip_one. Qed.

Theorem C15_rtcp_compound_is_concat : forall xs ys bx by_,
  marshal_rtcp xs = Ok bx -> marshal_rtcp ys = Ok by_ -> marshal_rtcp (xs ++ ys) = Ok (bx ++ by_).
Proof. exact marshal_compound. Qed.

Theorem C15_rtcp_canon_id : forall x,
  match x with NACK _ _ _ | REMB _ _ _ => True | _ => canon x = x end.
Proof. exact canon_id. Qed.

Theorem C15_rtcp_canon_nack : forall s m l,
  Forall u16 l -> exists l', canon (NACK s m l) = NACK s m l' /\ forall y, In y l' <-> In y l.
Proof. exact canon_nack_set. Qed.

Theorem C15_rtcp_canon_remb_exact : forall s br ss,
  0 <= br <= 262143 -> canon (REMB s br ss) = REMB s br ss.
Proof. exact canon_remb. Qed.

(* REMB is lossy by format (not a defect): the decoded value is br with the bits below the mantissa cleared *)
Theorem C15_remb_trunc : forall br,
  0 <= br < 18446744073709551616 ->
  exists e, 0 <= e <= 64 /\ remb_decoded br = 2 ^ e * (br / 2 ^ e) /\
            remb_decoded br <= br < remb_decoded br + 2 ^ e /\ br / 2 ^ e <= 262143 /\
            (br <= 262143 -> remb_decoded br = br).
Proof. exact remb_truncation. Qed.

(* 24-bit signed packets_lost: sign extension on parse inverts the encoding on the whole range *)
Theorem C15_rtcp_packets_lost : forall x,
  - 8388608 <= x < 8388608 -> exists b5 b6 b7, lost24 x = [b5; b6; b7] /\ sext24 b5 b6 b7 = x.
Proof. exact lost24_sext. Qed.

(* finding F12 (fixed in /repo 3fd9cb1, 106552b): what does not fit the wire fields is refused, not emitted *)
Theorem C15_rtcp_refuses_counts :
  (forall s nm nl ts pc oc bl, 31 < len bl -> marshal_one (SR s nm nl ts pc oc bl) = Err EInvalidRtcp) /\
  (forall s bl, 31 < len bl -> marshal_one (RR s bl) = Err EInvalidRtcp) /\
  (forall ch, 31 < len ch -> marshal_one (SDES ch) = Err EInvalidRtcp) /\
  (forall so r, 31 < len so -> marshal_one (BYE so r) = Err EInvalidRtcp) /\
  (forall s br ss, 255 < len ss -> marshal_one (REMB s br ss) = Err EInvalidRtcp) /\
  (forall s m, marshal_one (NACK s m []) = Err EInvalidRtcp).
Proof. exact marshal_refuses_counts. Qed.

Theorem C15_rtcp_refuses_long_sdes_item : forall ssrc ty text,
  255 < len text -> marshal_one (SDES [mkChunk ssrc [mkItem ty text]]) = Err EInvalidRtcp.
Proof. exact marshal_refuses_long_item. Qed.

Theorem C15_rtcp_ascii_text_is_clean : forall t, Forall (fun b => 0 <= b < 128) t -> utf8_lossy t = t.
Proof. exact ascii_clean. Qed.

(* open finding F26 (known_findings.d/C15.jsonl, class twcc_unaligned_payload): an opaque TWCC payload whose
   length is not a multiple of 4 is zero-padded without the RTCP padding bit, so it comes back longer; this is why
   valid demands `len payload mod 4 = 0` *)
Theorem C15_rtcp_twcc_unaligned_refuted :
  valid_fields (TWCC 1 2 3 1 5 0 [32; 0; 0; 0]) = true /\
  exists bs, marshal_rtcp [twcc_witness] = Ok bs /\ parse_rtcp bs = Ok [TWCC 1 2 3 1 5 0 [32; 0; 0; 0]] /\
             parse_rtcp bs <> Ok [twcc_witness].
Proof. exact twcc_unaligned_refuted. Qed.

(* satisfiability: one compound with every packet type at its boundary values is valid and round-trips *)
Theorem C15_rtcp_example :
  forallb valid example_compound = true /\
  exists bs, marshal_rtcp example_compound = Ok bs /\ parse_rtcp bs = Ok (map canon example_compound).
Proof. exact example_compound_ok. Qed.

(* parse_rtcp_packets never panics, on any byte string (every sub-parser, the compound walk, padding handling;
   fuel exhaustion counts as Panic, so this includes termination) *)
Theorem C15_rtcp_parse_total : forall raw, bytes raw -> parse_rtcp raw <> Panic.
Proof. exact parse_rtcp_total. Qed.
