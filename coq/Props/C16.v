(* C16 -- STUN/TURN messages and ICE priorities conform to the RFCs.
   Statements only; every proof is `exact <lemma of Proofs/*>`. *)
From Coq Require Import ZArith List Bool.
From RV Require Import Lib.Wrap.
From RV Require Import Gen.Consts.
From RV Require Import Gen.IcePrio.
From RV Require Import Gen.StunCodes.
From RV Require Import Model.StunLib.
From RV Require Import Model.Stun.
From RV Require Import Proofs.IcePrioProofs.
From RV Require Import Proofs.StunProofs.
From RV Require Import Gen.IceCandStr.
From RV Require Import Model.Candidate.
From RV Require Import Proofs.CandidateProofs.
From RV Require Import Gen.TurnConsts.
From RV Require Import Model.Turn.
From RV Require Import Proofs.TurnProofs.
Import ListNotations.
Open Scope Z_scope.

(* ------------------------------------------------------------------ pair priority *)
(* the pair priority an agent computes with its own role from (local, remote) equals the one its
   peer computes with the opposite role from the swapped pair -- for all integers, hence for all
   32-bit priorities, including the saturating arithmetic of the implementation *)
Theorem C16_pair_symmetry : forall l r,
  pair_priority l r IceRole_Controlling = pair_priority r l IceRole_Controlled.
Proof. exact pair_symmetry. Qed.

(* hence the two agents hold element-wise identical sort keys for mirrored pair lists, and every
   comparison between two pairs has the same outcome on both sides: they order pairs identically *)
Theorem C16_pair_keys_agree : forall ps, keys_controlling ps = keys_controlled_mirrored ps.
Proof. exact pair_keys_agree. Qed.

Theorem C16_pair_order_agree : forall a1 b1 a2 b2,
  (pair_priority a1 b1 IceRole_Controlling ?= pair_priority a2 b2 IceRole_Controlling) =
  (pair_priority b1 a1 IceRole_Controlled ?= pair_priority b2 a2 IceRole_Controlled).
Proof. exact pair_order_agree. Qed.

(* the value is RFC 8445 6.1.2.3  2^32*MIN(G,D) + 2*MAX(G,D) + (G>D ? 1 : 0), saturated at u64::MAX *)
Theorem C16_pair_priority_value : forall l r role, u32 l -> u32 r ->
  pair_priority l r role = Z.min U64_MAX (rfc_pair_for l r role).
Proof. exact pair_priority_value. Qed.

(* exactly the RFC value unless both priorities are u32::MAX (the only pair whose RFC value
   does not fit 64 bits) ... *)
Theorem C16_priority_formula : forall l r role, u32 l -> u32 r ->
  ~ (l = U32_MAX /\ r = U32_MAX) -> pair_priority l r role = rfc_pair_for l r role.
Proof. exact pair_priority_formula. Qed.

Theorem C16_pair_overflow_iff : forall g d, u32 g -> u32 d ->
  (U64_MAX < rfc_pair g d <-> g = U32_MAX /\ d = U32_MAX).
Proof. exact rfc_pair_overflow_iff. Qed.

(* ... in particular for all priorities in the RFC 8445 range 1 .. 2^31-1 *)
Theorem C16_priority_formula_rfc_range : forall l r role,
  1 <= l <= 2 ^ 31 - 1 -> 1 <= r <= 2 ^ 31 - 1 -> pair_priority l r role = rfc_pair_for l r role.
Proof. exact pair_priority_formula_rfc_range. Qed.

(* the implemented order never contradicts the RFC order *)
Theorem C16_pair_priority_monotone : forall l1 r1 l2 r2 role, u32 l1 -> u32 r1 -> u32 l2 -> u32 r2 ->
  rfc_pair_for l1 r1 role <= rfc_pair_for l2 r2 role ->
  pair_priority l1 r1 role <= pair_priority l2 r2 role.
Proof. exact pair_priority_monotone. Qed.

(* ------------------------------------------------------------------ candidate priority *)
(* RFC 8445 5.1.2.1: 2^24*type-pref + 2^8*local-pref + (256 - component), with the RECOMMENDED
   type preferences 126/110/100/0, local preference 65535 (UDP) resp. 65535/65534/65533
   (TCP passive/active/so); components above 256 are clamped to 256 *)
Theorem C16_candidate_priority_formula : forall t c, 1 <= c < 2 ^ 16 ->
  priority_for t c = rfc_cand_priority (rfc_type_pref t) 65535 (Z.min c 256).
Proof. exact priority_for_formula. Qed.

Theorem C16_candidate_priority_tcp_formula : forall t c k, 1 <= c < 2 ^ 16 ->
  priority_for_tcp t c k = rfc_cand_priority (rfc_type_pref t) (tcp_local_pref k) (Z.min c 256).
Proof. exact priority_for_tcp_formula. Qed.

Theorem C16_candidate_priority_range : forall t c, 1 <= c < 2 ^ 16 -> 1 <= priority_for t c <= 2 ^ 31 - 1.
Proof. exact priority_for_range. Qed.

Theorem C16_candidate_priority_tcp_range : forall t c k, 1 <= c < 2 ^ 16 ->
  1 <= priority_for_tcp t c k <= 2 ^ 31 - 1.
Proof. exact priority_for_tcp_range. Qed.

(* ------------------------------------------------------------------ STUN messages
   `mac` is HMAC-SHA1 as an explicit function argument; the only thing assumed about it is that
   it returns 20 bytes (mac20).  CRC-32 is concrete.  wf_msg states the ranges Rust's types give
   (u8/u16/u32/u64 fields, 12-byte transaction id, 4/16-octet addresses, UTF-8 strings) and that
   every attribute value is shorter than 2^16 bytes. *)

(* the bytes are: 20-byte header (type, length, magic cookie, transaction id) followed by one
   TLV per attribute, in order, each value zero-padded to a multiple of four, then
   MESSAGE-INTEGRITY (if a key is given), then FINGERPRINT (if requested) -- MI precedes FP;
   MI = mac key (header with length counting MI ++ attributes), FP = crc32 (header with length
   counting FP ++ everything before) xor FINGERPRINT_XOR  (definitions of layout / all_chunks) *)
Theorem C16_encode_layout : forall mac m key fp, wf_msg m -> mac20 mac ->
  encode mac m key fp = layout mac m key fp.
Proof. exact encode_layout. Qed.

(* header length field = total - 20, total length a multiple of four *)
Theorem C16_length_field : forall mac m key fp, wf_msg m -> mac20 mac ->
  let out := encode mac m key fp in
  zlen out mod 4 = 0 /\
  (zlen out < 65556 -> of_be16 (byte_at out 2) (byte_at out 3) = zlen out - 20).
Proof. exact encode_length_field. Qed.

(* RFC 5389 15.4 in the verifier's terms, for any key (short-term password or long-term MD5 key) *)
Theorem C16_integrity : forall mac m k fp, wf_msg m -> mac20 mac ->
  let out := encode mac m (Some k) fp in
  let off := Z.to_nat (20 + zlen (cbs (attr_chunks m))) in
  firstn 24 (skipn off out) =
    be16 ATTR_MESSAGE_INTEGRITY ++ be16 20
    ++ mac k (write_length_field (firstn off out) (Z.of_nat off + 24 - 20)).
Proof. exact encode_integrity. Qed.

(* RFC 5389 15.5: the last 8 bytes are FINGERPRINT = crc32(everything before) xor 0x5354554e *)
Theorem C16_fingerprint : forall mac m key, wf_msg m -> mac20 mac ->
  let out := encode mac m key true in
  let off := Z.to_nat (zlen out - 8) in
  skipn off out =
    be16 ATTR_FINGERPRINT ++ be16 4 ++ be32 (Z.lxor (crc32 (firstn off out)) FINGERPRINT_XOR).
Proof. exact encode_fingerprint. Qed.

(* XOR-MAPPED / XOR-PEER / XOR-RELAYED share parse_xor_address; IPv4 and IPv6 *)
Theorem C16_xor_involution : forall a txid, wf_addr a -> length txid = 12%nat ->
  parse_xor_address (xor_value a txid) txid = Some a.
Proof. exact xor_involution. Qed.

(* decode (encode m) returns the same class, method, transaction id and, for every attribute
   kind the decoder exposes, the value of its last occurrence in m (definition of expected);
   for every method x class x attribute list, key and fingerprint choice *)
Theorem C16_roundtrip : forall mac m key fp, wf_msg m -> mac20 mac ->
  zlen (encode mac m key fp) < 65556 ->
  decode (encode mac m key fp) = DOk (expected m).
Proof. exact decode_encode. Qed.

(* ------------------------------------------------------------------ candidate lines
   token-level model of to_sdp / from_sdp (after fix 8622dc2, F14).  wf_cand: the foundation does
   not start with "candidate:", u16/u32 ranges, scope id 0, and a tcptype only on a candidate whose
   transport lower-cases to "tcp".  norm lower-cases the transport and drops the related address of
   a host candidate (to_sdp does not print it) -- nothing else changes, for every type, transport,
   tcptype, component and address family, with or without related address *)
Theorem C16_candidate_roundtrip : forall c, wf_cand c -> from_tokens (to_tokens c) = Some (norm c).
Proof. exact candidate_roundtrip. Qed.

(* to_sdp (from_sdp (to_sdp c)) = to_sdp c *)
Theorem C16_candidate_print_stable : forall c, wf_cand c ->
  option_map to_tokens (from_tokens (to_tokens c)) = Some (to_tokens c).
Proof. exact candidate_print_roundtrip. Qed.

(* decimal fields: u16/u32::from_str (parse_uint) inverts Display (show_num) on the whole range *)
Theorem C16_number_roundtrip : forall max n, 0 <= n <= max -> max < 10 ^ 20 ->
  parse_uint max (show_num n) = Some n.
Proof. exact parse_show. Qed.

(* ------------------------------------------------------------------ TURN long-term credentials
   `hash` is MD5 as an explicit function argument.  The authenticated Allocate request that
   TurnClient::allocate sends after the 401 challenge carries MESSAGE-INTEGRITY computed under
   MD5(user ":" realm ":" pass) over the message up to MI (RFC 5389 15.4 / RFC 5766) *)
Theorem C16_turn_allocate_integrity : forall mac hash txid user realm nonce pass,
  mac20 mac -> wf_txid txid -> wf_text user -> wf_text realm -> wf_text nonce ->
  let out := allocate_auth_bytes mac hash txid user realm nonce pass in
  let off := Z.to_nat (20 + zlen (cbs (attr_chunks (allocate_auth txid user realm nonce)))) in
  firstn 24 (skipn off out) =
    be16 ATTR_MESSAGE_INTEGRITY ++ be16 20
    ++ mac (hash (user ++ [58] ++ realm ++ [58] ++ pass))
           (write_length_field (firstn off out) (Z.of_nat off + 24 - 20)).
Proof. exact turn_allocate_integrity. Qed.

Theorem C16_turn_allocate_decodes : forall mac hash txid user realm nonce pass,
  mac20 mac -> wf_txid txid -> wf_text user -> wf_text realm -> wf_text nonce ->
  zlen (allocate_auth_bytes mac hash txid user realm nonce pass) < 65556 ->
  exists d, decode (allocate_auth_bytes mac hash txid user realm nonce pass) = DOk d /\
    d_method d = StunMethod_Allocate /\ d_class d = StunClass_Request /\ d_txid d = txid /\
    d_realm d = Some realm /\ d_nonce d = Some nonce /\ d_lifetime d = Some DEFAULT_TURN_LIFETIME.
Proof. exact turn_allocate_decodes. Qed.

(* the Allocate retry loop, for every sequence of server challenges (and any retry bound): request
   n+1 is the authenticated Allocate built from challenge n -- REALM, NONCE and the key
   hash(user ":" realm_n ":" pass) all come from that challenge, never from an earlier one *)
Theorem C16_turn_key_follows_realm : forall mac hash user pass fuel info txids resps i req,
  nth_error (alloc_loop mac hash user pass fuel info txids resps) (S i) = Some req ->
  exists realm nonce tx,
    nth_error resps i = Some (Some (realm, nonce)) /\ nth_error txids (S i) = Some tx /\
    req = allocate_auth_bytes mac hash tx user realm nonce pass.
Proof. exact alloc_loop_key. Qed.

Theorem C16_turn_retry_integrity : forall mac hash user pass txids resps i req realm nonce,
  mac20 mac -> Forall wf_txid txids -> wf_text user -> wf_text realm -> wf_text nonce ->
  nth_error (allocate_requests mac hash user pass txids resps) (S i) = Some req ->
  nth_error resps i = Some (Some (realm, nonce)) ->
  exists tx, nth_error txids (S i) = Some tx /\
    req = allocate_auth_bytes mac hash tx user realm nonce pass /\
    let off := Z.to_nat (20 + zlen (cbs (attr_chunks (allocate_auth tx user realm nonce)))) in
    firstn 24 (skipn off req) =
      be16 ATTR_MESSAGE_INTEGRITY ++ be16 20
      ++ mac (hash (user ++ [58] ++ realm ++ [58] ++ pass))
             (write_length_field (firstn off req) (Z.of_nat off + 24 - 20)).
Proof. exact turn_retry_integrity. Qed.

(* ------------------------------------------------------------------ channels and ChannelData *)
(* channel numbers handed out by create_channel_bind_packet stay in 0x4000..0x7FFF forever ... *)
Theorem C16_channel_range : forall k next, chan_ok next -> Forall chan_ok (chan_seq k next).
Proof. exact chan_seq_range. Qed.
(* ... and the first 16384 of a client are pairwise distinct *)
Theorem C16_channel_distinct : forall k, Z.of_nat k <= 16384 -> NoDup (chan_seq k CHANNEL_FIRST).
Proof. exact chan_seq_distinct. Qed.

(* RFC 5766 11.4: channel number, length = payload length, payload; an RFC reader gets channel and
   payload back whatever padding follows; the first byte (0x40..0x7F) separates it from STUN *)
Theorem C16_channeldata : forall ch d pad, chan_ok ch -> zlen d < 65536 ->
  parse_channel_data (channel_data ch d ++ pad) = Some (ch, d) /\
  zlen (channel_data ch d) = 4 + zlen d /\
  64 <= byte_at (channel_data ch d) 0 < 128.
Proof. exact channeldata_roundtrip. Qed.

(* transport framing: UDP sends the message as the datagram; TCP sends a 16-bit length and then the
   unchanged, unpadded message *)
Theorem C16_turn_tcp_send_shape : forall m, zlen m < 65536 ->
  skipn 2 (tcp_send m) = m /\ of_be16 (byte_at (tcp_send m) 0) (byte_at (tcp_send m) 1) = zlen m.
Proof. exact tcp_send_shape. Qed.

(* listed finding turn_tcp_length_prefix (open): that prefix is not RFC 5389 7.2.2 / RFC 5766 framing --
   a standard TURN server does not find the request, and ChannelData over TCP is not padded to four *)
Theorem C16_turn_tcp_prefix_refuted :
  (let m := allocate_plain_bytes (fun _ _ => repeat 0 20) tcp_witness_txid in
   rfc_tcp_first m = Some m /\ rfc_tcp_first (tcp_send m) <> Some m) /\
  (let c := channel_data 16384 [1; 2; 3; 4; 5] in
   parse_channel_data c = Some (16384, [1; 2; 3; 4; 5]) /\ rfc_tcp_first (tcp_send c) <> Some c /\
   (zlen (tcp_send c) - 2) mod 4 <> 0).
Proof. exact turn_tcp_prefix_refuted. Qed.
