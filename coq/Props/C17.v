(* C17 -- closing or losing a connection at any moment ends it cleanly and visibly.
   Statements only; every proof is `exact <lemma of Proofs/LifecycleThms.v>`.
   The model (Model/Lifecycle.v) is the state logic of close / Drop / the connection-state task / the SCTP
   cleanup guard / the flow-control wait loop; "at any moment" is "after any sequence of events".
   Release of tasks and sockets and promptness of returns are runtime behaviour: explored by the harness. *)
From Coq Require Import ZArith List Bool.
From RV Require Import Gen.LifecycleGen Model.Lifecycle Proofs.LifecycleProofs Proofs.LifecycleThms.
Import ListNotations.
Open Scope nat_scope.

(* the published disconnect reason is never replaced: from any state, through any further events *)
Theorem C17_reason_once : forall s evs r, reason s = Some r -> reason (run s evs) = Some r.
Proof. exact reason_once. Qed.

(* close() on a connection with no reason yet publishes the SCTP-specific reason if the association had
   already died of something, else LocalClose *)
Theorem C17_reason_set_by_close : forall s, reason s = None -> sig s <> SignalingState_Closed ->
  reason (step s Close) =
    Some (match sctp_reason s with Some x => x | None => DisconnectReason_LocalClose end).
Proof. exact reason_set_by_close. Qed.

(* after close(), wherever it lands (any event history before it): peer, ICE and signaling state are Closed,
   a reason is published, nothing that happens later changes any of the four, and a second close() changes
   nothing at all (full state) *)
Theorem C17_close_is_terminal_and_idempotent : forall w evs1 evs2,
  let s := run (init w) evs1 in
  let s' := step s Close in
  (peer s' = PeerConnectionState_Closed /\ ice s' = IceConnectionState_Closed /\ sig s' = SignalingState_Closed
   /\ exists r, reason s' = Some r)
  /\ core (run s' evs2) = core s'
  /\ step s' Close = s'.
Proof. exact close_terminal_idempotent. Qed.

(* the same for dropping the last handle, unless start_dtls still holds its own strong reference
   (then Drop only runs once the handshake has ended: see C17_terminal_table, row [Drop; DtlsFail]) *)
Theorem C17_drop_is_terminal : forall w evs1 evs2,
  let s := run (init w) evs1 in
  task s <> TStarting ->
  let s' := step s Drop in
  (peer s' = PeerConnectionState_Closed /\ ice s' = IceConnectionState_Closed /\ sig s' = SignalingState_Closed
   /\ exists r, reason s' = Some r)
  /\ core (run s' evs2) = core s'
  /\ task s' = TExited.
Proof. exact drop_terminal. Qed.

(* no channel ever observes two Close events; in the step in which an association's cleanup guard runs, or
   in which the connection is closed, every channel that exists has observed exactly one, and it still has
   exactly one after any further events (none afterwards) *)
Theorem C17_close_exactly_once : forall w evs1,
  let s := run (init w) evs1 in
  Forall (fun c => c_closes c <= 1) (chans s)
  /\ forall e, (guards (step s e) <> guards s \/ (sig s <> SignalingState_Closed /\ sig (step s e) = SignalingState_Closed)) ->
       let s' := step s e in
       Forall (fun c => c_closes c = 1) (chans s')
       /\ forall evs2 k c, nth_error (chans s') k = Some c ->
            exists c', nth_error (chans (run s' evs2)) k = Some c' /\ c_closes c' = 1.
Proof. exact close_exactly_once. Qed.

(* a sender parked in the flow-control wait loop when the association is closed -- by whatever closed it --
   returns the error as soon as the run loop has taken its exit and the sender is polled *)
Theorem C17_blocked_sender_released : forall w evs r n,
  let s := run (init w) evs in
  sender s = SdParked r n -> sctp_is_closed s = true ->
  sender (run s [SctpLoop; SenderPoll]) = SdErr.
Proof. exact blocked_sender_released. Qed.

(* which terminating event ends in which reported state with which reason, at the phases where it applies,
   for every interleaving of the implementation's own reactions (finite table, listed in LifecycleThms.v) *)
Theorem C17_terminal_table : forall p evs a s,
  In (p, evs, a) terminal_table -> In s (outcomes p [evs]) -> visible_end s = true /\ pr_in s a = true.
Proof. exact terminal_table_holds. Qed.

(* two terminating events racing: still a visible end, still exactly one Close on the channel *)
Theorem C17_races_end_visibly : forallb (fun a => forallb (race_ok a) racers) racers = true.
Proof. exact races_end_visibly. Qed.

(* close while connecting or connected: the connection-state task reaches its exit after at most two
   observations (DTLS, ICE), from wherever it was *)
Theorem C17_state_task_exits_after_close : forall w evs,
  let s := step (run (init w) evs) Close in
  task (run s [ObsDtls; ObsIce]) = TExited.
Proof. exact state_task_exits_after_close. Qed.

(* once the state task has exited, only the application (close / drop / signalling calls) changes what is reported *)
Theorem C17_exited_task_is_silent : forall s e, task s = TExited -> is_app e = false -> core (step s e) = core s.
Proof. exact exited_task_is_silent. Qed.
