(* C18 -- RTP latching locks onto a legitimate source and then stays put.
   Statements only; every proof is `exact <lemma of Proofs/LatchProofs.v>`. *)
From Coq Require Import ZArith List Bool.
From RV Require Import Model.Latch Proofs.LatchProofs.
Import ListNotations.
Open Scope Z_scope.

(* every state reachable from a fresh IceConn by well-formed operations satisfies Inv *)
Theorem C18_inv_reachable : forall a ops, Forall wf_op ops -> Inv (run (init a) ops).
Proof. exact inv_reachable. Qed.

(* once committed, no packet from any address (RTP, RTCP, wrong SSRC, anything), no selected-pair
   update and no other non-resetting operation, in any number and order, moves the RTP destination *)
Theorem C18_sticky : forall ops s,
  Inv s -> rtp_latched s = true -> Forall wf_op ops -> Forall (fun o => resets o = false) ops ->
  remote (run s ops) = remote s /\ rtp_latched (run s ops) = true.
Proof. exact sticky_run. Qed.

(* whenever a received packet moves the RTP destination (a signalled address being present), the
   new destination is the source of an RTP packet with the expected SSRC received since the last
   reset -- for every operation history from a fresh connection *)
Theorem C18_legit : forall a ops, legit_run (init a, []) ops.
Proof. exact legit_from_init. Qed.

Theorem C18_legit_step : forall s src pkt,
  port (remote s) <> 0 -> remote (recv s src pkt) <> remote s ->
  accepted s pkt = true /\
  (remote (recv s src pkt) = src \/
   exists p c, probation s = Some p /\ In c (p_cands p) /\ c_addr c = remote (recv s src pkt)).
Proof. exact legit_step. Qed.

(* RTCP, wrong-SSRC RTP and every other packet that is not expected-SSRC RTP leave the RTP
   destination, the latch flag and the probation state untouched *)
Theorem C18_other_traffic_inert : forall s src pkt,
  port (remote s) <> 0 -> accepted s pkt = false ->
  remote (recv s src pkt) = remote s /\ rtp_latched (recv s src pkt) = rtp_latched s /\
  probation (recv s src pkt) = probation s.
Proof. exact recv_not_accepted. Qed.

Theorem C18_rtcp_not_accepted : forall s pkt, pkt_is_rtcp pkt = true -> accepted s pkt = false.
Proof. exact rtcp_not_accepted. Qed.

Theorem C18_wrong_ssrc_not_accepted : forall s pkt,
  expected s <> 0 -> pkt_ssrc pkt <> expected s -> accepted s pkt = false.
Proof. exact wrong_ssrc_not_accepted. Qed.

(* commit happens at or before the max-th probation packet: the counter counts accepted packets
   one by one, stays below max while probation is open (Inv), and the packet that reaches max commits *)
Theorem C18_probation_bound : forall s p src pkt,
  Inv s -> port src <> 0 -> probation s = Some p -> accepted s pkt = true ->
  p_max p <= p_total p + 1 -> rtp_latched (recv s src pkt) = true.
Proof. exact probation_bound. Qed.

Theorem C18_probation_counts : forall s p src pkt p',
  Inv s -> probation s = Some p -> accepted s pkt = true ->
  probation (recv s src pkt) = Some p' -> p_total p' = p_total p + 1 /\ p_max p' = p_max p.
Proof. exact probation_counts. Qed.

(* the committed destination is the winner of the documented rules (marker start / timeout
   majority with lowest first sequence / consecutive run), stated declaratively in spec_winner *)
Theorem C18_commit_is_winner : forall s p src pkt,
  probation s = Some p -> accepted s pkt = true -> rtp_latched (recv s src pkt) = true ->
  let p' := mkProb (observe (p_cands p) src (pkt_seq pkt) (pkt_ts pkt) (pkt_marker pkt))
                   (Lib.Wrap.sat_u8 (p_total p + 1)) (p_max p) in
  spec_winner p' (remote (recv s src pkt)) /\ probation (recv s src pkt) = None.
Proof. exact commit_is_winner. Qed.

(* RTCP arrivals can only set the RTCP destination, and only once *)
Theorem C18_rtcp_once : forall s src pkt,
  rtcp_remote (recv s src pkt) <> rtcp_remote s ->
  pkt_is_rtcp pkt = true /\ rtcp_latched s = false /\ rtcp_latched (recv s src pkt) = true /\
  rtcp_remote (recv s src pkt) = Some src.
Proof. exact rtcp_once. Qed.

Theorem C18_rtcp_sticky : forall s src pkt,
  rtcp_latched s = true ->
  rtcp_remote (recv s src pkt) = rtcp_remote s /\ rtcp_latched (recv s src pkt) = true.
Proof. exact rtcp_sticky_step. Qed.

(* listed finding (known_findings.d/C18.jsonl, class port0_adopt): with no signalled address
   (port 0) an RTCP packet from a stranger becomes the RTP destination although latching is on
   and an SSRC is expected -- so the hypothesis `port (remote s) <> 0` above cannot be dropped *)
Theorem C18_port0_adopt_refuted :
  exists s src pkt, latch_on s = true /\ expected s <> 0 /\ port src <> 0 /\ pkt_is_rtcp pkt = true /\
                    remote s <> src /\ remote (recv s src pkt) = src.
Proof. exact port0_adopt_witness. Qed.
