(* C19 -- inbound RTP reaches only the right receiver; bridged streams stay continuous.
   Statements only; every proof is `exact <lemma of Proofs/DemuxProofs.v / Proofs/BridgeProofs.v>`. *)
From Coq Require Import ZArith List Bool.
From RV Require Import Lib.Wrap.
From RV Require Import Gen.RtpDemux.
From RV Require Import Model.Demux.
From RV Require Import Proofs.DemuxProofs.
From RV Require Import Gen.RtpBridge.
From RV Require Import Model.Bridge.
From RV Require Import Proofs.BridgeProofs.
From RV Require Model.RtpLib.
From RV Require Model.Rtp.
Import ListNotations.
Open Scope Z_scope.

(* ================================================================== demultiplexer *)

(* every operation of every history hands the packet to at most one listener *)
Theorem C19_at_most_one : forall ops s, Forall (fun d => (length d <= 1)%nat) (run_out s ops).
Proof. exact run_at_most_one. Qed.

(* the listener that gets the packet is the selected one, its channel is open and has room *)
Theorem C19_receiver_is_selected : forall s p l,
  In l (snd (recv s p)) ->
  exists g b, select s p = Some (l, g, b) /\ is_closed s l = false /\ is_full s l = false.
Proof. exact recv_delivers. Qed.

(* the selection is exactly: RID, else MID, else SSRC map, else the unique listener of the payload
   type, else the single provisional listener (`chosen` spells the order out declaratively, with
   "unique" meaning: some route qualifies and all qualifying routes are on the same channel);
   RID / MID / payload-type hits bind the SSRC, SSRC-map and provisional hits do not; and a hit of
   the SSRC / payload-type / provisional stages on a listener registered for another MID than the
   packet carries (`foreign`) is discarded: the packet is dropped *)
Theorem C19_priority : forall s p l g b,
  select s p = Some (l, g, b) <-> chosen s p l g /\ b = stage_binds g /\ foreign s p l g = false.
Proof. exact select_priority. Qed.

Theorem C19_priority_none : forall s p,
  select s p = None <->
  (rid_match s p = None /\ mid_match s p = None /\ ssrc_match s p = None /\
   (forall l, ~ pt_unique s p l) /\ (forall l, ~ prov_unique s l))
  \/ (exists l g, chosen s p l g /\ foreign s p l g = true).
Proof. exact select_none. Qed.

(* unique_by_pt / single_provisional (a one-pass scan) compute the declarative "unique listener" *)
Theorem C19_unique_scan : forall want rs l,
  scan_unique want None rs = Some l <-> uniq_listener want rs l.
Proof. exact scan_unique_spec. Qed.

(* a packet whose MID names a registered section (and whose RID names nothing) goes to that
   section's listener and to no other; if that listener's channel is closed or full it is dropped *)
Theorem C19_mid_respected : forall s p m l,
  pkt_mid s p = Some m -> kget (by_mid s) m = Some l -> rid_match s p = None ->
  (forall l', In l' (snd (recv s p)) -> l' = l) /\
  (is_closed s l = false -> is_full s l = false -> snd (recv s p) = [l]) /\
  (is_closed s l = true \/ is_full s l = true -> snd (recv s p) = []).
Proof. exact mid_respected. Qed.

(* ... and "registered section" means what it says: over every history from a fresh transport the
   MID map only holds what register_mid_listener put there *)
Theorem C19_mid_section_registered : forall c ops m l,
  kget (by_mid (run (init_with c) ops)) m = Some l -> In (RegMid m l) ops.
Proof. exact mid_section_registered. Qed.

(* "dropped rather than handed to a receiver of another media section": a packet that names
   section m reaches a listener whose route is registered for another section m' only when its
   RID or MID itself selected that listener -- never through the SSRC map, a payload type or the
   provisional fallback (finding F27, fixed; the unfixed code did) *)
Theorem C19_mid_never_foreign : forall s p m l r m',
  pkt_mid s p = Some m -> In l (snd (recv s p)) ->
  In r (routes s) -> r_tx r = l -> r_mid r = Some m' -> m' <> m ->
  exists g b, select s p = Some (l, g, b) /\ (g = StRid \/ g = StMid).
Proof. exact mid_never_foreign. Qed.

(* every SSRC binding present after any history was created by register_listener_sync or by a
   packet of that SSRC selected through RID / MID / unique payload type -- never by the SSRC-map
   or provisional stages *)
Theorem C19_binding_sound : forall c ops x l,
  zget (by_ssrc (run (init_with c) ops)) x = Some l ->
  exists pre o post, ops = pre ++ o :: post /\ binds (run (init_with c) pre) o x l.
Proof. exact binding_sound_init. Qed.

Theorem C19_fallback_never_binds : forall s p l g b,
  select s p = Some (l, g, b) -> g = StSsrc \/ g = StProv ->
  b = false /\ forall e, In e (by_ssrc (fst (recv s p))) -> In e (by_ssrc s).
Proof. exact fallback_never_binds. Qed.

(* a closed listener never receives anything, in any continuation *)
Theorem C19_closed_never_receives : forall ops s l,
  is_closed s l = true -> ~ In l (concat (run_out s ops)).
Proof. exact closed_never_receives. Qed.

(* once a packet was routed to a closed listener, that listener is gone from every map and is
   never selected again, whatever follows, until it is registered again *)
Theorem C19_closed_never : forall s p l g b ops,
  select s p = Some (l, g, b) -> is_closed s l = true ->
  Forall (fun o => registers o l = false) ops ->
  let s' := fst (recv s p) in
  snd (recv s p) = [] /\ occurs (run s' ops) l = false /\
  (forall pre p' post g' b', ops = pre ++ Recv p' :: post -> select (run s' pre) p' <> Some (l, g', b')).
Proof. exact closed_never_again. Qed.

(* slow consumer / full channel: `receive` never blocks; the packet is dropped, it goes to nobody
   else, and the registry ends up exactly as if it had been delivered *)
Theorem C19_full_channel_drops : forall s p l g b,
  select s p = Some (l, g, b) -> is_closed s l = false ->
  let s1 := if b then bind_ssrc_route s (p_ssrc p) l else s in
  (is_full s l = true -> recv s p = (s1, [])) /\ (is_full s l = false -> recv s p = (s1, [l])).
Proof. exact full_drops. Qed.

(* what a consumer finds in its channel, after any history: packets in arrival order without
   duplicates (tags strictly increasing), at most `cap` of them, and no packet in two channels *)
Theorem C19_queue_fifo : forall c ops l, Sorted.StronglySorted Z.lt (queue (run (init_with c) ops) l).
Proof. exact queue_fifo. Qed.

Theorem C19_queue_one_listener : forall c ops l1 l2 t,
  In t (queue (run (init_with c) ops) l1) -> In t (queue (run (init_with c) ops) l2) -> l1 = l2.
Proof. exact queue_tag_one_listener. Qed.

Theorem C19_queue_bounded : forall c ops l, 0 <= c -> qlen (run (init_with c) ops) l <= c.
Proof. exact queue_bounded. Qed.

(* after clear_listeners nobody is registered: every packet is dropped until something registers
   (on the unfixed tree the MID map survived -- finding F-C19-1, fixed) *)
Theorem C19_clear_drops_all : forall s p,
  select (clear_listeners s) p = None /\ recv (clear_listeners s) p = (clear_listeners s, []) /\
  forall l, occurs (clear_listeners s) l = false.
Proof. exact clear_drops_all. Qed.

(* two routes on different channels claim the payload type and nothing else identifies the packet:
   it is not routed by payload type; only a single provisional listener can still get it (without
   binding), otherwise it is dropped and nothing changes *)
Theorem C19_ambiguous_pt : forall s p r1 r2,
  In r1 (routes s) -> In r2 (routes s) ->
  has_pt (p_pt p) r1 = true -> has_pt (p_pt p) r2 = true -> r_tx r1 <> r_tx r2 ->
  rid_match s p = None -> mid_match s p = None -> ssrc_match s p = None ->
  (forall l g b, select s p = Some (l, g, b) -> g = StProv /\ b = false /\ prov_unique s l) /\
  ((forall l, ~ prov_unique s l) -> recv s p = (s, [])).
Proof. exact ambiguous_pt. Qed.

Theorem C19_ambiguous_pt_dropped : forall s p r1 r2,
  In r1 (routes s) -> In r2 (routes s) ->
  has_pt (p_pt p) r1 = true -> has_pt (p_pt p) r2 = true -> r_tx r1 <> r_tx r2 ->
  rid_match s p = None -> mid_match s p = None -> ssrc_match s p = None ->
  (forall r, In r (routes s) -> r_prov r = false) ->
  recv s p = (s, []).
Proof. exact ambiguous_pt_dropped. Qed.

(* ================================================================== rewrite bridge
   btrace b ins = for every arriving packet (with the random draws a new stream would use) the
   forwarded packet; of_src x = the part of it that belongs to source SSRC x.  All statements hold
   for every bridge configuration, every rule table, every interleaving and every packet list. *)

(* one source SSRC, one output SSRC -- for ever; for a new stream it is the SSRC the rule matching
   its first packet gives (fixed, or source + offset mod 2^32, or the source SSRC with no rule) *)
Theorem C19_bridge_stable : forall ins b x,
  exists o,
    Forall (fun e => q_ssrc (snd e) = o) (of_src x (btrace b ins)) /\
    match sget (b_streams b) x, of_src x (btrace b ins) with
    | Some ss, _ => o = out_ssrc ss
    | None, e :: _ => o = out_ssrc0 (b_rules b) (i_pkt (fst e))
    | None, [] => True
    end.
Proof. exact bridge_stable. Qed.

(* the payload type of every forwarded packet is the matched rule's (or unchanged) *)
Theorem C19_bridge_pt : forall ins b,
  Forall (fun e => q_pt (snd e) = out_pt_of (b_rules b) (q_pt (i_pkt (fst e)))) (btrace b ins).
Proof. exact bridge_pt. Qed.

(* ... and "matched rule" is: the rule for exactly this payload type, else a catch-all rule, and a
   catch-all only if no rule names the payload type *)
Theorem C19_bridge_rule_choice : forall rules pt r,
  rule_for rules pt = Some r ->
  m_pt r = Some pt \/ (m_pt r = None /\ forall r', In r' rules -> m_pt r' <> Some pt).
Proof. exact rule_for_catch_all. Qed.

(* the forwarded packets of one source carry s0, s0+1, s0+2, ... (mod 2^16) in arrival order,
   whatever else is interleaved; s0 is the stream's counter, for a new stream the configured
   initial_sequence_number or the random draw *)
Theorem C19_bridge_seq : forall ins b x,
  match of_src x (btrace b ins) with
  | [] => True
  | e :: _ => seq_chain (first_seq b x (fst e)) (out_seqs (of_src x (btrace b ins)))
  end.
Proof. exact bridge_seq. Qed.

Theorem C19_bridge_seq_closed_form : forall l n k,
  0 <= n < 65536 -> seq_chain n l -> (k < length l)%nat -> nth k l 0 = (n + Z.of_nat k) mod 65536.
Proof. exact seq_chain_nth. Qed.

(* timestamps: for every arrival of a source, relative to the source's earlier arrivals (ts_rel):
   a forward jump of more than 900000 ticks from the anchor (the newest earlier arrival that was not
   a backward step) puts the output exactly 3000 ticks after the anchor's output; every other
   arrival -- forward within the threshold or backward -- keeps the source timestamp difference to
   the immediately preceding arrival, mod 2^32 *)
Theorem C19_bridge_ts : forall ins b x,
  sget (b_streams b) x = None -> ts_ok [] (of_src x (btrace b ins)).
Proof. exact bridge_ts. Qed.

(* the same for a source whose arrivals are in order (each a forward step from the previous one):
   consecutive arrivals at most 900000 ticks apart keep their difference, farther apart advance
   the output by exactly 3000 *)
Theorem C19_bridge_ts_inorder : forall ins b x,
  sget (b_streams b) x = None ->
  chain fwd (of_src x (btrace b ins)) -> chain ts_rel_inorder (of_src x (btrace b ins)).
Proof. exact bridge_ts_inorder. Qed.

(* first forwarded packet of a new source: SSRC, sequence seed, timestamp seed / pinned output
   timestamp with the marker *)
Theorem C19_bridge_first : forall ins b x,
  sget (b_streams b) x = None ->
  match of_src x (btrace b ins) with
  | [] => True
  | e :: _ =>
      let q := i_pkt (fst e) in
      q_ssrc (snd e) = out_ssrc0 (b_rules b) q /\
      q_seq (snd e) = match o_init_seq (b_opts b) with Some v => v | None => cast_u16 (i_r16 (fst e)) end /\
      match o_init_out_ts (b_opts b) with
      | Some d => q_ts (snd e) = cast_u32 d /\ q_marker (snd e) = true
      | None => q_ts (snd e) = cast_u32 (q_ts q + match o_init_off (b_opts b) with Some v => v | None => cast_u32 (i_r32 (fst e)) end)
                /\ q_marker (snd e) = q_marker q
      end
  end.
Proof. exact bridge_first. Qed.

(* independence: what a source is forwarded as is exactly what it would be forwarded as alone *)
Theorem C19_bridge_independent : forall ins b x,
  of_src x (btrace b ins) = btrace b (filter (src_is x) ins).
Proof. exact bridge_independent. Qed.

(* the matched rule's MID is readable, by the byte-level get_extension, from the forwarded packet
   (legal id and length, one-byte or absent extension block, extensions not stripped); other
   profiles are forwarded untouched; stripping removes the block; stamping never panics *)
Theorem C19_bridge_mid_stamped : forall b i ss r id mid,
  o_strip (b_opts b) = false -> rule_for (b_rules b) (q_pt (i_pkt i)) = Some r ->
  mid_ext_id r = Some id -> mid_val r = Some mid ->
  1 <= id <= 14 -> 1 <= RtpLib.len mid <= 16 ->
  (forall prof d, q_ext (i_pkt i) = Some (prof, d) -> prof = 48862) ->
  Rtp.get_extension (Bridge.hdr_of (out_pkt b i ss)) id = RtpLib.Ok (Some mid).
Proof. exact bridge_mid_stamped. Qed.

Theorem C19_bridge_mid_other_profile : forall b i ss prof d,
  q_ext (i_pkt i) = Some (prof, d) -> prof <> 48862 -> o_strip (b_opts b) = false ->
  q_ext (out_pkt b i ss) = Some (prof, d).
Proof. exact bridge_mid_other_profile. Qed.

Theorem C19_bridge_strip : forall b i ss, o_strip (b_opts b) = true -> q_ext (out_pkt b i ss) = None.
Proof. exact bridge_strip. Qed.

Theorem C19_bridge_stamp_total : forall id mid q, Rtp.set_extension (Bridge.hdr_of q) id mid <> RtpLib.Panic.
Proof. exact stamp_total. Qed.

(* ------------------------------------------------------------------ transport level: SRTP, (re)installation *)

(* a packet that fails the source's SRTP unprotect (or does not parse) changes nothing *)
Theorem C19_bridge_unauth_inert : forall s i, tstep s (BPkt i false) = (s, Rejected).
Proof. exact unauth_inert. Qed.

(* targets with or without an SRTP session forward the same plaintext packet (the session only
   protects it on the wire); every authenticated arrival is forwarded *)
Theorem C19_bridge_srtp_transparent : forall s b i,
  t_bridge s = Some b -> t_main s <> TNeedSrtp -> t_video s <> TNeedSrtp ->
  snd (tstep s (BPkt i true)) = Forwarded (is_video b (q_pt (i_pkt i))) (snd (bstep b i)).
Proof. exact srtp_transparent. Qed.

(* while the bridge is neither replaced nor cleared, the rewritten packets -- forwarded, or swallowed
   by a target that requires SRTP and has no session yet -- are the trace of that bridge on the
   authenticated arrivals: all continuity theorems above apply to them *)
Theorem C19_bridge_rewritten_trace : forall ops b m v,
  Forall (fun o => keeps_bridge o = true) ops ->
  rewritten (trun (mkT (Some b) m v) ops) = map snd (btrace b (auth_ins ops)).
Proof. exact rewritten_trace. Qed.

(* installing a bridge (again) resets all per-source state: no stream is known, sequence numbers
   and offsets start from the seeds again *)
Theorem C19_bridge_reinstall_resets : forall s b ops,
  Forall (fun o => keeps_bridge o = true) ops ->
  rewritten (trun (fst (tstep s (BSet b))) ops) = map snd (btrace (fresh_bridge b) (auth_ins ops)) /\
  forall x, sget (b_streams (fresh_bridge b)) x = None.
Proof. exact reinstall_resets. Qed.

(* without a bridge nothing is forwarded: the packet goes to the listeners *)
Theorem C19_bridge_cleared : forall s i, t_bridge s = None -> tstep s (BPkt i true) = (s, ToListeners).
Proof. exact no_bridge_to_listeners. Qed.
