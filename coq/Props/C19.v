(* C19 -- inbound RTP reaches only the right receiver; bridged streams stay continuous.
   Statements only; every proof is `exact <lemma of Proofs/DemuxProofs.v / Proofs/BridgeProofs.v>`. *)
From Coq Require Import ZArith List Bool.
From RV Require Import Lib.Wrap.
From RV Require Import Gen.RtpDemux.
From RV Require Import Model.Demux.
From RV Require Import Proofs.DemuxProofs.
From RV Require Import Gen.RtpBridge.
From RV Require Import Model.Bridge.
From RV Require Import Proofs.BridgeProofs.
Import ListNotations.
Open Scope Z_scope.

(* ================================================================== demultiplexer *)

(* every operation of every history hands the packet to at most one listener *)
Theorem C19_at_most_one : forall ops s, Forall (fun d => (length d <= 1)%nat) (run_out s ops).
Proof. exact run_at_most_one. Qed.

(* the listener that gets the packet is the selected one, and its channel is open *)
Theorem C19_receiver_is_selected : forall s p l,
  In l (snd (recv s p)) -> exists g b, select s p = Some (l, g, b) /\ is_closed s l = false.
Proof. exact recv_delivers. Qed.

(* the selection is exactly: RID, else MID, else SSRC map, else the unique listener of the payload
   type, else the single provisional listener (`chosen` spells the order out declaratively, with
   "unique" meaning: some route qualifies and all qualifying routes are on the same channel);
   RID / MID / payload-type hits bind the SSRC, SSRC-map and provisional hits do not *)
Theorem C19_priority : forall s p l g b,
  select s p = Some (l, g, b) <-> chosen s p l g /\ b = stage_binds g.
Proof. exact select_priority. Qed.

Theorem C19_priority_none : forall s p,
  select s p = None <->
  rid_match s p = None /\ mid_match s p = None /\ ssrc_match s p = None /\
  (forall l, ~ pt_unique s p l) /\ (forall l, ~ prov_unique s l).
Proof. exact select_none. Qed.

(* unique_by_pt / single_provisional (a one-pass scan) compute the declarative "unique listener" *)
Theorem C19_unique_scan : forall want rs l,
  scan_unique want None rs = Some l <-> uniq_listener want rs l.
Proof. exact scan_unique_spec. Qed.

(* a packet whose MID names a registered section (and whose RID names nothing) goes to that
   section's listener and to no other; if that listener's channel is closed it is dropped *)
Theorem C19_mid_respected : forall s p m l,
  pkt_mid s p = Some m -> kget (by_mid s) m = Some l -> rid_match s p = None ->
  (forall l', In l' (snd (recv s p)) -> l' = l) /\
  (is_closed s l = false -> snd (recv s p) = [l]) /\
  (is_closed s l = true -> snd (recv s p) = []).
Proof. exact mid_respected. Qed.

(* ... and "registered section" means what it says: over every history from a fresh transport the
   MID map only holds what register_mid_listener put there *)
Theorem C19_mid_section_registered : forall ops m l,
  kget (by_mid (run init ops)) m = Some l -> In (RegMid m l) ops.
Proof. exact mid_section_registered. Qed.

(* every SSRC binding present after any history was created by register_listener_sync or by a
   packet of that SSRC selected through RID / MID / unique payload type -- never by the SSRC-map
   or provisional stages *)
Theorem C19_binding_sound : forall ops x l,
  zget (by_ssrc (run init ops)) x = Some l ->
  exists pre o post, ops = pre ++ o :: post /\ binds (run init pre) o x l.
Proof. exact binding_sound_init. Qed.

Theorem C19_fallback_never_binds : forall s p l g b,
  select s p = Some (l, g, b) -> g = StSsrc \/ g = StProv ->
  b = false /\ forall e, In e (by_ssrc (fst (recv s p))) -> In e (by_ssrc s).
Proof. exact fallback_never_binds. Qed.

(* a closed listener never receives anything, in any continuation *)
Theorem C19_closed_never_receives : forall ops s l,
  is_closed s l = true -> ~ In l (concat (run_out s ops)).
Proof. exact closed_never_receives. Qed.

(* once a packet was routed to a closed listener, that listener is gone from every map and is
   never selected again, whatever follows, until it is registered again *)
Theorem C19_closed_never : forall s p l g b ops,
  select s p = Some (l, g, b) -> is_closed s l = true ->
  Forall (fun o => registers o l = false) ops ->
  let s' := fst (recv s p) in
  snd (recv s p) = [] /\ occurs (run s' ops) l = false /\
  (forall pre p' post g' b', ops = pre ++ Recv p' :: post -> select (run s' pre) p' <> Some (l, g', b')).
Proof. exact closed_never_again. Qed.

(* after clear_listeners nobody is registered: every packet is dropped until something registers
   (on the unfixed tree the MID map survived -- finding F-C19-1, fixed) *)
Theorem C19_clear_drops_all : forall s p,
  select (clear_listeners s) p = None /\ recv (clear_listeners s) p = (clear_listeners s, []) /\
  forall l, occurs (clear_listeners s) l = false.
Proof. exact clear_drops_all. Qed.

(* two routes on different channels claim the payload type and nothing else identifies the packet:
   it is not routed by payload type; only a single provisional listener can still get it (without
   binding), otherwise it is dropped and nothing changes *)
Theorem C19_ambiguous_pt : forall s p r1 r2,
  In r1 (routes s) -> In r2 (routes s) ->
  has_pt (p_pt p) r1 = true -> has_pt (p_pt p) r2 = true -> r_tx r1 <> r_tx r2 ->
  rid_match s p = None -> mid_match s p = None -> ssrc_match s p = None ->
  (forall l g b, select s p = Some (l, g, b) -> g = StProv /\ b = false /\ prov_unique s l) /\
  ((forall l, ~ prov_unique s l) -> recv s p = (s, [])).
Proof. exact ambiguous_pt. Qed.

Theorem C19_ambiguous_pt_dropped : forall s p r1 r2,
  In r1 (routes s) -> In r2 (routes s) ->
  has_pt (p_pt p) r1 = true -> has_pt (p_pt p) r2 = true -> r_tx r1 <> r_tx r2 ->
  rid_match s p = None -> mid_match s p = None -> ssrc_match s p = None ->
  (forall r, In r (routes s) -> r_prov r = false) ->
  recv s p = (s, []).
Proof. exact ambiguous_pt_dropped. Qed.

(* ================================================================== rewrite bridge
   btrace b ins = for every arriving packet (with the random draws a new stream would use) the
   forwarded packet; of_src x = the part of it that belongs to source SSRC x.  All statements hold
   for every bridge configuration, every rule table, every interleaving and every packet list. *)

(* one source SSRC, one output SSRC -- for ever; for a new stream it is the SSRC the rule matching
   its first packet gives (fixed, or source + offset mod 2^32, or the source SSRC with no rule) *)
Theorem C19_bridge_stable : forall ins b x,
  exists o,
    Forall (fun e => q_ssrc (snd e) = o) (of_src x (btrace b ins)) /\
    match sget (b_streams b) x, of_src x (btrace b ins) with
    | Some ss, _ => o = out_ssrc ss
    | None, e :: _ => o = out_ssrc0 (b_rules b) (i_pkt (fst e))
    | None, [] => True
    end.
Proof. exact bridge_stable. Qed.

(* the payload type of every forwarded packet is the matched rule's (or unchanged) *)
Theorem C19_bridge_pt : forall ins b,
  Forall (fun e => q_pt (snd e) = out_pt_of (b_rules b) (q_pt (i_pkt (fst e)))) (btrace b ins).
Proof. exact bridge_pt. Qed.

(* ... and "matched rule" is: the rule for exactly this payload type, else a catch-all rule, and a
   catch-all only if no rule names the payload type *)
Theorem C19_bridge_rule_choice : forall rules pt r,
  rule_for rules pt = Some r ->
  m_pt r = Some pt \/ (m_pt r = None /\ forall r', In r' rules -> m_pt r' <> Some pt).
Proof. exact rule_for_catch_all. Qed.

(* the forwarded packets of one source carry s0, s0+1, s0+2, ... (mod 2^16) in arrival order,
   whatever else is interleaved; s0 is the stream's counter, for a new stream the configured
   initial_sequence_number or the random draw *)
Theorem C19_bridge_seq : forall ins b x,
  match of_src x (btrace b ins) with
  | [] => True
  | e :: _ => seq_chain (first_seq b x (fst e)) (out_seqs (of_src x (btrace b ins)))
  end.
Proof. exact bridge_seq. Qed.

Theorem C19_bridge_seq_closed_form : forall l n k,
  0 <= n < 65536 -> seq_chain n l -> (k < length l)%nat -> nth k l 0 = (n + Z.of_nat k) mod 65536.
Proof. exact seq_chain_nth. Qed.

(* timestamps: for every arrival of a source, relative to the source's earlier arrivals (ts_rel):
   a forward jump of more than 900000 ticks from the anchor (the newest earlier arrival that was not
   a backward step) puts the output exactly 3000 ticks after the anchor's output; every other
   arrival -- forward within the threshold or backward -- keeps the source timestamp difference to
   the immediately preceding arrival, mod 2^32 *)
Theorem C19_bridge_ts : forall ins b x,
  sget (b_streams b) x = None -> ts_ok [] (of_src x (btrace b ins)).
Proof. exact bridge_ts. Qed.

(* the same for a source whose arrivals are in order (each a forward step from the previous one):
   consecutive arrivals at most 900000 ticks apart keep their difference, farther apart advance
   the output by exactly 3000 *)
Theorem C19_bridge_ts_inorder : forall ins b x,
  sget (b_streams b) x = None ->
  chain fwd (of_src x (btrace b ins)) -> chain ts_rel_inorder (of_src x (btrace b ins)).
Proof. exact bridge_ts_inorder. Qed.

(* first forwarded packet of a new source: SSRC, sequence seed, timestamp seed / pinned output
   timestamp with the marker *)
Theorem C19_bridge_first : forall ins b x,
  sget (b_streams b) x = None ->
  match of_src x (btrace b ins) with
  | [] => True
  | e :: _ =>
      let q := i_pkt (fst e) in
      q_ssrc (snd e) = out_ssrc0 (b_rules b) q /\
      q_seq (snd e) = match o_init_seq (b_opts b) with Some v => v | None => cast_u16 (i_r16 (fst e)) end /\
      match o_init_out_ts (b_opts b) with
      | Some d => q_ts (snd e) = cast_u32 d /\ q_marker (snd e) = true
      | None => q_ts (snd e) = cast_u32 (q_ts q + match o_init_off (b_opts b) with Some v => v | None => cast_u32 (i_r32 (fst e)) end)
                /\ q_marker (snd e) = q_marker q
      end
  end.
Proof. exact bridge_first. Qed.

(* independence: what a source is forwarded as is exactly what it would be forwarded as alone *)
Theorem C19_bridge_independent : forall ins b x,
  of_src x (btrace b ins) = btrace b (filter (src_is x) ins).
Proof. exact bridge_independent. Qed.

(* the matched rule's MID is readable from the forwarded packet (legal id and length, one-byte or
   absent extension block, extensions not stripped); stripping removes the block *)
Theorem C19_bridge_mid_stamped : forall b i ss r id mid,
  o_strip (b_opts b) = false -> rule_for (b_rules b) (q_pt (i_pkt i)) = Some r ->
  mid_ext_id r = Some id -> mid_val r = Some mid ->
  0 < id < 15 -> (1 <= length mid <= 16)%nat ->
  (forall prof els, q_ext (i_pkt i) = Some (prof, els) -> prof = 48862) ->
  bget (q_ext (out_pkt b i ss)) id = Some mid.
Proof. exact bridge_mid_stamped. Qed.

Theorem C19_bridge_strip : forall b i ss, o_strip (b_opts b) = true -> q_ext (out_pkt b i ss) = None.
Proof. exact bridge_strip. Qed.
