(* C20 -- track sample queues never duplicate, reorder, corrupt or leak samples.
   Statements only; every proof is `exact <lemma of Proofs/SpscProofs.v>`.

   Model: Model/Spsc.v -- threads take single shared-memory steps (one atomic load / store / fetch,
   one slot write / read, one lock or notify call) of SpscRing::{push,pop,is_empty}, Drop for
   SpscRing and of SampleStreamSource::{try_send, send, send_many, clone, drop},
   SampleStreamTrack::{recv, stop}; `run s0 sched` executes an arbitrary schedule (list of thread
   ids, any length); thread 0 = consumer, 1 = a thread calling stop(), 2 = the producer.
   Programs may mix the track operations, the pipeline-queue operations (ORecvQ, ODropTx; send and
   try_send are the same protocol), send_many and cancelled recv() calls (ORecvC / ORecvQC).
   cfg_ok: 1 <= capacity < word modulus, (capacity | modulus) \/ fewer samples than the modulus,
   and the bare-ring pop is not mixed with the drop-oldest send. *)
From Coq Require Import ZArith List Bool.
From RV Require Import Model.SpscSkel Model.Spsc Gen.SpscProg Proofs.SpscProofs Proofs.SpscClose.
Import ListNotations.
Open Scope Z_scope.

(* ---- tie to the source: the regenerated skeletons are the ones the model mirrors, and they obey
   the acquire/release publication discipline *)
Theorem C20_skeleton_tie : skeleton_matches = true.
Proof. exact skeleton_tie. Qed.

Theorem C20_publication_ok : publication_ok push_skel pop_skel = true.
Proof. exact publication_holds. Qed.

(* ---- one producer thread, one consumer thread, any capacity, every interleaving *)
Theorem C20_spsc_no_ub : forall capacity w cprog nstop pprog sched,
  cfg_ok capacity w cprog pprog ->
  ub (shd (run (init capacity w cprog nstop [pprog]) sched)) = None.
Proof. exact spsc_no_ub. Qed.

Theorem C20_spsc_ring_invariant : forall capacity w cprog nstop pprog sched,
  cfg_ok capacity w cprog pprog ->
  let s := run (init capacity w cprog nstop [pprog]) sched in
  exists p, prods s = [p] /\ RingInv (shd s) (wph_p p) (rph_cp (cons s) p).
Proof. exact spsc_ring_inv. Qed.

Theorem C20_spsc_slots_initialised : forall capacity w cprog nstop pprog sched,
  cfg_ok capacity w cprog pprog ->
  let s := run (init capacity w cprog nstop [pprog]) sched in
  quiescent s = true -> forall i, 0 <= i < cap (shd s) ->
    (slots (shd s) i <> None <-> exists k, head (shd s) <= k < tail (shd s) /\ k mod cap (shd s) = i) /\
    (forall k, head (shd s) <= k < tail (shd s) -> slots (shd s) (k mod cap (shd s)) = nthZ (pushed (shd s)) k).
Proof. exact spsc_slots_iff. Qed.

Theorem C20_spsc_taken_is_prefix_of_pushed : forall capacity w cprog nstop pprog sched,
  cfg_ok capacity w cprog pprog ->
  let s := run (init capacity w cprog nstop [pprog]) sched in
  exists n, map snd (taken (shd s)) = firstn n (pushed (shd s)).
Proof. exact spsc_taken_prefix. Qed.

Theorem C20_ring_popped_is_prefix_of_pushed : forall capacity w cprog nstop pprog sched,
  cfg_ok capacity w cprog pprog ->
  let s := run (init capacity w cprog nstop [pprog]) sched in
  existsb is_osend pprog = false -> received s = firstn (length (received s)) (pushed (shd s)).
Proof. exact spsc_received_prefix. Qed.

Theorem C20_received_subsequence_of_sent : forall capacity w cprog nstop pprog sched,
  cfg_ok capacity w cprog pprog ->
  Subseq (received (run (init capacity w cprog nstop [pprog]) sched)) (op_vals pprog).
Proof. exact spsc_received_sent. Qed.

Theorem C20_received_no_duplicates : forall capacity w cprog nstop pprog sched,
  cfg_ok capacity w cprog pprog -> NoDup (op_vals pprog) ->
  NoDup (received (run (init capacity w cprog nstop [pprog]) sched)).
Proof. exact spsc_received_nodup. Qed.

Theorem C20_full_only_when_full : forall capacity w cprog nstop pprog sched,
  cfg_ok capacity w cprog pprog ->
  let s := run (init capacity w cprog nstop [pprog]) sched in
  forall p c, prods s = [p] -> p_pc p = PPush c PuLoadHead ->
    is_full (shd s) (p_rt p) (head (shd s)) = true -> tail (shd s) - head (shd s) = cap (shd s).
Proof. exact spsc_full_only_when_full. Qed.

Theorem C20_none_only_when_empty : forall capacity w cprog nstop pprog sched,
  cfg_ok capacity w cprog pprog ->
  let s := run (init capacity w cprog nstop [pprog]) sched in
  forall m, c_pc (cons s) = m -> (m = CPopRaw PoLoadTail \/ m = CRvPop PoLoadTail) ->
    is_mt (shd s) (c_rh (cons s)) (tail (shd s)) = true -> head (shd s) = tail (shd s).
Proof. exact spsc_none_only_when_empty. Qed.

Theorem C20_drop_balance : forall capacity w cprog nstop pprog sched,
  cfg_ok capacity w cprog pprog ->
  let s := run (init capacity w cprog nstop [pprog]) sched in
  quiescent s = true ->
  exists h' d, ring_drop (shd s) = (h', d) /\ ub h' = None /\
               (forall i, 0 <= i < cap (shd s) -> slots h' i = None) /\
               pushed (shd s) = map snd (taken (shd s)) ++ d.
Proof. exact spsc_drop_balance. Qed.

(* ---- close, end-of-stream, wake-ups (recv() as fixed by 1e3221d / 72fa4b8) *)
(* end-of-stream is answered only after stop(), or after the last source handle is gone and
   everything that entered the ring has left it, in order (delivered, or discarded as oldest) *)
Theorem C20_eos_only_when_closed_and_drained : forall capacity w cprog nstop pprog sched,
  cfg_ok capacity w cprog pprog ->
  let s := run (init capacity w cprog nstop [pprog]) sched in
  In REos (c_rets (cons s)) ->
  stopped (shd s) = true \/
  (closed (shd s) = true /\ head (shd s) = tail (shd s) /\ map snd (taken (shd s)) = pushed (shd s)).
Proof. exact spsc_eos_sound. Qed.

Theorem C20_closed_is_final : forall capacity w cprog nstop pprog sched,
  cfg_ok capacity w cprog pprog ->
  let s := run (init capacity w cprog nstop [pprog]) sched in
  closed (shd s) = true -> exists p, prods s = [p] /\ p_handles p = 0 /\ p_quiet p = true.
Proof. exact spsc_closed_is_final. Qed.

(* a registered, not yet woken consumer (track recv or pipeline recv) always has the
   notify_waiters() of a close ahead; for the track also that of a stop() *)
Theorem C20_no_lost_wakeup : forall capacity w cprog nstop pprog sched,
  cfg_ok capacity w cprog pprog ->
  let s := run (init capacity w cprog nstop [pprog]) sched in
  c_is_waiting (cons s) = true -> woken (shd s) = false ->
  (closed (shd s) = true -> exists p, prods s = [p] /\ p_pc p = PDropNotify) /\
  (c_pc (cons s) = CRvWaiting -> stopped (shd s) = true -> s_pc (stp s) = SNotify).
Proof. exact spsc_no_lost_wakeup. Qed.

Theorem C20_consumer_enabled_after_close : forall capacity w cprog nstop pprog sched,
  cfg_ok capacity w cprog pprog ->
  let s := run (init capacity w cprog nstop [pprog]) sched in
  forall p, closed (shd s) = true -> prods s = [p] -> p_pc p = PIdle ->
  (c_pc (cons s) <> CIdle \/ c_prog (cons s) <> []) -> step s 0 <> None.
Proof. exact spsc_consumer_enabled_after_close. Qed.

(* after close (producer thread done) a running consumer finishes its recv()/pop() within 20 of
   its own steps: drains what remains (C20_received_subsequence_of_sent gives the order), then
   end-of-stream (C20_eos_only_when_closed_and_drained says only then) *)
Theorem C20_recv_terminates_after_close : forall capacity w cprog nstop pprog sched p,
  cfg_ok capacity w cprog pprog ->
  let s := run (init capacity w cprog nstop [pprog]) sched in
  closed (shd s) = true -> prods s = [p] -> p_pc p = PIdle ->
  exists k, (k <= 20)%nat /\ c_pc (cons (run s (repeat 0%nat k))) = CIdle.
Proof. exact spsc_recv_terminates_after_close_20. Qed.

(* ---- the divisibility / bound hypothesis of cfg_ok cannot be dropped (toy 2-bit word) *)
Theorem C20_index_wrap_refuted : ub (shd (run_ops wrap_cfg [2;2;2;0;0;2;2]%nat)) = Some UbOverwrite.
Proof. exact wrap_nondivisible_witness. Qed.
