(* C20 -- track sample queues never duplicate, reorder, corrupt or leak samples.
   Statements only; every proof is `exact <lemma of Proofs/Spsc*.v>`.

   Model: Model/Spsc.v -- threads take single shared-memory steps (one atomic load / store / fetch,
   one slot write / read, one lock or notify call) of SpscRing::{push,pop,is_empty}, Drop for
   SpscRing, of SampleStreamSource::{try_send, send, send_many, clone, drop},
   SampleStreamTrack::{recv, stop} and of the pipeline queue SampleQueueSender::{send, try_send,
   drop}, SampleQueueReceiver::recv; a recv() future may be dropped at its await (ORecvC / ORecvQC).
   `run s0 sched` executes an arbitrary schedule (list of thread ids, any length); thread 0 =
   consumer, 1 = a thread calling stop(), 2+k = producer thread k (each owns a source handle; the
   producers are serialised by push_lock, fixes 19ac498 / 1094a59).
   cfgN_ok: 1 <= capacity < word modulus; (capacity | modulus) \/ fewer samples than the modulus;
   at least one producer thread; the bare-ring pop is not mixed with the drop-oldest send; the
   bare-ring push (no lock at all) is used by at most one thread.
   All theorems: every capacity, ANY number n >= 1 of producer threads, every schedule. *)
From Coq Require Import ZArith List Bool.
From RV Require Import Model.SpscSkel Model.Spsc Gen.SpscProg Proofs.SpscTie Proofs.SpscProofs Proofs.SpscN Proofs.SpscClose.
Import ListNotations.
Open Scope Z_scope.

(* ---- tie to the source: the regenerated skeletons (spsc.rs, track.rs, pipeline.rs) are the ones the
   model mirrors, and they obey the acquire/release publication discipline *)
Theorem C20_skeleton_tie : skeleton_matches = true.
Proof. exact skeleton_tie. Qed.

Theorem C20_publication_ok : publication_ok push_skel pop_skel = true.
Proof. exact publication_holds. Qed.

(* ---- no data race / memory error *)
Theorem C20_no_ub : forall capacity w cprog nstop pprogs sched,
  cfgN_ok capacity w cprog pprogs ->
  ub (shd (run (init capacity w cprog nstop pprogs) sched)) = None.
Proof. exact nprod_no_ub. Qed.

(* at most one producer is inside the ring, and the ring invariant holds with its phase *)
Theorem C20_ring_invariant : forall capacity w cprog nstop pprogs sched,
  cfgN_ok capacity w cprog pprogs ->
  let s := run (init capacity w cprog nstop pprogs) sched in
  exists f pf, nth_error (prods s) f = Some pf /\ RingInv (shd s) (wph_p pf) (rph_cp (cons s) pf) /\
               forall k q, k <> f -> nth_error (prods s) k = Some q -> p_active q = false.
Proof. exact nprod_ring_inv. Qed.

Theorem C20_slots_initialised : forall capacity w cprog nstop pprogs sched,
  cfgN_ok capacity w cprog pprogs ->
  let s := run (init capacity w cprog nstop pprogs) sched in
  quiescent s = true -> forall i, 0 <= i < cap (shd s) ->
    (slots (shd s) i <> None <-> exists k, head (shd s) <= k < tail (shd s) /\ k mod cap (shd s) = i) /\
    (forall k, head (shd s) <= k < tail (shd s) -> slots (shd s) (k mod cap (shd s)) = nthZ (pushed (shd s)) k).
Proof. exact nprod_slots_iff. Qed.

(* ---- no duplicate, no reorder, no corruption *)
Theorem C20_taken_is_prefix_of_pushed : forall capacity w cprog nstop pprogs sched,
  cfgN_ok capacity w cprog pprogs ->
  let s := run (init capacity w cprog nstop pprogs) sched in
  exists n, map snd (taken (shd s)) = firstn n (pushed (shd s)).
Proof. exact nprod_taken_prefix. Qed.

Theorem C20_ring_popped_is_prefix_of_pushed : forall capacity w cprog nstop pprogs sched,
  cfgN_ok capacity w cprog pprogs ->
  let s := run (init capacity w cprog nstop pprogs) sched in
  forallb no_send pprogs = true -> received s = firstn (length (received s)) (pushed (shd s)).
Proof. exact nprod_received_prefix. Qed.

Theorem C20_received_subsequence_of_pushed : forall capacity w cprog nstop pprogs sched,
  cfgN_ok capacity w cprog pprogs ->
  let s := run (init capacity w cprog nstop pprogs) sched in
  Subseq (received s) (pushed (shd s)).
Proof. exact nprod_received_pushed. Qed.

(* the global push order interleaves the producers' own orders; each producer pushed a subsequence of
   what its program sends *)
Theorem C20_pushed_is_merge : forall capacity w cprog nstop pprogs sched,
  cfgN_ok capacity w cprog pprogs ->
  let s := run (init capacity w cprog nstop pprogs) sched in
  Merge (map p_pushed (prods s)) (pushed (shd s)).
Proof. exact nprod_pushed_merge. Qed.

Theorem C20_producer_pushed_subsequence_of_sent : forall capacity w cprog nstop pprogs sched,
  cfgN_ok capacity w cprog pprogs ->
  let s := run (init capacity w cprog nstop pprogs) sched in
  forall k pk prog, nth_error (prods s) k = Some pk -> nth_error pprogs k = Some prog ->
    Subseq (p_pushed pk) (op_vals prog).
Proof. exact nprod_pushed_sent. Qed.

(* samples from one producer are received in the order that producer sent them, none twice *)
Theorem C20_per_producer_order : forall capacity w cprog nstop pprogs sched,
  cfgN_ok capacity w cprog pprogs ->
  let s := run (init capacity w cprog nstop pprogs) sched in
  forall k prog,
    (forall i j pi pj v, i <> j -> nth_error pprogs i = Some pi -> nth_error pprogs j = Some pj ->
                         In v (op_vals pi) -> In v (op_vals pj) -> False) ->
    nth_error pprogs k = Some prog ->
    Subseq (filter (fun v => memZ v (op_vals prog)) (received s)) (op_vals prog).
Proof. exact nprod_per_producer_order. Qed.

Theorem C20_received_was_sent : forall capacity w cprog nstop pprogs sched,
  cfgN_ok capacity w cprog pprogs ->
  let s := run (init capacity w cprog nstop pprogs) sched in
  forall v, In v (received s) -> exists k prog, nth_error pprogs k = Some prog /\ In v (op_vals prog).
Proof. exact nprod_received_was_sent. Qed.

(* ---- linearisation points of the full / empty answers *)
Theorem C20_full_only_when_full : forall capacity w cprog nstop pprogs sched,
  cfgN_ok capacity w cprog pprogs ->
  let s := run (init capacity w cprog nstop pprogs) sched in
  forall k p c, nth_error (prods s) k = Some p -> p_pc p = PPush c PuLoadHead ->
    is_full (shd s) (p_rt p) (head (shd s)) = true -> tail (shd s) - head (shd s) = cap (shd s).
Proof. exact nprod_full_only_when_full. Qed.

Theorem C20_none_only_when_empty : forall capacity w cprog nstop pprogs sched,
  cfgN_ok capacity w cprog pprogs ->
  let s := run (init capacity w cprog nstop pprogs) sched in
  forall m, c_pc (cons s) = m -> (m = CPopRaw PoLoadTail \/ m = CRvPop PoLoadTail \/ m = CQPop PoLoadTail) ->
    is_mt (shd s) (c_rh (cons s)) (tail (shd s)) = true -> head (shd s) = tail (shd s).
Proof. exact nprod_none_only_when_empty. Qed.

(* ---- no leak, no double drop *)
Theorem C20_drop_balance : forall capacity w cprog nstop pprogs sched,
  cfgN_ok capacity w cprog pprogs ->
  let s := run (init capacity w cprog nstop pprogs) sched in
  quiescent s = true ->
  exists h' d, ring_drop (shd s) = (h', d) /\ ub h' = None /\
               (forall i, 0 <= i < cap (shd s) -> slots h' i = None) /\
               pushed (shd s) = map snd (taken (shd s)) ++ d.
Proof. exact nprod_drop_balance. Qed.

(* ---- close, end-of-stream, wake-ups (track recv as fixed by 1e3221d / 72fa4b8, pipeline recv as
   fixed by dc21402) *)
Theorem C20_eos_only_when_closed_and_drained : forall capacity w cprog nstop pprogs sched,
  cfgN_ok capacity w cprog pprogs ->
  let s := run (init capacity w cprog nstop pprogs) sched in
  In REos (c_rets (cons s)) ->
  stopped (shd s) = true \/
  (closed (shd s) = true /\ head (shd s) = tail (shd s) /\ map snd (taken (shd s)) = pushed (shd s)).
Proof. exact nprod_eos_sound. Qed.

Theorem C20_closed_is_final : forall capacity w cprog nstop pprogs sched,
  cfgN_ok capacity w cprog pprogs ->
  let s := run (init capacity w cprog nstop pprogs) sched in
  closed (shd s) = true -> Forall (fun p => p_handles p = 0 /\ p_quiet p = true) (prods s).
Proof. exact nprod_closed_is_final. Qed.

Theorem C20_no_lost_wakeup : forall capacity w cprog nstop pprogs sched,
  cfgN_ok capacity w cprog pprogs ->
  let s := run (init capacity w cprog nstop pprogs) sched in
  c_is_waiting (cons s) = true -> woken (shd s) = false ->
  (closed (shd s) = true -> exists k p, nth_error (prods s) k = Some p /\ p_pc p = PDropNotify) /\
  (c_pc (cons s) = CRvWaiting -> stopped (shd s) = true -> s_pc (stp s) = SNotify).
Proof. exact nprod_no_lost_wakeup. Qed.

Theorem C20_consumer_enabled_after_close : forall capacity w cprog nstop pprogs sched,
  cfgN_ok capacity w cprog pprogs ->
  let s := run (init capacity w cprog nstop pprogs) sched in
  closed (shd s) = true -> Forall (fun p => p_pc p = PIdle) (prods s) ->
  (c_pc (cons s) <> CIdle \/ c_prog (cons s) <> []) -> step s 0 <> None.
Proof. exact nprod_consumer_enabled_after_close. Qed.

(* after close (all producer threads done) a running consumer finishes its recv()/pop() within 20 of
   its own steps: drains what remains, then end-of-stream *)
Theorem C20_recv_terminates_after_close : forall capacity w cprog nstop pprogs sched,
  cfgN_ok capacity w cprog pprogs ->
  let s := run (init capacity w cprog nstop pprogs) sched in
  closed (shd s) = true -> Forall (fun p => p_pc p = PIdle) (prods s) ->
  exists k, (k <= 20)%nat /\ c_pc (cons (run s (repeat 0%nat k))) = CIdle.
Proof. exact nprod_recv_terminates_after_close_20. Qed.

(* a recv() future dropped at its await takes nothing out of the queue, holds no lock and hands an
   already received notify_one on as the permit (all theorems above hold for programs with such
   cancelled calls: they are ordinary operations of the consumer program) *)
Theorem C20_cancelled_recv_is_clean : forall capacity w cprog nstop pprogs sched,
  let s := run (init capacity w cprog nstop pprogs) sched in
  c_is_waiting (cons s) = true -> c_can (cons s) = true ->
  exists s', step s 0 = Some s' /\
    c_pc (cons s') = CIdle /\ c_rets (cons s') = c_rets (cons s) ++ [RCancelled] /\
    head (shd s') = head (shd s) /\ tail (shd s') = tail (shd s) /\ slots (shd s') = slots (shd s) /\
    taken (shd s') = taken (shd s) /\ lock (shd s') = lock (shd s) /\
    waiting (shd s') = false /\ woken (shd s') = false /\
    permit (shd s') = permit (shd s) || (woken (shd s) && wone (shd s)).
Proof. exact nprod_cancel_is_clean. Qed.

(* ---- the divisibility / bound hypothesis of cfgN_ok cannot be dropped (toy 2-bit word) *)
Theorem C20_index_wrap_refuted : ub (shd (run_ops wrap_cfg [2;2;2;0;0;2;2]%nat)) = Some UbOverwrite.
Proof. exact wrap_nondivisible_witness. Qed.
