(* C01 correspondence: cases, model_out, check_case, bad_indices are those of Model/SctpObs.v
   (shared with C12: one model of the SCTP receive path). *)
From RV Require Export Model.SctpRecv Model.SctpObs.
