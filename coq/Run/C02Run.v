(* C02 correspondence: man-in-the-middle scripts on a live pair, replayed on the symbolic pair
   model (same case format as C11: Model/DtlsSym.v). *)
From Coq Require Import ZArith List Bool.
From RV Require Export Model.DtlsHs Model.DtlsSym.
