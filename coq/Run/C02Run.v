(* C02 correspondence.  Three kinds of cases:
   KPair  a man-in-the-middle script on a live DTLS pair, in the vocabulary of Model/DtlsSym.v: what
          the proxy delivered to each real endpoint (references to records the model's own endpoints
          emitted + symbolic tamper operations, forged records), and what the implementation showed;
   KFp    SdpFingerprint::parse on one attribute value (tokens) and its result;
   KFps   SessionDescription::dtls_fingerprint() over several a=fingerprint attributes. *)
From Coq Require Import ZArith List Bool.
From RV Require Import Model.DtlsHs Model.DtlsSym Model.Fingerprint.
Import ListNotations.
Open Scope Z_scope.

Inductive case : Type :=
| KPair (c : DtlsSym.case)
| KFp (tokens : list (list Z)) (res : option (list Z * list Z))
| KFps (attrs : list (list (list Z))) (res : option (option (list Z * list Z))).

Definition ofp_eqb (a b : option fp) : bool :=
  match a, b with Some x, Some y => fp_eqb x y | None, None => true | _, _ => false end.
Definition oofp_eqb (a b : option (option fp)) : bool :=
  match a, b with Some x, Some y => ofp_eqb x y | None, None => true | _, _ => false end.

Inductive mout : Type :=
| MPair (o : obs * Z * (Z * Z)) | MFp (r : option fp) | MFps (r : option (option fp)).

Definition model_out (c : case) : mout :=
  match c with
  | KPair p => MPair (DtlsSym.model_out p)
  | KFp t _ => MFp (parse_fp t)
  | KFps a _ => MFps (collect a)
  end.

Definition check_case (c : case) : bool :=
  match c with
  | KPair p => DtlsSym.check_case p
  | KFp t r => ofp_eqb (parse_fp t) r
  | KFps a r => oofp_eqb (collect a) r
  end.

Fixpoint bad_from (i : Z) (cs : list case) : list Z :=
  match cs with
  | [] => []
  | c :: rest => if check_case c then bad_from (i + 1) rest else i :: bad_from (i + 1) rest
  end.
Definition bad_indices (cs : list case) : list Z := bad_from 0 cs.
