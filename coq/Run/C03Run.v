(* C03 correspondence: a case is an input of the real DTLS record layer plus what it produced; the model
   must reproduce it. AES-128-GCM is interpreted by tables the harness fills with the aes-gcm crate:
   the model derives key / nonce / AAD itself and looks the result up, so a wrong derivation in the model
   (or a changed one in the code) shows as a missing entry, i.e. a disagreement. *)
From Coq Require Import ZArith List Bool.
From RV Require Import Lib.Wrap Gen.Consts Gen.Classify Gen.DtlsRec Model.DtlsRecord.
Import ListNotations.
Open Scope Z_scope.

Fixpoint list_eqb (a b : list Z) : bool :=
  match a, b with
  | [], [] => true
  | x :: a', y :: b' => (x =? y) && list_eqb a' b'
  | _, _ => false
  end.
Fixpoint lists_eqb (a b : list (list Z)) : bool :=
  match a, b with
  | [], [] => true
  | x :: a', y :: b' => list_eqb x y && lists_eqb a' b'
  | _, _ => false
  end.

(* AEAD tables: (key, nonce, aad, input) -> output *)
Definition aead_entry : Set := (list Z * list Z * list Z * list Z * list Z)%type.
Fixpoint tbl_find (t : list aead_entry) (k n a x : list Z) : option (list Z) :=
  match t with
  | [] => None
  | (k', n', a', x', y) :: rest =>
      if list_eqb k k' && list_eqb n n' && list_eqb a a' && list_eqb x x' then Some y else tbl_find rest k n a x
  end.
Definition seal_of (t : list aead_entry) (k n a p : list Z) : list Z :=
  match tbl_find t k n a p with Some c => c | None => [] end.
Definition open_of (t : list aead_entry) (k n a c : list Z) : option (list Z) := tbl_find t k n a c.

(* deterministic payload pattern shared with the harness (keeps terms small) *)
Definition pat (t n : Z) : list Z :=
  map (fun i => let i := Z.of_nat i in (t * 37 + i * 11 + i / 256) mod 256) (seq 0 (Z.to_nat n)).

Inductive dec_obs : Set :=
| DNone | DErr | DPanic
| DRec (ct major minor epoch seq : Z) (payload : list Z) (rest_len : Z).

Inductive data_src : Set := Bytes (l : list Z) | Pat (t n : Z).
Definition data_of (d : data_src) : list Z := match d with Bytes l => l | Pat t n => pat t n end.

(* a task of the concurrent cases: its send() calls in order, and whether it is the close path *)
Inductive task : Set := TSend (calls : list data_src) | TClose.
Definition task_jobs (t : task) : list job :=
  match t with
  | TSend calls => flat_map (fun d => send_jobs (data_of d)) calls
  | TClose => close_jobs
  end.

Inductive case : Set :=
(* DtlsRecord::decode on a buffer *)
| CDec (buf : list Z) (obs : dec_obs)
(* DtlsRecord::encode *)
| CEnc (ct major minor epoch seq : Z) (payload : list Z) (obs : list Z)
(* one send(data) by one caller: role, keys, write epoch / seq before the call, AEAD table, datagrams seen *)
| CTx (is_client : bool) (k : keys) (epoch seq0 : Z) (data : data_src) (tbl : list aead_entry) (wire : list (list Z))
(* the close_notify datagram *)
| CAlert (is_client : bool) (k : keys) (epoch seq : Z) (tbl : list aead_entry) (wire : list Z)
(* concurrent tasks: schedule reconstructed from the capture, observed symbolic wire (tid, ct, epoch, seq, pt) *)
| CConc (epoch seq0 : Z) (tasks : list task) (sched : list nat) (wire : list (nat * Z * Z * Z * list Z))
(* datagrams injected into a receiver that has keys: role, keys, state before, datagrams, AEAD table,
   payloads delivered upward, state afterwards *)
| CRx (is_client : bool) (k : keys) (pre : cstate) (ds : list (list Z)) (tbl : list aead_entry)
      (delivered : list (list Z)) (post : cstate)
(* the same for a receiver that has no keys yet *)
| CRxNoKeys (is_client : bool) (pre : cstate) (ds : list (list Z)) (delivered : list (list Z)) (post : cstate).

Definition dec_model (buf : list Z) : dec_obs :=
  match decode buf with
  | Ok None => DNone
  | Err => DErr
  | Panic => DPanic
  | Ok (Some (r, rest)) =>
      DRec (ContentType_code (r_type r)) (r_major r) (r_minor r) (r_epoch r) (r_seq r) (r_payload r) (zlen rest)
  end.
Definition dec_obs_eqb (a b : dec_obs) : bool :=
  match a, b with
  | DNone, DNone | DErr, DErr | DPanic, DPanic => true
  | DRec c1 a1 i1 e1 s1 p1 r1, DRec c2 a2 i2 e2 s2 p2 r2 =>
      (c1 =? c2) && (a1 =? a2) && (i1 =? i2) && (e1 =? e2) && (s1 =? s2) && list_eqb p1 p2 && (r1 =? r2)
  | _, _ => false
  end.

Definition wrec_tuple (r : wrec) : nat * Z * Z * Z * list Z := (w_tid r, w_ct r, w_epoch r, w_seq r, w_pt r).
Fixpoint wire_eqb (a b : list (nat * Z * Z * Z * list Z)) : bool :=
  match a, b with
  | [], [] => true
  | (t1, c1, e1, s1, p1) :: a', (t2, c2, e2, s2, p2) :: b' =>
      Nat.eqb t1 t2 && (c1 =? c2) && (e1 =? e2) && (s1 =? s2) && list_eqb p1 p2 && wire_eqb a' b'
  | _, _ => false
  end.
Definition conc_model (epoch seq0 : Z) (tasks : list task) (sched : list nat) : world :=
  run (init_world epoch seq0 (fun i => match nth_error tasks i with Some t => task_jobs t | None => [] end)) sched.
Fixpoint all_done (w : world) (n : nat) : bool :=
  match n with
  | O => true
  | S n' => match t_todo (g_threads w n') with [] => all_done w n' | _ => false end
  end.

(* receive: handshake-message processing is the identity (the harness only injects handshake-typed
   records whose body the real code ignores: shorter than a handshake header) *)
Definition no_hs (c : bool) (h : unit) (s : cstate) (p : list Z) : unit * cstate * option keys * bool := (h, s, None, false).
(* IceConn::receive forwards a datagram to DTLS iff its first byte is in the DTLS range *)
Definition is_dtls (d : list Z) : bool := match d with [] => false | b :: _ => conn_is_dtls b end.
Definition rx_model (is_client : bool) (k : keys) (pre : cstate) (ds : list (list Z)) (tbl : list aead_entry)
  : cstate * list (list Z) :=
  let '(st, out) := recv_all (open_of tbl) unit no_hs is_client (mkRx pre (Some k) 1 tt true) (filter is_dtls ds) in
  (rx_state st, out).

Definition rx_model_nokeys (is_client : bool) (pre : cstate) (ds : list (list Z)) : cstate * list (list Z) :=
  let '(st, out) := recv_all (open_of []) unit no_hs is_client (mkRx pre None 0 tt true) (filter is_dtls ds) in
  (rx_state st, out).

Definition check_case (c : case) : bool :=
  match c with
  | CDec buf obs => dec_obs_eqb (dec_model buf) obs
  | CEnc ct major minor epoch seq payload obs => list_eqb (rec_encode ct major minor epoch seq payload) obs
  | CTx is_client k epoch seq0 data tbl wire =>
      lists_eqb (snd (send (seal_of tbl) (wkey is_client k) (wiv is_client k) (mkTx epoch seq0) (data_of data))) wire
  | CAlert is_client k epoch seq tbl wire =>
      list_eqb (alert_record (seal_of tbl) (wkey is_client k) (wiv is_client k) epoch seq) wire
  | CConc epoch seq0 tasks sched wire =>
      let w := conc_model epoch seq0 tasks sched in
      wire_eqb (map wrec_tuple (g_wire w)) wire && all_done w (length tasks)
  | CRx is_client k pre ds tbl delivered post =>
      let '(s, out) := rx_model is_client k pre ds tbl in
      cstate_eqb s post && lists_eqb out delivered
  | CRxNoKeys is_client pre ds delivered post =>
      let '(s, out) := rx_model_nokeys is_client pre ds in
      cstate_eqb s post && lists_eqb out delivered
  end.

(* what the model says, for diagnostics *)
Inductive mout : Set :=
| MDec (o : dec_obs) | MBytes (l : list (list Z)) | MWire (l : list (nat * Z * Z * Z * list Z)) (done : bool)
| MRx (s : cstate) (out : list (list Z)).
Definition model_out (c : case) : mout :=
  match c with
  | CDec buf _ => MDec (dec_model buf)
  | CEnc ct major minor epoch seq payload _ => MBytes [rec_encode ct major minor epoch seq payload]
  | CTx is_client k epoch seq0 data tbl _ =>
      MBytes (snd (send (seal_of tbl) (wkey is_client k) (wiv is_client k) (mkTx epoch seq0) (data_of data)))
  | CAlert is_client k epoch seq tbl _ => MBytes [alert_record (seal_of tbl) (wkey is_client k) (wiv is_client k) epoch seq]
  | CConc epoch seq0 tasks sched _ =>
      let w := conc_model epoch seq0 tasks sched in MWire (map wrec_tuple (g_wire w)) (all_done w (length tasks))
  | CRx is_client k pre ds tbl _ _ => let '(s, out) := rx_model is_client k pre ds tbl in MRx s out
  | CRxNoKeys is_client pre ds _ _ => let '(s, out) := rx_model_nokeys is_client pre ds in MRx s out
  end.

Fixpoint bad_from (i : Z) (cs : list case) : list Z :=
  match cs with
  | [] => []
  | c :: rest => if check_case c then bad_from (i + 1) rest else i :: bad_from (i + 1) rest
  end.
Definition bad_indices (cs : list case) : list Z := bad_from 0 cs.
