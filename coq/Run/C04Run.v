(* C04 correspondence: cases produced by harness/src/bin/c04.rs. *)
From Coq Require Import ZArith List Bool.
From RV Require Import Lib.Wrap Gen.Consts Gen.SrtpArith Model.Srtp Model.SrtpRun.
Import ListNotations.
Open Scope Z_scope.

(* Hist: the sequence numbers one SrtpContext protected (in order) with its rollover counter after
   every protect, then the positions of the protected packets handed to a fresh receiving
   SrtpContext (any order, repeats, omissions) with (accepted?, rollover counter afterwards). *)
(* SessC: a script over one sending and one receiving context with byte-level comparison, the
   crypto terms interpreted by tables (Model/SrtpRun.v). *)
Inductive case : Set :=
| Hist (seqs : list Z) (tx_obs : list Z) (order : list Z) (rx_obs : list (bool * Z))
| SessC (s : SrtpRun.case).

Fixpoint tx_states (st : rl) (seqs : list Z) : list Z :=
  match seqs with
  | [] => []
  | s :: r => let st' := update_rl st s (est_rl st s) in fst st' :: tx_states st' r
  end.

Definition hist_model (seqs order : list Z) : list Z * list (bool * Z) :=
  let rocs := tx_rocs (0, None) seqs in
  let pks := map (fun k => (nth (Z.to_nat k) seqs 0, nth (Z.to_nat k) rocs 0)) order in
  (tx_states (0, None) seqs, rx_decide (0, None) pks).

Fixpoint zlist_eqb (a b : list Z) : bool :=
  match a, b with
  | [], [] => true
  | x :: a', y :: b' => (x =? y) && zlist_eqb a' b'
  | _, _ => false
  end.
Fixpoint obs_eqb (a b : list (bool * Z)) : bool :=
  match a, b with
  | [], [] => true
  | (x1, x2) :: a', (y1, y2) :: b' => Bool.eqb x1 y1 && (x2 =? y2) && obs_eqb a' b'
  | _, _ => false
  end.

Inductive out : Set := OHist (tx : list Z) (rx : list (bool * Z)) | OSess (agree : list bool).

Definition model_out (c : case) : out :=
  match c with
  | Hist seqs _ order _ => let '(t, r) := hist_model seqs order in OHist t r
  | SessC s => OSess (sess_model s)
  end.

Definition check_case (c : case) : bool :=
  match c with
  | Hist seqs tx_obs order rx_obs =>
      let '(t, r) := hist_model seqs order in zlist_eqb t tx_obs && obs_eqb r rx_obs
  | SessC s => sess_check s
  end.

Fixpoint bad_from (i : Z) (cs : list case) : list Z :=
  match cs with
  | [] => []
  | c :: rest => if check_case c then bad_from (i + 1) rest else i :: bad_from (i + 1) rest
  end.
Definition bad_indices (cs : list case) : list Z := bad_from 0 cs.
