(* C05 correspondence: scripts of genuine and forged datagrams (harness/src/bin/c05.rs) replayed on
   the model of one receiving SrtpContext; result class, decoded packet, rollover counter and SRTCP
   index after every step must agree with the implementation. *)
From Coq Require Import ZArith List Bool.
From RV Require Import Lib.Wrap Gen.Consts Gen.SrtpArith Model.Srtp Model.SrtpRun.
Import ListNotations.
Open Scope Z_scope.

Definition case : Set := SrtpRun.case.
Definition model_out (c : case) : list bool := sess_model c.
Definition check_case (c : case) : bool := sess_check c.

Fixpoint bad_from (i : Z) (cs : list case) : list Z :=
  match cs with
  | [] => []
  | c :: rest => if check_case c then bad_from (i + 1) rest else i :: bad_from (i + 1) rest
  end.
Definition bad_indices (cs : list case) : list Z := bad_from 0 cs.
