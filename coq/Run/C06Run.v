(* C06 correspondence: a case is the configuration of the agent under test (role, latching,
   local candidates), the list of operation groups the harness performed on the real
   IceTransport (one group per harness operation: usually one model operation; a response
   that completes a check round is grouped with the round's selection step) and the
   observation after each group; the model must reproduce the observations. *)
From Coq Require Import ZArith List Bool.
From RV Require Import Gen.IcePrio Model.IceAuth.
Import ListNotations.
Open Scope Z_scope.

Record case : Set := mkCase {
  k_role : IceRole; k_latching : bool; k_mux : bool; k_locals : list cand;
  k_ops : list (list op); k_obs : list obs }.

Definition addr_eq (a b : addr) : bool := addr_eqb a b.
Definition cobs_eqb (a b : cand_obs) : bool :=
  let '(a1, t1, p1, x1) := a in let '(a2, t2, p2, x2) := b in
  addr_eq a1 a2 && (t1 =? t2) && (p1 =? p2) && Bool.eqb x1 x2.
Fixpoint list_eqb {A : Type} (eq : A -> A -> bool) (a b : list A) : bool :=
  match a, b with
  | [], [] => true
  | x :: a', y :: b' => eq x y && list_eqb eq a' b'
  | _, _ => false
  end.
Definition opt_eqb {A : Type} (eq : A -> A -> bool) (a b : option A) : bool :=
  match a, b with
  | None, None => true
  | Some x, Some y => eq x y
  | _, _ => false
  end.
Definition obs_eqb (a b : obs) : bool :=
  let '(s1, r1, sel1, n1, o1) := a in let '(s2, r2, sel2, n2, o2) := b in
  (s1 =? s2) && list_eqb cobs_eqb r1 r2
  && opt_eqb (fun x y => addr_eq (fst x) (fst y) && cobs_eqb (snd x) (snd y)) sel1 sel2
  && (n1 =? n2)
  && list_eqb (fun x y => addr_eq (fst x) (fst y) && (snd x =? snd y)) o1 o2.

Fixpoint run_group (s : agent) (g : list op) (acc : list out) : agent * list out :=
  match g with
  | [] => (s, acc)
  | o :: rest => let '(s', out) := step s o in run_group s' rest (acc ++ out)
  end.

Fixpoint run_groups (s : agent) (gs : list (list op)) : list obs :=
  match gs with
  | [] => []
  | g :: rest => let '(s', out) := run_group s g [] in observe s' out :: run_groups s' rest
  end.

(* the same through the shared-UDP demux (ice_udp_mux) *)
Fixpoint mrun_group (ms : mux * agent) (g : list op) (acc : list out) : (mux * agent) * list out :=
  match g with
  | [] => (ms, acc)
  | o :: rest => let '(ms', out) := mux_step ms o in mrun_group ms' rest (acc ++ out)
  end.

Fixpoint mrun_groups (ms : mux * agent) (gs : list (list op)) : list obs :=
  match gs with
  | [] => []
  | g :: rest => let '(ms', out) := mrun_group ms g [] in observe (snd ms') out :: mrun_groups ms' rest
  end.

Definition model_out (c : case) : list obs :=
  let s0 := init (k_role c) (k_latching c) (k_locals c) in
  if k_mux c then mrun_groups ([], s0) (k_ops c) else run_groups s0 (k_ops c).
Definition check_case (c : case) : bool := list_eqb obs_eqb (model_out c) (k_obs c).

Fixpoint bad_from (i : Z) (cs : list case) : list Z :=
  match cs with
  | [] => []
  | c :: rest => if check_case c then bad_from (i + 1) rest else i :: bad_from (i + 1) rest
  end.
Definition bad_indices (cs : list case) : list Z := bad_from 0 cs.
