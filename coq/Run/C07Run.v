(* C07 correspondence: a case is a decoder id, auxiliary numbers, the input byte strings, and what
   the implementation did with them (verdict 0 = Ok, 1 = Err / None / ignored, 2 = panic; digest of
   the decoded fields or of the packets the live endpoint emitted).  The model must reproduce both. *)
From Coq Require Import ZArith List Bool.
From RV Require Import Lib.Wrap Gen.Consts Gen.C07Consts Model.PanicLib Model.Dec_DtlsHs Model.Dec_Sctp
     Model.Dec_Media Model.Dec_Ice.
Import ListNotations.
Open Scope Z_scope.

Record case : Set := mkCase { k_t : Z; k_aux : list Z; k_ins : list (list Z); k_v : Z; k_dig : list Z }.

Definition in0 (c : case) : list Z := nth 0 (k_ins c) [].
Definition aux_n (c : case) (n : nat) : Z := nth n (k_aux c) 0.

(* what the live SCTP endpoint sends back for the chunks the walker dispatches: HEARTBEAT is echoed
   as HEARTBEAT-ACK, SHUTDOWN is answered by SHUTDOWN-ACK; the generator uses no other answering type *)
Definition walk_responses (l : list Dec_Sctp.chunk) : list Z :=
  flat_map (fun ch => let '(ty, _, value) := ch in
                      if ty =? CT_HEARTBEAT then CT_HEARTBEAT_ACK :: len value :: value
                      else if ty =? CT_SHUTDOWN then [CT_SHUTDOWN_ACK; 0] else []) l.

Definition sample_digest (s : Dec_Media.sample) : list Z := let '(ts, last, data) := s in [ts; last; len data] ++ data.

(* H.264: every input is [marker; seq_hi; seq_lo; ts3; ts2; ts1; ts0; payload...] *)
Fixpoint h264_run (video : bool) (st : h264_state) (pkts : list (list Z)) (dig : list Z) : Z * list Z :=
  match pkts with
  | [] => (0, dig ++ [drops st])
  | p :: rest =>
      match p with
      | mk :: s1 :: s0 :: t3 :: t2 :: t1 :: t0 :: payload =>
          let m := h264_push video st (negb (mk =? 0)) (s1 * 256 + s0) (t3 * 16777216 + t2 * 65536 + t1 * 256 + t0) payload in
          match val m with
          | Ok (samples, st') => h264_run video st' rest (dig ++ [len samples] ++ flat_map sample_digest samples)
          | r => (verdict r, dig)
          end
      | _ => h264_run video st rest dig
      end
  end.

Definition model_out (c : case) : Z * list Z :=
  let t := k_t c in
  let bs := in0 c in
  if t =? 1 then out_of (hs_decode bs) hs_digest
  else if t =? 2 then out_of (client_hello_decode bs) ch_digest
  else if t =? 3 then out_of (server_hello_decode bs) sh_digest
  else if t =? 4 then out_of (hello_verify_decode bs) hvr_digest
  else if t =? 5 then out_of (cert_decode bs) cert_digest
  else if t =? 6 then out_of (ske_decode bs) ske_digest
  else if t =? 7 then out_of (cke_decode bs) cke_digest
  else if t =? 8 then out_of (finished_decode bs) cke_digest
  else if t =? 9 then out_of (server_on_client_hello bs) (fun x => [fst x; snd x])
  else if t =? 12 then
    (* every input = [total(3); offset(3); body...] of one ClientHello fragment with message_seq 0 *)
    out_of (server_on_fragments
              (map (fun i => match i with
                             | t2 :: t1 :: t0 :: o2 :: o1 :: o0 :: body =>
                                 mkFrag (t2 * 65536 + t1 * 256 + t0) 0 (o2 * 65536 + o1 * 256 + o0) body
                             | _ => mkFrag 0 0 0 []
                             end) (k_ins c)))
           (fun x => [fst x; snd x])
  else if t =? 10 then out_of (dcep_open_unmarshal bs) open_digest
  else if t =? 11 then out_of (dcep_ack_unmarshal bs) (fun x => [x])
  else if t =? 20 then h264_run (negb (aux_n c 0 =? 0)) h264_init (k_ins c) []
  else if t =? 21 then
    out_of (rtx_unwrap bs) (fun x => let '(osn, rest) := x in [osn; aux_n c 0; aux_n c 1; 8738; 96; len rest] ++ rest)
  else if t =? 30 then
    out_of (udptl_recv (aux_n c 0) bs) (fun x => match x with None => [0] | Some d => 1 :: len d :: d end)
  else if t =? 40 then out_of (chunk_walk (S (length bs)) bs []) walk_responses
  else if t =? 41 then
    out_of (handle_init_ack bs) (fun x => match x with None => [] | Some ck => 1 :: len ck :: ck end)
  else if t =? 42 then out_of (handle_sack bs) (fun _ => [])
  else if t =? 43 then out_of (handle_forward_tsn (aux_n c 0) bs) (fun x => [fst x])
  else if t =? 44 then
    out_of (handle_reconfig (aux_n c 0) bs) (fun x => flat_map (fun a => [fst a; snd a]) (fst x))
  else if t =? 45 then
    (* a complete (B+E) DCEP message in a DATA chunk that is next in sequence: digest = [ack sent; cumulative TSN
       advanced]; since 412d9a4 a message that does not parse is dropped and the chunk is acknowledged all the same *)
    match val (handle_dcep bs) with
    | Ok ack => (0, [ack; 1])
    | Err _ => (0, [0; 1])
    | r => (verdict r, [])
    end
  else if t =? 46 then
    (* a DATA chunk value on a live endpoint: 1 = long enough to be processed, 0 = ignored *)
    out_of (data_chunk_dcep bs) (fun x => match x with None => [0] | Some _ => [1] end)
  else if t =? 50 then
    out_of (cand_parse (negb (aux_n c 0 =? 0)) (fun i => negb (nth (Z.to_nat (i + 1)) (k_aux c) 0 =? 0)) (k_ins c)) cand_digest
  else if t =? 60 then out_of (turn_tcp_frame true (aux_n c 0) (aux_n c 1)) (fun _ => [])
  else if t =? 61 then
    out_of (relayed true bs) (fun cl => [if (class_code cl =? 1) && negb (aux_n c 0 =? 0) then 1 else 0])
  else if t =? 70 then out_of (mid_bump (aux_n c 0)) (fun _ => [])
  else (9, []).

Fixpoint zlist_eqb (a b : list Z) : bool :=
  match a, b with
  | [], [] => true
  | x :: a', y :: b' => (x =? y) && zlist_eqb a' b'
  | _, _ => false
  end.

Definition check_case (c : case) : bool :=
  let '(v, d) := model_out c in (v =? k_v c) && zlist_eqb d (k_dig c).

Fixpoint bad_from (i : Z) (cs : list case) : list Z :=
  match cs with
  | [] => []
  | c :: rest => if check_case c then bad_from (i + 1) rest else i :: bad_from (i + 1) rest
  end.
Definition bad_indices (cs : list case) : list Z := bad_from 0 cs.
