(* C08 correspondence: a case carries the input the implementation ran on and what it
   produced (canonicalised by the harness); the model must reproduce it.

   CPrint d printed reparsed  -- d = a description (generated, parsed by the stack, or an answer the
                                 stack built); printed = SessionDescription::to_sdp_string(d) tokenised
                                 into lines; reparsed = SessionDescription::parse of that text.
   CParse ls parsed           -- ls = a raw SDP text (as lines); parsed = SessionDescription::parse.
   CAnswer cfg pre dc rounds  -- a fresh PeerConnection::new(cfg), add_transceiver for each element of pre,
                                 optionally create_data_channel, then for each round (offer, changed, out):
                                 set_remote_description(offer); create_answer(); set_local_description(answer);
                                 out = the abstracted answer / create_answer Err / not comparable. *)
From Coq Require Import ZArith List Bool String.
From RV Require Import Gen.SdpTables Model.Sdp Model.Answer.
Import ListNotations.
Open Scope string_scope.
Open Scope Z_scope.

(* short constructors so that the harness terms stay small *)
Definition av (k v : string) : attr := mkAttr k (Some v).
Definition a0 (k : string) : attr := mkAttr k None.
Definition sv (s : string) : option string := Some s.

Inductive rout : Set := ROk (a : answer) | RErr | RSkip.

Inductive case : Set :=
| CPrint (d : desc) (printed : list line) (reparsed : option desc)
| CParse (ls : list line) (parsed : option desc)
| CAnswer (c : config) (pre : list (kind * dir)) (dc : bool) (rounds : list (offer * bool * rout)).

Inductive out : Set :=
| OPrint (printed : list line) (reparsed : option desc)
| OParse (parsed : option desc)
| OAnswer (rs : list ares).

Definition pre_state (pre : list (kind * dir)) (dc : bool) : st :=
  let s := fold_left (fun s kd => add_transceiver s (fst kd) (snd kd)) pre st_init in
  if dc && negb (existsb (fun t => kind_eqb (t_kind t) KApplication) (s_trx s))
  then add_transceiver s KApplication DSendRecv else s.

Fixpoint run_rounds (c : config) (s : st) (rounds : list (offer * bool * rout)) : list ares :=
  match rounds with
  | [] => []
  | (o, ch, RSkip) :: _ => []
  | (o, ch, _) :: rest => let '(s', r) := negotiate c s o ch in r :: run_rounds c s' rest
  end.

Fixpoint rounds_ok (rs : list ares) (rounds : list (offer * bool * rout)) : bool :=
  match rounds with
  | [] => true
  | (_, _, RSkip) :: _ => true
  | (_, _, exp) :: rest =>
      match rs with
      | r :: rs' =>
          (match exp, r with
           | ROk a, AOk a' => answer_eqb a' a
           | RErr, AErr => true
           | _, _ => false
           end) && rounds_ok rs' rest
      | [] => false
      end
  end.

Definition model_out (c : case) : out :=
  match c with
  | CPrint d _ _ => OPrint (print d) (parse (print d))
  | CParse ls _ => OParse (parse ls)
  | CAnswer cfg pre dc rounds => OAnswer (run_rounds cfg (pre_state pre dc) rounds)
  end.

Definition check_case (c : case) : bool :=
  match c with
  | CPrint d printed reparsed =>
      Sdp.list_eqb line_eqb (print d) printed && Sdp.opt_eqb desc_eqb (parse printed) reparsed
  | CParse ls parsed => Sdp.opt_eqb desc_eqb (parse ls) parsed
  | CAnswer cfg pre dc rounds => rounds_ok (run_rounds cfg (pre_state pre dc) rounds) rounds
  end.

Fixpoint bad_from (i : Z) (cs : list case) : list Z :=
  match cs with
  | [] => []
  | c :: rest => if check_case c then bad_from (i + 1) rest else i :: bad_from (i + 1) rest
  end.
Definition bad_indices (cs : list case) : list Z := bad_from 0 cs.
