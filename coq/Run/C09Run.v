(* C09 correspondence: a case is a transport mode, the initial transceivers, the call list the
   implementation ran (descriptions abstracted to tokens by the harness) and what the
   implementation showed after every call: result class, signaling state, identity of the stored
   local / remote description (-1 = none), and every transceiver's kind / mid / direction /
   payload-map token / extmap token; plus the mid a probe transceiver received at the end.
   The model must reproduce all of it. *)
From Coq Require Import ZArith List Bool.
From RV Require Import Gen.Signaling.
From RV Require Import Model.Signaling.
Import ListNotations.
Open Scope Z_scope.

Record ob : Set := mkOb {
  o_res : result; o_sig : SignalingState; o_local : Z; o_remote : Z; o_txs : list tx }.

Record case : Set := mkCase {
  k_mode : TransportMode; k_init : list tx; k_calls : list call; k_obs : list ob;
  k_probe_env : bool; k_probe : option midv }.

Definition desc_id (o : option desc) : Z := match o with Some d => d_id d | None => -1 end.

Definition ob_of (p : st * result) : ob :=
  mkOb (snd p) (sig (fst p)) (desc_id (local (fst p))) (desc_id (remote (fst p))) (txs (fst p)).

Definition err_eqb (a b : err) : bool :=
  match a, b with
  | EInvalidState, EInvalidState | ENotImplemented, ENotImplemented
  | EInvalidConfig, EInvalidConfig | EInternal, EInternal => true
  | _, _ => false
  end.
Definition result_eqb (a b : result) : bool :=
  match a, b with
  | Ok, Ok => true
  | Err x, Err y => err_eqb x y
  | _, _ => false
  end.
Definition omid_eqb (a b : option midv) : bool :=
  match a, b with
  | None, None => true
  | Some x, Some y => midv_eqb x y
  | _, _ => false
  end.
Definition tx_eqb (a b : tx) : bool :=
  MediaKind_eqb (t_kind a) (t_kind b) && omid_eqb (t_mid a) (t_mid b) &&
  TransceiverDirection_eqb (t_dir a) (t_dir b) && (t_pm a =? t_pm b) && (t_em a =? t_em b).
Fixpoint list_eqb {A} (eqb : A -> A -> bool) (a b : list A) : bool :=
  match a, b with
  | [], [] => true
  | x :: a', y :: b' => eqb x y && list_eqb eqb a' b'
  | _, _ => false
  end.
Definition ob_eqb (a b : ob) : bool :=
  result_eqb (o_res a) (o_res b) && SignalingState_eqb (o_sig a) (o_sig b) &&
  (o_local a =? o_local b) && (o_remote a =? o_remote b) && list_eqb tx_eqb (o_txs a) (o_txs b).

Definition model_out (c : case) : list ob * option midv :=
  (map ob_of (run (k_mode c) (init (k_init c)) (k_calls c)),
   probe (k_mode c) (final (k_mode c) (init (k_init c)) (k_calls c)) (k_probe_env c)).

Definition check_case (c : case) : bool :=
  list_eqb ob_eqb (fst (model_out c)) (k_obs c) && omid_eqb (snd (model_out c)) (k_probe c).

Fixpoint bad_from (i : Z) (cs : list case) : list Z :=
  match cs with
  | [] => []
  | c :: rest => if check_case c then bad_from (i + 1) rest else i :: bad_from (i + 1) rest
  end.
Definition bad_indices (cs : list case) : list Z := bad_from 0 cs.
