(* C10 correspondence: a case is one lattice point plus what the live pair of PeerConnections derived
   for it (a=setup / BUNDLE / rtcp-mux of the descriptions each side generated, DTLS role, negotiated
   use_srtp code, DTLS exporter output, SDES key material, the keys installed in the SRTP session).
   The model must predict all of it from the point alone (exporter / a=crypto bytes are inputs). *)
From Coq Require Import ZArith List Bool.
From RV Require Import Gen.Nego Model.Lattice.
Import ListNotations.
Open Scope Z_scope.
Open Scope bool_scope.

Record side_obs : Set := mkSide {
  s_setups : list Setup;           (* media-level a=setup values of the description this side generated *)
  s_session_setup : option Setup;  (* its session-level a=setup *)
  s_bundle : bool;                 (* a=group:BUNDLE in it *)
  s_mux : bool;                    (* a=rtcp-mux on its audio/video sections *)
  s_role : option bool;            (* PeerConnection dtls_role *)
  s_dtls_client : option bool;     (* is_client of the live DtlsTransport, None if there is none *)
  s_profile : option Z;            (* DtlsState::Connected(_, profile) *)
  s_exporter : list Z;             (* export_keying_material("EXTRACTOR-dtls_srtp", n); [] without DTLS *)
  s_suite : option Suite;          (* suite of the first a=crypto of the description this side generated *)
  s_sdes_local : list Z;           (* decoded inline key||salt: own description / peer's description *)
  s_sdes_remote : list Z;
  s_keys : option srtp_keys }.     (* what the primary RtpTransport's SrtpSession holds *)

(* k_known: the harness' transcription of `layout_known_class` (matcher of listed finding C10-F2) *)
Record case : Set := mkCase { k_point : point; k_known : bool; k_off : side_obs; k_ans : side_obs }.

Definition bool_opt_eqb := opt_eqb Bool.eqb.
Fixpoint setups_eqb (a b : list Setup) : bool :=
  match a, b with
  | [], [] => true
  | x :: a', y :: b' => Setup_eqb x y && setups_eqb a' b'
  | _, _ => false
  end.
Definition Suite_eqb (a b : Suite) : bool :=
  opt_eqb SrtpProfile_eqb (map_crypto_suite a) (map_crypto_suite b) &&
  match a, b with Suite_unknown, Suite_unknown => true | Suite_unknown, _ | _, Suite_unknown => false | _, _ => true end.

(* the keys the model expects a side to install *)
Definition expected_keys (p : point) (role : option bool) (profile : option Z) (suite : Suite) (s : side_obs) : option srtp_keys :=
  match p_mode p with
  | TransportMode_WebRtc =>
      match role with
      | Some r => Some (derive_srtp r profile (s_exporter s))
      | None => None
      end
  | TransportMode_Srtp =>
      match map_crypto_suite suite with
      | Some pr => Some (derive_sdes pr (s_sdes_local s) (s_sdes_remote s))
      | None => None
      end
  | TransportMode_Rtp => None
  end.

Definition side_ok (p : point) (setup : option Setup) (bundle mux : bool) (role : option bool)
           (profile : option Z) (suite : Suite) (s : side_obs) : bool :=
  (* the peer reads back exactly the value the model says was emitted, and the description has the
     shape `described_setups` (one value per section, none at session level) *)
  opt_eqb Setup_eqb (first_setup (s_setups s) (s_session_setup s)) setup &&
  setups_eqb (s_setups s) (fst (described_setups setup (mix_sections (p_mix p)))) &&
  opt_eqb Setup_eqb (s_session_setup s) (snd (described_setups setup (mix_sections (p_mix p)))) &&
  Bool.eqb (s_bundle s) bundle && Bool.eqb (s_mux s) mux &&
  bool_opt_eqb (s_role s) role &&
  bool_opt_eqb (s_dtls_client s) (if is_webrtc (p_mode p) then role else None) &&
  opt_eqb Z.eqb (s_profile s) profile &&
  (negb (is_webrtc (p_mode p)) || Z.eqb (Z.of_nat (length (s_exporter s))) (exporter_len profile)) &&
  opt_eqb Suite_eqb (s_suite s) (if TransportMode_eqb (p_mode p) TransportMode_Srtp then Some suite else None) &&
  opt_eqb keys_eqb (s_keys s) (expected_keys p role profile suite s).

Definition model_out (c : case) : outcome := negotiate (k_point c).

Definition check_case (c : case) : bool :=
  let p := k_point c in
  let o := negotiate p in
  point_valid p && Bool.eqb (k_known c) (layout_known_class p) &&
  side_ok p (o_offer_setup o) (o_offer_bundle o) (o_offer_mux o) (o_role_off o) (o_profile o) sdes_round_offer (k_off c) &&
  side_ok p (o_answer_setup o) (o_answer_bundle o) (o_answer_mux o) (o_role_ans o) (o_profile o) sdes_round_answer (k_ans c).

Fixpoint bad_from (i : Z) (cs : list case) : list Z :=
  match cs with
  | [] => []
  | c :: rest => if check_case c then bad_from (i + 1) rest else i :: bad_from (i + 1) rest
  end.
Definition bad_indices (cs : list case) : list Z := bad_from 0 cs.
