(* C11 correspondence: a case is what the proxy delivered to each live endpoint (as references to
   records emitted by the model's own endpoints plus symbolic tamper operations), in delivery order,
   and what the implementation showed at the end; the symbolic pair model must reproduce it. *)
From Coq Require Import ZArith List Bool.
From RV Require Export Model.DtlsHs Model.DtlsSym.
