(* C12 correspondence: cases, model_out, check_case, bad_indices are those of Model/SctpObs.v
   (shared with C01: one model of the SCTP receive path + DCEP + Open/Close events). *)
From RV Require Export Model.SctpRecv Model.SctpObs.
