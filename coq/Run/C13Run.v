(* C13 correspondence: a case is one scripted association -- configuration, the values fixed by
   the handshake, the macro operations the harness performed (API sends, injected packets, timer
   wake-ups it observed) and every packet the endpoint put on the wire, parsed by the harness'
   own SCTP reader.  The model must reproduce the packets: per packet its length and, per chunk,
   type / flags / TSN / stream / SSN / PPID / payload bytes (SACK: cum, a_rwnd; HEARTBEAT-ACK:
   echoed info); for selected packets the complete bytes including the CRC-32C.

   Macro operations are expanded into the primitive operations of Model/SctpSendSm.v exactly as
   SctpInner::run_loop sequences them (the notify permit is the `s_notify` flag):
     MSend          send_data_raw, then the notified transmit
     MPkt chunks    handle_packet (chunk handlers in order), the post-packet transmit, then the
                    notified transmit if a handler stored a permit
                    -- or, when the packet armed the 1 ms delayed-SACK timer, the sleep branch first
                    (do_pkt_sleep_first); the alternative that continues the observed packet
                    stream is taken
     MSilence       a phase in which the harness only listens.  Each timer wake-up of run_loop is
                    the sleep branch (maybe_send_tlp_probe, handle_timeout, heartbeat), the notified
                    transmit and the probe check at the top of the loop.  Which timers had expired
                    at a wake-up (T3? heartbeat? probe time-out at the loop top?) is decided by
                    std::time::Instant and is not part of the case: the model searches for a
                    sequence of wake-ups (each one of the 8 alternatives, each emitting at least one
                    packet) whose concatenated packets are exactly the packets observed during the
                    phase, with backtracking; no such sequence = disagreement.  The grouping of
                    the observed packets into bursts plays no role (two wake-ups a few ms apart, or
                    one wake-up whose packets arrive spread out, are matched all the same) *)
From Coq Require Import ZArith List Bool.
From RV Require Import Lib.Wrap Gen.Consts Gen.SctpSendGen Model.SctpSend Model.SctpSendSm.
Import ListNotations.
Open Scope Z_scope.

(* payloads: explicit bytes, n copies of b, or the pattern byte_i = (i * a + b) mod 256 for i < n *)
Inductive pay : Set := PBytes (l : list Z) | PFill (n b : Z) | PPat (n a b : Z).
Fixpoint pat_bytes (n : nat) (a x : Z) : list Z :=
  match n with
  | O => []
  | S n' => x :: pat_bytes n' a (let y := x + a in if y <? 256 then y else y - 256)   (* 0 <= a, x < 256 *)
  end.
Definition pay_bytes (p : pay) : list Z :=
  match p with
  | PBytes l => l
  | PFill n b => repeat b (Z.to_nat n)
  | PPat n a b => pat_bytes (Z.to_nat n) (a mod 256) (b mod 256)
  end.

Inductive ichunk : Set :=
| ISack (now cum a_rwnd : Z) (gaps : list (Z * Z))
| IHb (info : list Z)
| IDataNext.

Inductive mop : Set :=
| MSend (sid ppid : Z) (p : pay)
| MPkt (chunks : list ichunk)
| MSilence.            (* a silence phase: timer wake-ups only *)

(* observed chunk *)
Inductive ochunk : Set :=
| OData (tsn sid ssn ppid flags : Z) (p : pay)
| OSack (cum rwnd ngaps ndups : Z)
| OHb (vlen : Z)
| OHbAck (info : list Z)
| OEmpty
| OOther (ty vlen : Z).
(* observed packet: total length, chunks *)
Definition opkt : Set := (Z * list ochunk)%type.

Record case : Set := mkCase {
  k_cfg : cfg;
  k_sport : Z; k_dport : Z; k_tag : Z;
  k_init_tsn : Z; k_peer_rwnd : Z; k_peer_tsn : Z;
  k_ops : list mop;
  k_obs : list (list opkt);          (* per macro operation *)
  k_tail : list opkt;                (* packets seen after the last operation *)
  k_raw : list (Z * list Z)          (* (index into the data-bearing packets, complete bytes) *)
}.

(* ---------------------------------------------------------------- run-loop expansion *)
Definition settle (c : cfg) (s : st) : st * list packet :=
  let s := flush_sack_delay s in
  if s_notify s then
    let '(s', o) := transmit c (set_notify s false) in (flush_sack_delay s', o)
  else (s, []).

Fixpoint handle_chunks (c : cfg) (s : st) (chunks : list ichunk) : st * list packet :=
  match chunks with
  | [] => (s, [])
  | ch :: rest =>
      let '(s1, o1) := match ch with
                       | ISack now cum a_rwnd gaps => handle_sack c s now cum a_rwnd gaps
                       | IHb info => (s, [[WHeartbeatAck info]])
                       | IDataNext => (handle_data_next s, [])
                       end in
      let '(s2, o2) := handle_chunks c s1 rest in
      (s2, o1 ++ o2)
  end.

Definition do_pkt (c : cfg) (s : st) (chunks : list ichunk) : st * list packet :=
  let '(s1, o1) := handle_chunks c s chunks in
  let '(s2, o2) := transmit c s1 in
  let '(s3, o3) := settle c s2 in
  (s3, o1 ++ o2 ++ o3).

(* The other legal schedule after a packet that armed the delayed-SACK timer (an in-order DATA chunk;
   SACK_DELAY = 0, so run_loop computes a 1 ms sleep): if the 1 ms sleep is already due when select!
   first polls it (the task was preempted for a millisecond), the sleep branch may win over the stored
   notify permit; it calls maybe_send_tlp_probe unconditionally, i.e. the tail chunk is retransmitted
   together with the SACK.  Which branch wins is decided by tokio / the OS, not by the case. *)
Definition do_pkt_sleep_first (c : cfg) (s : st) (chunks : list ichunk) : option (st * list packet) :=
  let '(s1, o1) := handle_chunks c s chunks in
  let '(s2, o2) := transmit c s1 in
  if s_sack_delayed s2 then
    let '(s3, o3) := settle c (handle_tlp (flush_sack_delay s2)) in
    Some (s3, o1 ++ o2 ++ o3)
  else None.

(* `top`: the tail-loss-probe check at the top of run_loop (tlp_timeout(now) <= 1 ms) fires after
   the notified transmit -- it can, because handle_timeout re-arms the probe and the retransmission
   puts the record back in flight while last_send_or_ack is old *)
Definition do_wake (c : cfg) (s : st) (t3 hb top : bool) : st * list packet :=
  let s := handle_tlp s in
  let s := if t3 then handle_t3 s else s in
  let hbo := if hb then [[WHeartbeat 0]] else [] in
  let '(s1, o1) := settle c s in
  let '(s2, o2) := if top then settle c (handle_tlp s1) else (s1, []) in
  (s2, hbo ++ o1 ++ o2).

(* ---------------------------------------------------------------- canonical form of model output *)
Definition to_ochunk (w : wchunk) : ochunk :=
  match w with
  | WData _ tsn d => OData tsn (d_sid d) (d_ssn d) (d_ppid d) (d_flags d) (PBytes (d_data d))
  | WEmpty => OEmpty
  | WSack cum rwnd => OSack cum rwnd 0 0
  | WHeartbeat _ => OHb 8
  | WHeartbeatAck info => OHbAck info
  end.
Definition to_opkt (p : packet) : opkt :=
  (SCTP_COMMON_HEADER_SIZE + total_size wchunk_size p, map to_ochunk p).

Fixpoint zlist_eqb (a b : list Z) : bool :=
  match a, b with
  | [], [] => true
  | x :: a', y :: b' => (x =? y) && zlist_eqb a' b'
  | _, _ => false
  end.
Definition ochunk_eqb (a b : ochunk) : bool :=
  match a, b with
  | OData t1 s1 n1 p1 f1 d1, OData t2 s2 n2 p2 f2 d2 =>
      (t1 =? t2) && (s1 =? s2) && (n1 =? n2) && (p1 =? p2) && (f1 =? f2) && zlist_eqb (pay_bytes d1) (pay_bytes d2)
  | OSack c1 r1 g1 d1, OSack c2 r2 g2 d2 => (c1 =? c2) && (r1 =? r2) && (g1 =? g2) && (d1 =? d2)
  | OHb l1, OHb l2 => l1 =? l2
  | OHbAck i1, OHbAck i2 => zlist_eqb i1 i2
  | OEmpty, OEmpty => true
  | OOther t1 l1, OOther t2 l2 => (t1 =? t2) && (l1 =? l2)
  | _, _ => false
  end.
Fixpoint list_eqb {A : Type} (eqb : A -> A -> bool) (a b : list A) : bool :=
  match a, b with
  | [], [] => true
  | x :: a', y :: b' => eqb x y && list_eqb eqb a' b'
  | _, _ => false
  end.
Definition opkt_eqb (a b : opkt) : bool := (fst a =? fst b) && list_eqb ochunk_eqb (snd a) (snd b).

(* an observed packet never shows a zero-length chunk: drop the model's WEmpty markers *)
Definition strip_empty (p : opkt) : opkt :=
  (fst p, filter (fun c => match c with OEmpty => false | _ => true end) (snd p)).
Definition is_hback_pkt (p : opkt) : bool :=
  match snd p with [OHbAck _] => true | _ => false end.

(* ---------------------------------------------------------------- silence phases: search for the wake-ups *)
(* (t3, hb, top) alternatives of one wake-up, the most frequent first *)
Definition wake_cands : list (bool * bool * bool) :=
  [(false, false, false); (true, false, false); (false, false, true); (true, false, true);
   (false, true, false); (true, true, false); (false, true, true); (true, true, true)].

(* Some rest: b = a ++ rest *)
Fixpoint strip_prefix (a b : list opkt) : option (list opkt) :=
  match a, b with
  | [], _ => Some b
  | x :: a', y :: b' => if opkt_eqb x y then strip_prefix a' b' else None
  | _ :: _, [] => None
  end.
Definition canon (out : list packet) : list opkt := map (fun p => strip_empty (to_opkt p)) out.

(* wake-ups that emit nothing change nothing (handle_tlp / handle_t3 / heartbeat each emit when they act);
   the last wake-up may be cut short by the end of the phase (its remaining packets are then read by
   the next operation; the overall comparison is on the flattened packet sequence) *)
Fixpoint wake_search (cut : bool) (fuel : nat) (c : cfg) (s : st) (rem : list opkt) : option (st * list packet) :=
  match rem with
  | [] => Some (s, [])
  | _ =>
      match fuel with
      | O => None
      | S f =>
          (fix try (cands : list (bool * bool * bool)) : option (st * list packet) :=
             match cands with
             | [] => None
             | (t3, hb, top) :: cs =>
                 let '(s', out) := do_wake c s t3 hb top in
                 let o := canon out in
                 match o with
                 | [] => try cs
                 | _ =>
                     match strip_prefix o rem with
                     | Some rem' =>
                         match wake_search cut f c s' rem' with
                         | Some (s2, out2) => Some (s2, out ++ out2)
                         | None => try cs
                         end
                     | None =>
                         if cut then
                           match strip_prefix rem o with
                           | Some _ => Some (s', out)
                           | None => try cs
                           end
                         else try cs
                     end
                 end
             end) wake_cands
      end
  end.

(* ---------------------------------------------------------------- running a case *)
Definition non_hback (l : list opkt) : list opkt := filter (fun p => negb (is_hback_pkt p)) l.

(* `stream`: the packets observed from here on (all operations, fence echoes removed) *)
Definition do_mop (c : cfg) (s : st) (m : mop) (obs stream : list opkt) : st * list packet :=
  match m with
  | MSend sid ppid p => settle c (enqueue c s sid ppid (pay_bytes p))
  | MPkt chunks =>
      let a := do_pkt c s chunks in
      match do_pkt_sleep_first c s chunks with
      | None => a
      | Some b =>
          match strip_prefix (non_hback (canon (snd a))) stream with
          | Some _ => a
          | None => match strip_prefix (non_hback (canon (snd b))) stream with Some _ => b | None => a end
          end
      end
  | MSilence =>
      match wake_search false (S (length obs)) c s obs with
      | Some r => r
      | None => match wake_search true (S (length obs)) c s obs with
                | Some r => r
                | None => (s, [])
                end
      end
  end.

Fixpoint run_mops (c : cfg) (s : st) (ms : list mop) (obs : list (list opkt)) (stream : list opkt)
  : st * list (list packet) :=
  match ms with
  | [] => (s, [])
  | m :: rest =>
      let o := match obs with [] => [] | o :: _ => o end in
      let '(s1, out1) := do_mop c s m o stream in
      let '(s2, outs) := run_mops c s1 rest (tl obs) (skipn (length (non_hback (canon out1))) stream) in
      (s2, out1 :: outs)
  end.

Definition model_packets (k : case) : list packet :=
  concat (snd (run_mops (k_cfg k) (init_state (k_init_tsn k) (k_peer_rwnd k) (k_peer_tsn k)) (k_ops k) (k_obs k)
                        (non_hback (concat (k_obs k) ++ k_tail k)))).
Definition model_out (k : case) : list opkt := map (fun p => strip_empty (to_opkt p)) (model_packets k).

Definition split_hback (l : list opkt) : list opkt * list opkt :=
  (filter (fun p => negb (is_hback_pkt p)) l, filter is_hback_pkt l).

Fixpoint raw_ok (k : case) (pk : list packet) (raw : list (Z * list Z)) : bool :=
  match raw with
  | [] => true
  | (i, bytes) :: rest =>
      match nth_error pk (Z.to_nat i) with
      | Some p => zlist_eqb (packet_bytes (k_sport k) (k_dport k) (k_tag k) p) bytes && raw_ok k pk rest
      | None => false
      end
  end.

Definition is_hback_packet (p : packet) : bool :=
  match p with [WHeartbeatAck _] => true | _ => false end.

Definition check_case (k : case) : bool :=
  let pk := model_packets k in
  let mo := split_hback (map (fun p => strip_empty (to_opkt p)) pk) in
  let ob := split_hback (concat (k_obs k) ++ k_tail k) in
  list_eqb opkt_eqb (fst mo) (fst ob) &&
  list_eqb opkt_eqb (snd mo) (snd ob) &&
  match k_raw k with
  | [] => true
  | raw => raw_ok k (filter (fun p => negb (is_hback_packet p)) pk) raw
  end.

Fixpoint bad_from (i : Z) (cs : list case) : list Z :=
  match cs with
  | [] => []
  | c :: rest => if check_case c then bad_from (i + 1) rest else i :: bad_from (i + 1) rest
  end.
Definition bad_indices (cs : list case) : list Z := bad_from 0 cs.
