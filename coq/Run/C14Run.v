(* C14 correspondence: a case is the mode (required flag of the transport and of the bridge target), the
   operation list the implementation ran, and what the harness observed after every operation (datagrams on
   the two peer sockets classified as protected-under-key-set / clear, packets that reached each sink, and the
   result of the call); the model must reproduce the observations operation by operation. *)
From Coq Require Import ZArith List Bool.
From RV Require Import Gen.SendSites.
From RV Require Import Model.Gate.
Import ListNotations.
Open Scope Z_scope.

Inductive eobs : Set :=
| W (s : sock) (k : option Z) (p : Z)     (* datagram on socket s: Some ks = unprotects under the Tx half of ks; None = clear *)
| D (k : sink) (p : Z)                    (* packet p reached sink k *)
| R (ok : bool).                          (* the call returned Ok / Err *)

Record case : Set := mkCase { k_ra : bool; k_rb : bool; k_ops : list op; k_obs : list (list eobs) }.

Definition erase (o : out) : eobs :=
  match o with
  | Wire s (Prot k Tx p) => W s (Some k) p
  | Wire s (Prot k Rx p) => W s (Some (- k - 1)) p      (* never produced by the model *)
  | Wire s (Clear p) => W s None p
  | Deliver k d => D k (dlv_pid d)
  | Ret b => R b
  end.

Definition sock_eqb (x y : sock) : bool :=
  match x, y with SockA, SockA => true | SockB, SockB => true | _, _ => false end.
Definition sink_eqb (x y : sink) : bool :=
  match x, y with
  | SListener, SListener | SRtcpListener, SRtcpListener | SObsIn, SObsIn | SObsOut, SObsOut | SBridge, SBridge => true
  | _, _ => false
  end.
Definition optz_eqb (x y : option Z) : bool :=
  match x, y with Some u, Some v => u =? v | None, None => true | _, _ => false end.
Definition eobs_eqb (x y : eobs) : bool :=
  match x, y with
  | W s k p, W s' k' p' => sock_eqb s s' && optz_eqb k k' && (p =? p')
  | D k p, D k' p' => sink_eqb k k' && (p =? p')
  | R u, R v => Bool.eqb u v
  | _, _ => false
  end.
Fixpoint list_eqb {A : Type} (f : A -> A -> bool) (x y : list A) : bool :=
  match x, y with
  | [], [] => true
  | u :: x', v :: y' => f u v && list_eqb f x' y'
  | _, _ => false
  end.

(* protected RTCP bytes handed to the plain RTCP parser (no session, not required): whether they happen to
   parse depends on the ciphertext; the property says nothing about that mode, the comparison skips the op *)
Definition dontcare (s : st) (o : op) : bool :=
  match o with
  | RecvRtcp (Prot _ _ _) =>
      match gate_recv_rtcp (has (a s)) (required (a s)) with RPlain => true | _ => false end
  | _ => false
  end.

Fixpoint model_trace (s : st) (ops : list op) : list (list eobs) :=
  match ops with
  | [] => []
  | o :: r => map erase (snd (step s o)) :: model_trace (fst (step s o)) r
  end.

Definition model_out (c : case) : list (list eobs) := model_trace (init (k_ra c) (k_rb c)) (k_ops c).

Fixpoint agree (s : st) (ops : list op) (obs : list (list eobs)) : bool :=
  match ops, obs with
  | [], [] => true
  | o :: r, x :: obs' =>
      (dontcare s o || list_eqb eobs_eqb (map erase (snd (step s o))) x) && agree (fst (step s o)) r obs'
  | _, _ => false
  end.

Definition check_case (c : case) : bool := agree (init (k_ra c) (k_rb c)) (k_ops c) (k_obs c).

Fixpoint bad_from (i : Z) (cs : list case) : list Z :=
  match cs with
  | [] => []
  | c :: rest => if check_case c then bad_from (i + 1) rest else i :: bad_from (i + 1) rest
  end.
Definition bad_indices (cs : list case) : list Z := bad_from 0 cs.
