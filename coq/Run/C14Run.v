(* C14 correspondence: a case is the mode (required flag of the transport and of the bridge target), the
   operation list the implementation ran, and what the harness observed after every operation (datagrams on
   the two peer sockets classified as protected-under-key-set / clear, packets that reached each sink, and the
   result of the call); the model must reproduce the observations operation by operation. *)
From Coq Require Import ZArith List Bool.
From RV Require Import Gen.SendSites.
From RV Require Import Model.Gate.
From RV Require Import Model.RtpLib.
From RV Require Import Model.Rtcp.
Import ListNotations.
Open Scope Z_scope.

Inductive eobs : Set :=
| W (s : sock) (k : option Z) (p : Z)     (* datagram on socket s: Some ks = unprotects under the Tx half of ks; None = clear *)
| D (k : sink) (p : Z)                    (* packet p reached sink k *)
| R (ok : bool).                          (* the call returned Ok / Err *)

(* k_da / k_db: datagram (UDP) or RFC 4571 TCP socket; k_raw: for every operation the bytes of the injected
   datagram where the outcome depends on them (protected RTCP fed to the plain parser), [] elsewhere *)
Record case : Set := mkCase { k_da : bool; k_db : bool; k_ra : bool; k_rb : bool; k_ops : list op;
                              k_raw : list (list Z); k_obs : list (list eobs) }.

Definition erase (o : out) : eobs :=
  match o with
  | Wire s (Prot k Tx p) => W s (Some k) p
  | Wire s (Prot k Rx p) => W s (Some (- k - 1)) p      (* never produced by the model *)
  | Wire s (Clear p) => W s None p
  | Deliver k d => D k (dlv_pid d)
  | Ret b => R b
  end.

Definition sock_eqb (x y : sock) : bool :=
  match x, y with SockA, SockA => true | SockB, SockB => true | _, _ => false end.
Definition sink_eqb (x y : sink) : bool :=
  match x, y with
  | SListener, SListener | SRtcpListener, SRtcpListener | SObsIn, SObsIn | SObsOut, SObsOut | SBridge, SBridge => true
  | _, _ => false
  end.
Definition optz_eqb (x y : option Z) : bool :=
  match x, y with Some u, Some v => u =? v | None, None => true | _, _ => false end.
Definition eobs_eqb (x y : eobs) : bool :=
  match x, y with
  | W s k p, W s' k' p' => sock_eqb s s' && optz_eqb k k' && (p =? p')
  | D k p, D k' p' => sink_eqb k k' && (p =? p')
  | R u, R v => Bool.eqb u v
  | _, _ => false
  end.
Fixpoint list_eqb {A : Type} (f : A -> A -> bool) (x y : list A) : bool :=
  match x, y with
  | [], [] => true
  | u :: x', v :: y' => f u v && list_eqb f x' y'
  | _, _ => false
  end.

(* protected RTCP bytes handed to the plain RTCP parser (no session, not required -- see
   C14_plain_rtcp_only_unprotected_mode): whether the RTCP listener gets something is decided by the byte-level
   model of parse_rtcp_packets (Model/Rtcp.v, C15) on the injected bytes; the packet id inside is ciphertext *)
Definition plain_rtcp_expect (s : st) (raw : list Z) (x : list eobs) : bool :=
  match parse_rtcp raw with
  | Ok _ => if closed s then match x with [] => true | _ => false end
            else match x with [D SRtcpListener _] => true | _ => false end
  | _ => match x with [] => true | _ => false end
  end.

Fixpoint model_trace (s : st) (ops : list op) : list (list eobs) :=
  match ops with
  | [] => []
  | o :: r => map erase (snd (step s o)) :: model_trace (fst (step s o)) r
  end.

Definition start (c : case) : st := init_on (k_da c) (k_db c) (k_ra c) (k_rb c).
Definition model_out (c : case) : list (list eobs) := model_trace (start c) (k_ops c).

Fixpoint agree (s : st) (ops : list op) (raws : list (list Z)) (obs : list (list eobs)) : bool :=
  match ops, raws, obs with
  | [], [], [] => true
  | o :: r, raw :: raws', x :: obs' =>
      (if plain_rtcp_path s o then plain_rtcp_expect s raw x
       else list_eqb eobs_eqb (map erase (snd (step s o))) x)
      && agree (fst (step s o)) r raws' obs'
  | _, _, _ => false
  end.

Definition check_case (c : case) : bool := agree (start c) (k_ops c) (k_raw c) (k_obs c).

Fixpoint bad_from (i : Z) (cs : list case) : list Z :=
  match cs with
  | [] => []
  | c :: rest => if check_case c then bad_from (i + 1) rest else i :: bad_from (i + 1) rest
  end.
Definition bad_indices (cs : list case) : list Z := bad_from 0 cs.
