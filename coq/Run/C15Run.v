(* C15 correspondence: each case carries the input the harness gave to the real rustrtc function
   and what that function returned (canonicalised to Ok value / Err class / Panic); the model must
   produce exactly the same result. *)
From Coq Require Import ZArith List Bool.
From RV Require Import Model.RtpLib.
From RV Require Import Model.Rtp.
From RV Require Import Model.Nack.
From RV Require Import Model.Rtcp.
From RV Require Import Model.NackSend.
Import ListNotations.
Open Scope Z_scope.

Definition opt_eqb {A : Type} (f : A -> A -> bool) (a b : option A) : bool :=
  match a, b with
  | None, None => true
  | Some x, Some y => f x y
  | _, _ => false
  end.
Definition res_eqb {A : Type} (f : A -> A -> bool) (a b : res A) : bool :=
  match a, b with
  | Ok x, Ok y => f x y
  | Err x, Err y => err_eqb x y
  | Panic, Panic => true
  | _, _ => false
  end.

Definition ext_eqb (a b : ext) : bool :=
  (x_profile a =? x_profile b) && zlist_eqb (x_data a) (x_data b).
Definition header_eqb (a b : header) : bool :=
  Bool.eqb (h_marker a) (h_marker b) && (h_pt a =? h_pt b) && (h_seq a =? h_seq b) &&
  (h_ts a =? h_ts b) && (h_ssrc a =? h_ssrc b) && zlist_eqb (h_csrcs a) (h_csrcs b) &&
  opt_eqb ext_eqb (h_ext a) (h_ext b).
Definition packet_eqb (a b : packet) : bool :=
  header_eqb (p_hdr a) (p_hdr b) && zlist_eqb (p_payload a) (p_payload b) && (p_padlen a =? p_padlen b).

Inductive sop : Type :=
| SSent (p : packet)                    (* on_packet_sent *)
| SSetRtx (ssrc : Z)                    (* set_rtx(Some{rtx_ssrc}) / set_rtx(None) = 0 *)
| SNack (seqs : list Z) (now : Z).      (* packets_for_nack(seqs, t0 + now microseconds) *)

Fixpoint sender_run (h : shandler) (ops : list sop) : list (Z * list packet * Z) :=
  match ops with
  | [] => []
  | SSent p :: t => let h' := sh_on_sent h p in (sb_len (sh_buf h'), [], sh_supp h') :: sender_run h' t
  | SSetRtx s :: t => let h' := sh_set_rtx h s in (sb_len (sh_buf h'), [], sh_supp h') :: sender_run h' t
  | SNack seqs now :: t =>
      let '(h', out) := sh_packets_for_nack h seqs now in (sb_len (sh_buf h'), out, sh_supp h') :: sender_run h' t
  end.

Inductive case : Type :=
| KParse (raw : list Z) (impl : res packet)                         (* RtpPacket::parse *)
| KMarshal (p : packet) (impl : res (list Z))                        (* RtpPacket::marshal *)
| KGetExt (h : header) (id : Z) (impl : res (option (list Z)))       (* RtpHeader::get_extension *)
| KSetExt (h : header) (id : Z) (data : list Z) (impl : res header)  (* RtpHeader::set_extension *)
| KNackPack (lost : list Z) (impl : list (Z * Z))                    (* pack_nack_pairs, read off build_nack_body's bytes *)
| KNackUnpack (pairs : list (Z * Z)) (impl : list Z)                 (* parse_nack_body's expansion *)
| KRtxWrap (p : packet) (ssrc pt sq : Z) (impl : packet)             (* rtx::wrap_rtx_packet *)
| KRtxUnwrap (p : packet) (ssrc pt : Z) (impl : option packet)       (* rtx::unwrap_rtx_packet *)
| KGap (pkts : list (Z * Z)) (impl : list (option (list Z)))         (* DefaultRtpReceiverNackHandler, (seq, ssrc) per packet *)
| KRtcpMarshal (ps : list rtcp) (impl : res (list Z))                (* marshal_rtcp_packets *)
| KRtcpParse (raw : list Z) (impl : res (list rtcp))                 (* parse_rtcp_packets *)
| KSender (max : Z) (ops : list sop) (impl : list (Z * list packet * Z)). (* DefaultRtpSenderNackHandler: per op (buffered count, packets handed out, suppressed counter) *)

Fixpoint pairs_eqb (a b : list (Z * Z)) : bool :=
  match a, b with
  | [], [] => true
  | (x1, y1) :: a', (x2, y2) :: b' => (x1 =? x2) && (y1 =? y2) && pairs_eqb a' b'
  | _, _ => false
  end.

(* run the handler model; once the pending set went over its bound (eviction order = HashSet iteration
   order, not modelled) the remaining outputs are not compared *)
Fixpoint gap_run (st : nstate) (pkts : list (Z * Z)) (impl : list (option (list Z))) : bool :=
  match pkts, impl with
  | [], [] => true
  | (sq, ssrc) :: pkts', o :: impl' =>
      let '(st', lost, over) := nack_step st sq ssrc in
      opt_eqb zlist_eqb lost o && (if over then true else gap_run st' pkts' impl')
  | _, _ => false
  end.
Fixpoint gap_outs (st : nstate) (pkts : list (Z * Z)) : list (option (list Z)) :=
  match pkts with
  | [] => []
  | (sq, ssrc) :: pkts' => let '(st', lost, over) := nack_step st sq ssrc in lost :: (if over then [] else gap_outs st' pkts')
  end.

Fixpoint list_eqb {A : Type} (f : A -> A -> bool) (a b : list A) : bool :=
  match a, b with
  | [], [] => true
  | x :: a', y :: b' => f x y && list_eqb f a' b'
  | _, _ => false
  end.
Definition rb_eqb (a b : report_block) : bool :=
  (rb_ssrc a =? rb_ssrc b) && (rb_fraction a =? rb_fraction b) && (rb_lost a =? rb_lost b) &&
  (rb_highest a =? rb_highest b) && (rb_jitter a =? rb_jitter b) && (rb_lsr a =? rb_lsr b) && (rb_dlsr a =? rb_dlsr b).
Definition item_eqb (a b : sdes_item) : bool := (it_ty a =? it_ty b) && zlist_eqb (it_text a) (it_text b).
Definition chunk_eqb (a b : sdes_chunk) : bool := (ch_ssrc a =? ch_ssrc b) && list_eqb item_eqb (ch_items a) (ch_items b).
Definition fir_eqb (a b : fir_req) : bool := (fr_ssrc a =? fr_ssrc b) && (fr_seq a =? fr_seq b).
Definition rtcp_eqb (a b : rtcp) : bool :=
  match a, b with
  | SR a1 a2 a3 a4 a5 a6 al, SR b1 b2 b3 b4 b5 b6 bl =>
      (a1 =? b1) && (a2 =? b2) && (a3 =? b3) && (a4 =? b4) && (a5 =? b5) && (a6 =? b6) && list_eqb rb_eqb al bl
  | RR a1 al, RR b1 bl => (a1 =? b1) && list_eqb rb_eqb al bl
  | SDES ac, SDES bc => list_eqb chunk_eqb ac bc
  | BYE sa ra, BYE sb rb => zlist_eqb sa sb && opt_eqb zlist_eqb ra rb
  | PLI a1 a2, PLI b1 b2 => (a1 =? b1) && (a2 =? b2)
  | FIR a1 al, FIR b1 bl => (a1 =? b1) && list_eqb fir_eqb al bl
  | NACK a1 a2 al, NACK b1 b2 bl => (a1 =? b1) && (a2 =? b2) && zlist_eqb al bl
  | REMB a1 a2 al, REMB b1 b2 bl => (a1 =? b1) && (a2 =? b2) && zlist_eqb al bl
  | TWCC a1 a2 a3 a4 a5 a6 ap, TWCC b1 b2 b3 b4 b5 b6 bp =>
      (a1 =? b1) && (a2 =? b2) && (a3 =? b3) && (a4 =? b4) && (a5 =? b5) && (a6 =? b6) && zlist_eqb ap bp
  | _, _ => false
  end.

Definition sobs_eqb (a b : Z * list packet * Z) : bool :=
  let '(c1, o1, s1) := a in let '(c2, o2, s2) := b in (c1 =? c2) && list_eqb packet_eqb o1 o2 && (s1 =? s2).

Inductive out : Type :=
| OSender (r : list (Z * list packet * Z))
| ORtcp (r : res (list rtcp))
| OPairs (r : list (Z * Z))
| OList (r : list Z)
| OPkt (r : packet)
| OOptPkt (r : option packet)
| OGap (r : list (option (list Z)))
| OPacket (r : res packet)
| OBytes (r : res (list Z))
| OOptBytes (r : res (option (list Z)))
| OHeader (r : res header).

Definition model_out (c : case) : out :=
  match c with
  | KParse raw _ => OPacket (parse_packet raw)
  | KMarshal p _ => OBytes (marshal_packet p)
  | KGetExt h id _ => OOptBytes (get_extension h id)
  | KSetExt h id d _ => OHeader (set_extension h id d)
  | KNackPack l _ => OPairs (pack_nack_pairs l)
  | KNackUnpack ps _ => OList (unpack_pairs ps)
  | KRtxWrap p s t q _ => OPkt (wrap_rtx p s t q)
  | KRtxUnwrap p s t _ => OOptPkt (unwrap_rtx p s t)
  | KGap pk _ => OGap (gap_outs nack_init pk)
  | KRtcpMarshal ps _ => OBytes (marshal_rtcp ps)
  | KRtcpParse raw _ => ORtcp (parse_rtcp raw)
  | KSender mx ops _ => OSender (sender_run (sh_new mx) ops)
  end.

Definition check_case (c : case) : bool :=
  match c with
  | KParse raw impl => res_eqb packet_eqb (parse_packet raw) impl
  | KMarshal p impl => res_eqb zlist_eqb (marshal_packet p) impl
  | KGetExt h id impl => res_eqb (opt_eqb zlist_eqb) (get_extension h id) impl
  | KSetExt h id d impl => res_eqb header_eqb (set_extension h id d) impl
  | KNackPack l impl => pairs_eqb (pack_nack_pairs l) impl
  | KNackUnpack ps impl => zlist_eqb (unpack_pairs ps) impl
  | KRtxWrap p s t q impl => packet_eqb (wrap_rtx p s t q) impl
  | KRtxUnwrap p s t impl => opt_eqb packet_eqb (unwrap_rtx p s t) impl
  | KGap pk impl => gap_run nack_init pk impl
  | KRtcpMarshal ps impl => res_eqb zlist_eqb (marshal_rtcp ps) impl
  | KRtcpParse raw impl => res_eqb (list_eqb rtcp_eqb) (parse_rtcp raw) impl
  | KSender mx ops impl => list_eqb sobs_eqb (sender_run (sh_new mx) ops) impl
  end.

Fixpoint bad_from (i : Z) (cs : list case) : list Z :=
  match cs with
  | [] => []
  | c :: rest => if check_case c then bad_from (i + 1) rest else i :: bad_from (i + 1) rest
  end.
Definition bad_indices (cs : list case) : list Z := bad_from 0 cs.
