(* C16 correspondence: every case carries an input and what the implementation produced for it;
   the model must reproduce the output.  HMAC-SHA1 is interpreted by the concrete Gallina
   implementation of Model/Sha1.v (validated by RFC test vectors and, through this very
   comparison, against the RustCrypto crates the implementation calls). *)
From Coq Require Import ZArith List Bool.
From RV Require Import Lib.Wrap.
From RV Require Import Gen.Consts.
From RV Require Import Gen.IcePrio.
From RV Require Import Gen.StunCodes.
From RV Require Import Model.StunLib.
From RV Require Import Model.Sha1.
From RV Require Import Model.Stun.
From RV Require Import Gen.IceCandStr.
From RV Require Import Model.Candidate.
From RV Require Import Gen.TurnConsts.
From RV Require Import Model.Turn.
Import ListNotations.
Open Scope Z_scope.
Open Scope bool_scope.

Inductive case : Set :=
(* (local priority, remote priority, impl as Controlling, impl as Controlled) *)
| KPair (items : list (Z * Z * Z * Z))
(* kind 0 = IceCandidate::host, 1/2/3 = host_tcp Active/Passive/So; (component, impl priority) *)
| KPrio (kind : Z) (items : list (Z * Z))
| KEnc (m : msg) (key : option (list Z)) (fp : bool) (out : list Z)
| KDec (b : list Z) (r : dres)
(* IceCandidate::to_sdp: candidate, lexed output line *)
| KCandTo (c : cand) (out : list tok)
(* IceCandidate::from_sdp: lexed input line, result (None = Err) *)
| KCandFrom (parts : list tok) (r : option cand)
(* Allocate requests captured from a real TurnClient talking to the harness' scripted server *)
| KTurnPlain (txid : list Z) (out : list Z)
| KTurnAuth (txid user realm nonce pass : list Z) (out : list Z)
| KTurnDestroy (txid user realm nonce pass : list Z) (out : list Z)
| KProbe (txid : list Z) (out : list Z)
(* the last request of the Allocate retry loop after the given challenge history (realm, nonce) *)
| KTurnAllocN (txid user pass : list Z) (hist : list (list Z * list Z)) (out : list Z)
| KTurnPerm (txid user realm nonce pass : list Z) (peer : addr) (out : list Z)
| KTurnBind (txid : list Z) (idx ch : Z) (user realm nonce pass : list Z) (peer : addr) (out : list Z)
| KTurnSend (txid user realm nonce pass : list Z) (peer : addr) (data : list Z) (out : list Z)
| KChanData (ch : Z) (data : list Z) (out : list Z)
(* the channel numbers of one client, ascending *)
| KChanSeq (chs : list Z)
(* one unit as TurnClient::send wrote it to a TCP stream *)
| KTcpFrame (m : list Z) (out : list Z)
(* priority of a gathered candidate of the given type (srflx via STUN probe, relay via TURN) *)
| KPrioT (t : IceCandidateType) (component : Z) (out : Z).

(* ---- equality tests *)
Definition addr_eqb (a b : addr) : bool :=
  match a, b with
  | V4 i p, V4 j q => list_eqb i j && (p =? q)
  | V6 i p, V6 j q => list_eqb i j && (p =? q)
  | _, _ => false
  end.
Definition opt_eqb {A : Type} (f : A -> A -> bool) (a b : option A) : bool :=
  match a, b with
  | None, None => true
  | Some x, Some y => f x y
  | _, _ => false
  end.
Definition derr_eqb (a b : derr) : bool :=
  match a, b with
  | ETooShort, ETooShort | ELengthMismatch, ELengthMismatch | EMethod, EMethod | EClass, EClass => true
  | _, _ => false
  end.
Definition decoded_eqb (a b : decoded) : bool :=
  StunClass_eqb (d_class a) (d_class b) && StunMethod_eqb (d_method a) (d_method b) &&
  list_eqb (d_txid a) (d_txid b) &&
  opt_eqb addr_eqb (d_xor_mapped a) (d_xor_mapped b) &&
  opt_eqb addr_eqb (d_xor_relayed a) (d_xor_relayed b) &&
  opt_eqb addr_eqb (d_xor_peer a) (d_xor_peer b) &&
  opt_eqb Z.eqb (d_error_code a) (d_error_code b) &&
  opt_eqb list_eqb (d_realm a) (d_realm b) && opt_eqb list_eqb (d_nonce a) (d_nonce b) &&
  opt_eqb list_eqb (d_data a) (d_data b) && Bool.eqb (d_use_candidate a) (d_use_candidate b) &&
  opt_eqb Z.eqb (d_lifetime a) (d_lifetime b).
Definition dres_eqb (a b : dres) : bool :=
  match a, b with
  | DOk x, DOk y => decoded_eqb x y
  | DErr x, DErr y => derr_eqb x y
  | _, _ => false
  end.

Definition tok_eqb (a b : tok) : bool :=
  match a, b with
  | TWord x, TWord y => list_eqb x y
  | TIp4 x, TIp4 y => list_eqb x y
  | TIp6 x s, TIp6 y t => list_eqb x y && opt_eqb Z.eqb s t
  | _, _ => false
  end.
Fixpoint toks_eqb (a b : list tok) : bool :=
  match a, b with
  | [], [] => true
  | x :: a', y :: b' => tok_eqb x y && toks_eqb a' b'
  | _, _ => false
  end.
Definition ip_eqb (a b : ip) : bool :=
  match a, b with
  | IP4 x, IP4 y | IP6 x, IP6 y => list_eqb x y
  | _, _ => false
  end.
Definition saddr_eqb (a b : saddr) : bool :=
  ip_eqb (sa_ip a) (sa_ip b) && (sa_port a =? sa_port b) && (sa_scope a =? sa_scope b).
Definition cand_eqb (a b : cand) : bool :=
  tok_eqb (c_foundation a) (c_foundation b) && (c_priority a =? c_priority b) &&
  saddr_eqb (c_addr a) (c_addr b) && IceCandidateType_eqb (c_typ a) (c_typ b) &&
  tok_eqb (c_transport a) (c_transport b) && opt_eqb TcpType_eqb (c_tcp a) (c_tcp b) &&
  opt_eqb saddr_eqb (c_raddr a) (c_raddr b) && (c_component a =? c_component b).

Definition model_alloc_n (txid user pass : list Z) (hist : list (list Z * list Z)) : list Z :=
  let n := S (length hist) in
  last (alloc_loop hmac_sha1 md5 user pass n None (repeat txid n) (map Some hist)) [].

(* ---- the model's answer, in the shape of the case *)
Definition model_prio (kind c : Z) : Z :=
  if kind =? 0 then priority_for IceCandidateType_Host c
  else if kind =? 1 then priority_for_tcp IceCandidateType_Host c TcpType_Active
  else if kind =? 2 then priority_for_tcp IceCandidateType_Host c TcpType_Passive
  else priority_for_tcp IceCandidateType_Host c TcpType_So.

Definition model_out (c : case) : case :=
  match c with
  | KPair items =>
      KPair (map (fun '(l, r, _, _) =>
                    (l, r, pair_priority l r IceRole_Controlling, pair_priority l r IceRole_Controlled)) items)
  | KPrio kind items => KPrio kind (map (fun '(c, _) => (c, model_prio kind c)) items)
  | KEnc m key fp _ => KEnc m key fp (encode hmac_sha1 m key fp)
  | KDec b _ => KDec b (decode b)
  | KCandTo c _ => KCandTo c (to_tokens c)
  | KCandFrom parts _ => KCandFrom parts (from_tokens parts)
  | KTurnPlain txid _ => KTurnPlain txid (allocate_plain_bytes hmac_sha1 txid)
  | KTurnAuth txid u r n p _ => KTurnAuth txid u r n p (allocate_auth_bytes hmac_sha1 md5 txid u r n p)
  | KTurnDestroy txid u r n p _ => KTurnDestroy txid u r n p (destroy_bytes hmac_sha1 md5 txid u r n p)
  | KProbe txid _ => KProbe txid (probe_bytes hmac_sha1 txid)
  | KTurnAllocN txid u p h _ => KTurnAllocN txid u p h (model_alloc_n txid u p h)
  | KTurnPerm txid u r n p peer _ => KTurnPerm txid u r n p peer (perm_bytes hmac_sha1 md5 txid u r n p peer)
  | KTurnBind txid i ch u r n p peer _ => KTurnBind txid i ch u r n p peer (bind_bytes hmac_sha1 md5 txid ch peer u r n p)
  | KTurnSend txid u r n p peer d _ => KTurnSend txid u r n p peer d (send_bytes hmac_sha1 md5 txid u r n p peer d)
  | KChanData ch d _ => KChanData ch d (udp_send (channel_data ch d))
  | KChanSeq chs => KChanSeq (chan_seq (length chs) CHANNEL_FIRST)
  | KTcpFrame m _ => KTcpFrame m (tcp_send m)
  | KPrioT t c _ => KPrioT t c (priority_for t c)
  end.

Definition check_case (c : case) : bool :=
  match c with
  | KPair items =>
      forallb (fun '(l, r, o1, o2) =>
                 (pair_priority l r IceRole_Controlling =? o1) && (pair_priority l r IceRole_Controlled =? o2)) items
  | KPrio kind items => forallb (fun '(c, o) => model_prio kind c =? o) items
  | KEnc m key fp out => list_eqb (encode hmac_sha1 m key fp) out
  | KDec b r => dres_eqb (decode b) r
  | KCandTo c out => toks_eqb (to_tokens c) out
  | KCandFrom parts r => opt_eqb cand_eqb (from_tokens parts) r
  | KTurnPlain txid out => list_eqb (allocate_plain_bytes hmac_sha1 txid) out
  | KTurnAuth txid u r n p out => list_eqb (allocate_auth_bytes hmac_sha1 md5 txid u r n p) out
  | KTurnDestroy txid u r n p out => list_eqb (destroy_bytes hmac_sha1 md5 txid u r n p) out
  | KProbe txid out => list_eqb (probe_bytes hmac_sha1 txid) out
  | KTurnAllocN txid u p h out => list_eqb (model_alloc_n txid u p h) out && (Z.of_nat (length h) <? ALLOC_MAX_ATTEMPTS)
  | KTurnPerm txid u r n p peer out => list_eqb (perm_bytes hmac_sha1 md5 txid u r n p peer) out
  | KTurnBind txid i ch u r n p peer out => list_eqb (bind_bytes hmac_sha1 md5 txid ch peer u r n p) out
  | KTurnSend txid u r n p peer d out => list_eqb (send_bytes hmac_sha1 md5 txid u r n p peer d) out
  | KChanData ch d out => list_eqb (udp_send (channel_data ch d)) out
  | KChanSeq chs => list_eqb (chan_seq (length chs) CHANNEL_FIRST) chs
  | KTcpFrame m out => list_eqb (tcp_send m) out
  | KPrioT t c out => priority_for t c =? out
  end.

Fixpoint bad_from (i : Z) (cs : list case) : list Z :=
  match cs with
  | [] => []
  | c :: rest => if check_case c then bad_from (i + 1) rest else i :: bad_from (i + 1) rest
  end.
Definition bad_indices (cs : list case) : list Z := bad_from 0 cs.
