(* C17 correspondence: a case is a phase, the scripted stimuli (threads; None = "the harness waited until
   quiet"), and what the real connection reported afterwards; the model must be able to come to rest in a
   state with the same observables under some interleaving of its reactions. *)
From Coq Require Import ZArith List Bool.
From RV Require Import Gen.LifecycleGen Model.Lifecycle.
Import ListNotations.
Open Scope Z_scope.

Record case : Set := mkCase {
  k_phase : phase;
  k_threads : list (list (option event));
  k_peer : PeerConnectionState;
  k_ice : IceConnectionState;
  k_sig : SignalingState;
  k_reason : option DisconnectReason;
  k_chans : list (Z * Z * bool);      (* per channel: Open events, Close events, event stream ended *)
  k_sender : Z                        (* 0 no sender, 1 returned Err, 2 returned Ok, 3 still parked *)
}.

Definition sender_code (x : sender_st) : Z :=
  match x with SdNone => 0 | SdErr => 1 | SdSent => 2 | SdParked _ _ => 3 end.
Definition chan_obs (c : chan) : Z * Z * bool := (Z.of_nat (c_opens c), Z.of_nat (c_closes c), negb (c_tx c)).
Definition chan_obs_eqb (a b : Z * Z * bool) : bool :=
  let '(o1, c1, e1) := a in let '(o2, c2, e2) := b in Z.eqb o1 o2 && Z.eqb c1 c2 && Bool.eqb e1 e2.

(* the ICE connection state is compared modulo Connected/Completed (both mean "up") *)
Definition ice_obs_eqb (a b : IceConnectionState) : bool :=
  match a, b with
  | IceConnectionState_Connected, IceConnectionState_Completed
  | IceConnectionState_Completed, IceConnectionState_Connected => true
  | _, _ => IceConnectionState_eqb a b
  end.

Definition matches (c : case) (s : st) : bool :=
  PeerConnectionState_eqb (peer s) (k_peer c) && ice_obs_eqb (ice s) (k_ice c) && SignalingState_eqb (sig s) (k_sig c)
  && opt_eqb DisconnectReason_eqb (reason s) (k_reason c)
  && list_eqb chan_obs_eqb (map chan_obs (chans s)) (k_chans c)
  && Z.eqb (sender_code (sender s)) (k_sender c).

Definition model_out (c : case) :=
  map (fun s => (core s, map chan_obs (chans s), sender_code (sender s)))
      (explore 40 (phase_state (phase_webrtc (k_phase c)) (k_phase c)) (k_threads c)).
Definition check_case (c : case) : bool :=
  existsb (matches c) (explore 40 (phase_state (phase_webrtc (k_phase c)) (k_phase c)) (k_threads c)).

Fixpoint bad_from (i : Z) (cs : list case) : list Z :=
  match cs with
  | [] => []
  | c :: rest => if check_case c then bad_from (i + 1) rest else i :: bad_from (i + 1) rest
  end.
Definition bad_indices (cs : list case) : list Z := bad_from 0 cs.
