(* C18 correspondence: a case is the operation list the implementation ran plus the
   observations it produced after every operation; the model must reproduce them. *)
From Coq Require Import ZArith List Bool.
From RV Require Import Model.Latch.
Import ListNotations.
Open Scope Z_scope.

Record case : Set := mkCase { k_init : addr; k_ops : list op; k_obs : list obs }.

Definition opt_addr_eqb (a b : option addr) : bool :=
  match a, b with
  | None, None => true
  | Some x, Some y => addr_eqb x y
  | _, _ => false
  end.
Definition obs_eqb (a b : obs) : bool :=
  let '(r1, c1, l1, k1) := a in let '(r2, c2, l2, k2) := b in
  addr_eqb r1 r2 && opt_addr_eqb c1 c2 && Bool.eqb l1 l2 && Bool.eqb k1 k2.
Fixpoint obs_list_eqb (a b : list obs) : bool :=
  match a, b with
  | [], [] => true
  | x :: a', y :: b' => obs_eqb x y && obs_list_eqb a' b'
  | _, _ => false
  end.

Definition model_out (c : case) : list obs := run_obs (init (k_init c)) (k_ops c).
Definition check_case (c : case) : bool := obs_list_eqb (model_out c) (k_obs c).

Fixpoint bad_from (i : Z) (cs : list case) : list Z :=
  match cs with
  | [] => []
  | c :: rest => if check_case c then bad_from (i + 1) rest else i :: bad_from (i + 1) rest
  end.
Definition bad_indices (cs : list case) : list Z := bad_from 0 cs.
