(* C19 correspondence: a case is what the implementation was driven with plus what it produced;
   the model must reproduce the observations.
   DemuxCase: operation list on one RtpTransport; observations = for every Recv the listener
   channels that received the packet and has_listener(ssrc) afterwards, for every Probe
   has_listener(ssrc).
   BridgeCase: bridge configuration, arriving packets, and for every arrival the datagram read
   from the target's peer socket (None = nothing arrived): which target (video?) and the parsed
   header fields / extension elements.  The wire carries 7 bits of payload type. *)
From Coq Require Import ZArith List Bool.
From RV Require Import Model.Demux.
From RV Require Import Model.Bridge.
Import ListNotations.
Open Scope Z_scope.

Inductive case : Set :=
| DemuxCase (ops : list Demux.op) (obs : list Demux.obs)
| BridgeCase (b : bridge) (ins : list bin) (outs : list (option (bool * bpkt))).

Fixpoint zlist_eqb (a b : list Z) : bool :=
  match a, b with
  | [], [] => true
  | x :: a', y :: b' => (x =? y) && zlist_eqb a' b'
  | _, _ => false
  end.

Definition dobs_eqb (a b : Demux.obs) : bool :=
  zlist_eqb (fst a) (fst b) && Bool.eqb (snd a) (snd b).
Fixpoint dobs_list_eqb (a b : list Demux.obs) : bool :=
  match a, b with
  | [], [] => true
  | x :: a', y :: b' => dobs_eqb x y && dobs_list_eqb a' b'
  | _, _ => false
  end.

Fixpoint elems_eqb (a b : list (Z * list Z)) : bool :=
  match a, b with
  | [], [] => true
  | (i, d) :: a', (j, e) :: b' => (i =? j) && zlist_eqb d e && elems_eqb a' b'
  | _, _ => false
  end.
Definition ext_eqb (a b : option bext) : bool :=
  match a, b with
  | None, None => true
  | Some (p, x), Some (q, y) => (p =? q) && elems_eqb x y
  | _, _ => false
  end.
(* model packet (struct fields) against the packet parsed from the wire *)
Definition bpkt_eqb (m w : bpkt) : bool :=
  (q_ssrc m =? q_ssrc w) && (q_pt m mod 128 =? q_pt w) && (q_seq m =? q_seq w) && (q_ts m =? q_ts w)
  && Bool.eqb (q_marker m) (q_marker w) && ext_eqb (q_ext m) (q_ext w).
Fixpoint bobs_eqb (m : list (bool * bpkt)) (w : list (option (bool * bpkt))) : bool :=
  match m, w with
  | [], [] => true
  | (v, q) :: m', Some (v', q') :: w' => Bool.eqb v v' && bpkt_eqb q q' && bobs_eqb m' w'
  | _, _ => false
  end.

Inductive out : Set :=
| DemuxOut (o : list Demux.obs)
| BridgeOut (o : list (bool * bpkt)).

Definition model_out (c : case) : out :=
  match c with
  | DemuxCase ops _ => DemuxOut (Demux.run_obs Demux.init ops)
  | BridgeCase b ins _ => BridgeOut (bobs b ins)
  end.

Definition check_case (c : case) : bool :=
  match c with
  | DemuxCase ops obs => dobs_list_eqb (Demux.run_obs Demux.init ops) obs
  | BridgeCase b ins outs => bobs_eqb (bobs b ins) outs
  end.

Fixpoint bad_from (i : Z) (cs : list case) : list Z :=
  match cs with
  | [] => []
  | c :: rest => if check_case c then bad_from (i + 1) rest else i :: bad_from (i + 1) rest
  end.
Definition bad_indices (cs : list case) : list Z := bad_from 0 cs.
