(* C19 correspondence: a case is what the implementation was driven with plus what it produced;
   the model must reproduce the observations.
   DemuxCase: operation list on one RtpTransport; observations = for every Recv the listener
   channels that received the packet and has_listener(ssrc) afterwards, for every Probe
   has_listener(ssrc).
   DemuxCase carries the listener channel capacity; Drain observations are the packet tags taken
   from the channel.
   BridgeCase: initial SRTP modes of the main / video target, operation list (install / clear the
   bridge, start SRTP on a target, arriving packets with their authenticity), and for every arriving
   packet what was seen: the datagram read from the target's peer socket after a REFERENCE SRTP
   unprotect where the target protects (which target, parsed header fields, raw extension block),
   the packet arriving at the source's own listener (no bridge), or nothing.
   The wire carries 7 bits of payload type. *)
From Coq Require Import ZArith List Bool.
From RV Require Import Model.Demux.
From RV Require Import Model.Bridge.
Import ListNotations.
Open Scope Z_scope.

(* what the harness saw for one arriving packet *)
Inductive wobs : Set :=
| WFwd (video : bool) (o : bpkt)
| WListener
| WNone.

Inductive case : Set :=
| DemuxCase (cap : Z) (ops : list Demux.op) (obs : list Demux.obs)
| BridgeCase (main video : tmode) (ops : list bop) (outs : list wobs).

Fixpoint zlist_eqb (a b : list Z) : bool :=
  match a, b with
  | [], [] => true
  | x :: a', y :: b' => (x =? y) && zlist_eqb a' b'
  | _, _ => false
  end.

Definition dobs_eqb (a b : Demux.obs) : bool :=
  zlist_eqb (fst a) (fst b) && Bool.eqb (snd a) (snd b).
Fixpoint dobs_list_eqb (a b : list Demux.obs) : bool :=
  match a, b with
  | [], [] => true
  | x :: a', y :: b' => dobs_eqb x y && dobs_list_eqb a' b'
  | _, _ => false
  end.

Definition ext_eqb (a b : option bext) : bool :=
  match a, b with
  | None, None => true
  | Some (p, x), Some (q, y) => (p =? q) && zlist_eqb x y
  | _, _ => false
  end.
(* model packet (struct fields) against the packet parsed from the wire *)
Definition bpkt_eqb (m w : bpkt) : bool :=
  (q_ssrc m =? q_ssrc w) && (q_pt m mod 128 =? q_pt w) && (q_seq m =? q_seq w) && (q_ts m =? q_ts w)
  && Bool.eqb (q_marker m) (q_marker w) && ext_eqb (q_ext m) (q_ext w).
Definition is_pkt (o : bop) : bool := match o with BPkt _ _ => true | _ => false end.
(* model outcomes of the packet operations against the observations *)
Fixpoint wobs_eqb (m : list bout) (w : list wobs) : bool :=
  match m with
  | [] => match w with [] => true | _ => false end
  | NoOut :: m' => wobs_eqb m' w
  | o :: m' =>
      match w with
      | [] => false
      | x :: w' =>
          (match o, x with
           | Forwarded v q, WFwd v' q' => Bool.eqb v v' && bpkt_eqb q q'
           | Consumed _, WNone => true
           | Rejected, WNone => true
           | ToListeners, WListener => true
           | _, _ => false
           end) && wobs_eqb m' w'
      end
  end.

Inductive out : Set :=
| DemuxOut (o : list Demux.obs)
| BridgeOut (o : list bout).

Definition model_out (c : case) : out :=
  match c with
  | DemuxCase c ops _ => DemuxOut (Demux.run_obs (Demux.init_with c) ops)
  | BridgeCase m v ops _ => BridgeOut (trun (mkT None m v) ops)
  end.

Definition check_case (c : case) : bool :=
  match c with
  | DemuxCase c ops obs => dobs_list_eqb (Demux.run_obs (Demux.init_with c) ops) obs
  | BridgeCase m v ops outs => wobs_eqb (trun (mkT None m v) ops) outs
  end.

Fixpoint bad_from (i : Z) (cs : list case) : list Z :=
  match cs with
  | [] => []
  | c :: rest => if check_case c then bad_from (i + 1) rest else i :: bad_from (i + 1) rest
  end.
Definition bad_indices (cs : list case) : list Z := bad_from 0 cs.
