(* C20 correspondence: a case is a capacity, the sequence of operations the harness executed
   one after the other on the real SpscRing / sample_track (each run to completion before the
   next starts), the return values the implementation produced per thread role, and the number
   of payloads released by the final Drop of the ring.  The model runs the same operations with
   the sequential driver of Model/Spsc.v and must reproduce every value; it must also stay free
   of the UB flag. *)
From Coq Require Import ZArith List Bool.
From RV Require Import Model.Spsc.
Import ListNotations.
Open Scope Z_scope.

Inductive act : Set := AP (o : pop_) | AC (o : cop) | AStop.

(* mkCase: sequential operations (each to completion); mkConc: a schedule of single shared-memory
   steps that the harness executed on real threads through hook H2 (thread ids as in Model/Spsc.v) *)
Inductive case : Set :=
| mkCase (k_cap : Z) (k_acts : list act) (k_crets k_prets : list ret) (k_dropped : Z)
| mkConc (k_cap : Z) (k_cprog : list cop) (k_nstop : nat) (k_pprogs : list (list pop_))
         (k_sched : list nat) (k_crets : list ret) (k_prets : list (list ret)).

Fixpoint c_ops (l : list act) : list cop := match l with [] => [] | AC o :: r => o :: c_ops r | _ :: r => c_ops r end.
Fixpoint p_ops (l : list act) : list pop_ := match l with [] => [] | AP o :: r => o :: p_ops r | _ :: r => p_ops r end.
Fixpoint n_stops (l : list act) : nat := match l with [] => O | AStop :: r => S (n_stops r) | _ :: r => n_stops r end.
Definition act_sched (a : act) : list nat :=
  match a with
  | AC _ => [0%nat]
  | AStop => [1%nat]
  | AP (OSendMany l) => repeat 2%nat (S (length l))     (* one sequential send per sample + the final Ok *)
  | AP _ => [2%nat]
  end.

Definition usize_mod : Z := 2 ^ 64.

Definition final_state (c : case) : st :=
  match c with
  | mkCase cap acts _ _ _ =>
      run_ops (init cap usize_mod (c_ops acts) (n_stops acts) [p_ops acts]) (flat_map act_sched acts)
  | mkConc cap cprog nstop pprogs sched _ _ => run (init cap usize_mod cprog nstop pprogs) sched
  end.

Definition opt_eqb (a b : option Z) : bool :=
  match a, b with Some x, Some y => x =? y | None, None => true | _, _ => false end.
Definition ret_eqb (a b : ret) : bool :=
  match a, b with
  | RPushOk, RPushOk | RPushFull, RPushFull | RTryOk, RTryOk | RWouldBlock, RWouldBlock
  | RClosed, RClosed | RSendOk, RSendOk | RManyOk, RManyOk | REos, REos | RPending, RPending
  | RCancelled, RCancelled => true
  | RPop x, RPop y => opt_eqb x y
  | RRecv x, RRecv y => x =? y
  | _, _ => false
  end.
Fixpoint rets_eqb (a b : list ret) : bool :=
  match a, b with
  | [], [] => true
  | x :: a', y :: b' => ret_eqb x y && rets_eqb a' b'
  | _, _ => false
  end.

Fixpoint retss_eqb (a b : list (list ret)) : bool :=
  match a, b with
  | [], [] => true
  | x :: a', y :: b' => rets_eqb x y && retss_eqb a' b'
  | _, _ => false
  end.

(* consumer results, per-producer results, number of values the ring's Drop would release now
   (meaningful for mkCase: the harness drops everything at the end), UB flag *)
Definition model_out (c : case) : list ret * list (list ret) * Z * option ubk :=
  let s := final_state c in
  match c with
  | mkCase _ _ _ _ _ =>
      let '(h, d) := ring_drop (shd s) in
      (c_rets (cons s), map p_rets (prods s), Z.of_nat (length d), ub h)
  | mkConc _ _ _ _ _ _ _ => (c_rets (cons s), map p_rets (prods s), 0, ub (shd s))
  end.

Definition no_ub (u : option ubk) : bool := match u with None => true | Some _ => false end.

Definition check_case (c : case) : bool :=
  let '(cr, pr, d, u) := model_out c in
  match c with
  | mkCase _ _ kc kp kd => rets_eqb cr kc && retss_eqb pr [kp] && (d =? kd) && no_ub u
  | mkConc _ _ _ pprogs _ kc kp =>
      rets_eqb cr kc && retss_eqb pr kp &&
      (* with one producer thread the model must stay free of UB (it is a theorem); with several
         the model may raise the flag where the real run merely leaked or got lucky *)
      (no_ub u || (1 <? Z.of_nat (length pprogs)))
  end.

Fixpoint bad_from (i : Z) (cs : list case) : list Z :=
  match cs with
  | [] => []
  | c :: rest => if check_case c then bad_from (i + 1) rest else i :: bad_from (i + 1) rest
  end.
Definition bad_indices (cs : list case) : list Z := bad_from 0 cs.
