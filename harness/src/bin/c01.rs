//! C01 — reliable ordered data channels deliver every message exactly once, in order.
//!
//! The endpoint under test is a real `SctpTransport` + `DataChannel`s on a real DTLS transport;
//! the harness is its SCTP peer and chooses the complete input history: setup chunks, the DATA
//! chunk stream of a workload (built by an RFC-style sender written here) delivered in any order
//! with duplication and omission, duplicated setup chunks, initial TSNs at the 2^32 wrap.
//! Direct oracle (independent of the model): on every reliable ordered channel the messages
//! `DataChannel::recv()` yields are a prefix of the submitted ones, byte-identical, and complete
//! once every chunk has arrived at least once (this is the runtime part of the liveness claim).
//! The same history and the observations go to the Coq model (`Model/SctpObs.v` check_case).
#[path = "c01_common.rs"]
mod common;
use common::*;
use serde_json::json;
use vh::net::sctp_wire::parse_packet;
use vh::*;

#[derive(Clone)]
struct Plan {
    kind: &'static str,
    client: bool,
    chans: Vec<ChanCfg>,
    sc: Vec<SChan>,
    w: Vec<Sub>,
    t0: u32,
    hist: Vec<Input>,
    /// the DATA inputs are drawn from peer_chunks(sc, w, t0) in rustrtc's own fragmentation
    spec: bool,
    note: String,
    /// Some((at, n, i0)): hist[at..at+n] are the regular single-chunk messages i0, i0+1, .. (`seq_data`)
    seq_prefix: Option<(usize, usize, u32)>,
}

fn handshake(client: bool, t0: u32) -> Vec<Input> {
    if client { vec![Input::InitAck(t0, true), Input::CookieAck] } else { vec![Input::Init(t0), Input::CookieEcho(true)] }
}

fn gen_workload(rng: &mut Rng, sc: &[SChan], nmsg: usize, big: bool) -> Vec<Sub> {
    let mut w = vec![];
    for _ in 0..nmsg {
        let c = rng.pick(sc).clone();
        let m = c.mps.min(1172);
        let sizes: Vec<usize> = if big { vec![0, 1, m - 1, m, m + 1, 2 * m, 2 * m + 1] } else { vec![0, 1, 2, m.saturating_sub(1), m, m + 1, 2 * m, 2 * m + 1, 3 * m] };
        let n = *rng.pick(&sizes);
        let ppid = if rng.chance(1, 4) { 51 } else { 53 };
        let data = if n >= 64 { ap_bytes(n, rng.next() as u8) } else { rng.bytes(n) };
        w.push(Sub { sid: c.id, ppid, data });
    }
    w
}

/// arrival orders over the genuine chunk stream
fn arrival(rng: &mut Rng, n: usize, style: u64) -> (Vec<usize>, &'static str) {
    let mut idx: Vec<usize> = (0..n).collect();
    match style {
        0 => (idx, "in-order"),
        1 => { // random permutation
            for i in (1..n).rev() { let j = rng.below(i as u64 + 1) as usize; idx.swap(i, j); }
            (idx, "permutation")
        }
        2 => { // permutation with duplication and omission
            for i in (1..n).rev() { let j = rng.below(i as u64 + 1) as usize; idx.swap(i, j); }
            let mut out = vec![];
            for i in idx { if rng.chance(1, 6) { continue; } out.push(i); if rng.chance(1, 4) { out.push(i); } }
            // late duplicates of anything
            for _ in 0..rng.below(4) { if n > 0 { out.push(rng.below(n as u64) as usize); } }
            (out, "perm+dup+omit")
        }
        3 => { // gap then fill
            if n < 2 { return (idx, "in-order"); }
            let g = rng.below(n as u64 - 1) as usize;
            let mut out: Vec<usize> = (0..n).filter(|i| *i != g).collect();
            out.push(g);
            (out, "gap-then-fill")
        }
        4 => { // old duplicates in the middle, everything delivered
            let cut = if n == 0 { 0 } else { rng.below(n as u64) as usize };
            let mut out: Vec<usize> = (0..cut).collect();
            for _ in 0..rng.range(1, 5) { if cut > 0 { out.push(rng.below(cut as u64) as usize); } }
            out.extend(cut..n);
            (out, "old-duplicates")
        }
        5 => { // local swaps (mild reordering), each chunk twice
            for i in 0..n.saturating_sub(1) { if rng.chance(1, 3) { idx.swap(i, i + 1); } }
            let mut out = vec![];
            for i in idx { out.push(i); if rng.chance(1, 3) { out.push(i); } }
            (out, "swaps+dup")
        }
        _ => { // reverse order
            idx.reverse();
            (idx, "reverse")
        }
    }
}

/// Handshakes with duplicated / superseded setup chunks BEFORE establishment and before any DATA.
/// Client role: several INIT-ACKs (as a responder that draws fresh parameters for every INIT it
/// answers -- which is what this implementation's own handle_init does -- sends them); the
/// association runs on the parameters of the LAST one, so the peer's DATA is numbered from `t0`.
/// Server role: the INIT arrives more than once. COOKIE chunks may be duplicated as well.
fn stutter_handshake(rng: &mut Rng, client: bool, t0: u32) -> (Vec<Input>, &'static str) {
    let mut h = vec![];
    if client {
        let n = rng.range(1, 2);
        for _ in 0..n { h.push(Input::InitAck(rng.next() as u32, true)); }
        h.push(Input::InitAck(t0, true));
        if rng.chance(1, 3) { h.push(Input::InitAck(t0, true)); }
        h.push(Input::CookieAck);
        if rng.chance(1, 3) { h.push(Input::CookieAck); }
        (h, "+superseded-init-ack")
    } else {
        let n = rng.range(2, 3);
        for _ in 0..n { h.push(Input::Init(t0)); }
        if rng.chance(1, 3) { h.push(Input::CookieEcho(false)); }
        h.push(Input::CookieEcho(true));
        if rng.chance(1, 3) { h.push(Input::CookieEcho(true)); }
        (h, "+duplicated-init")
    }
}

fn pick_t0(rng: &mut Rng) -> u32 {
    match rng.below(6) {
        0 => 0xFFFF_FFFFu32.wrapping_sub(rng.below(6) as u32),
        1 => rng.below(3) as u32,
        2 => 0x8000_0000u32.wrapping_add(rng.below(5) as u32).wrapping_sub(2),
        _ => rng.next() as u32,
    }
}

fn gen_plan(rng: &mut Rng) -> Plan {
    let client = rng.chance(1, 2);
    let nch = rng.range(1, 4) as usize;
    let big = rng.chance(1, 40);
    let mut chans = vec![];
    let mut sc = vec![];
    for i in 0..nch {
        let id = [0u16, 1, 2, 7, 65535][rng.below(5) as usize].wrapping_add(i as u16 * 11);
        if chans.iter().any(|c: &ChanCfg| c.id == id) { continue; }
        let ordered = rng.chance(3, 4);
        chans.push(ChanCfg::negotiated(id, ordered));
        // the peer's view of the channel; occasionally it disagrees about ordering
        let peer_ordered = if rng.chance(1, 10) { !ordered } else { ordered };
        let mps = if big { [1171usize, 1172, 1200][rng.below(3) as usize] } else { rng.range(1, 6) as usize };
        sc.push(SChan { id, ordered: peer_ordered, mps });
    }
    let nmsg = if big { rng.range(1, 3) } else { rng.range(1, 9) } as usize;
    let w = gen_workload(rng, &sc, nmsg, big);
    let t0 = pick_t0(rng);
    let cs = peer_chunks(&sc, &w, t0, true);
    let style = rng.below(7);
    let (order, oname) = arrival(rng, cs.len(), style);
    let (mut hist, hname) = if rng.chance(1, 5) { stutter_handshake(rng, client, t0) } else { (handshake(client, t0), "") };
    // DATA overtaking the establishing chunk: dropped by the endpoint, it all arrives again later
    if !cs.is_empty() && rng.chance(1, 6) {
        let est = hist.pop().unwrap();
        let mut tail = vec![est];
        while matches!(hist.last(), Some(Input::CookieAck) | Some(Input::CookieEcho(_))) { tail.push(hist.pop().unwrap()); }
        for _ in 0..rng.range(1, 3) { hist.push(Input::Data(cs[rng.below(cs.len() as u64) as usize].clone())); }
        tail.reverse();
        hist.extend(tail);
    }
    let dup_setup = rng.chance(1, 3);
    for i in order {
        if dup_setup && rng.chance(1, 5) {
            hist.push(match rng.below(4) {
                0 => Input::Init(t0),
                1 => Input::InitAck(t0, rng.chance(1, 2)),
                2 => if client { Input::CookieAck } else { Input::CookieEcho(true) },
                _ => Input::CookieAck,
            });
        }
        hist.push(Input::Data(cs[i].clone()));
    }
    Plan { kind: "random", client, chans, sc, w, t0, hist, spec: true, note: format!("{}{}{}", oname, if dup_setup { "+dup-setup" } else { "" }, hname), seq_prefix: None }
}

/// A gap is open at the front; a buffered out-of-order chunk is duplicated many times by the
/// network (each copy must be ignored AND must not be charged to the receive window again); then
/// the gap filler and more data. `copies` x `size` exceeds the 128 KiB window in the corpus case.
fn gen_dup_buffered(rng: &mut Rng, copies: usize, size: usize) -> Plan {
    let client = rng.chance(1, 2);
    let ordered = rng.chance(2, 3);
    let chans = vec![ChanCfg::negotiated(0, ordered)];
    let sc = vec![SChan { id: 0, ordered, mps: 1172 }];
    let mut w = vec![Sub { sid: 0, ppid: 53, data: rng.bytes(3) }];
    let nbuf = rng.range(1, 3) as usize;
    for _ in 0..nbuf { w.push(Sub { sid: 0, ppid: 53, data: ap_bytes(size, rng.next() as u8) }); }
    for _ in 0..rng.range(1, 3) { let n = rng.below(5) as usize; w.push(Sub { sid: 0, ppid: 51, data: rng.bytes(n) }); }
    let t0 = pick_t0(rng);
    let cs = peer_chunks(&sc, &w, t0, true);
    let mut hist = handshake(client, t0);
    // everything but chunk 0, the buffered ones duplicated
    for _ in 0..copies { let j = 1 + rng.below(nbuf as u64) as usize; hist.push(Input::Data(cs[j].clone())); }
    for j in 1..=nbuf { hist.push(Input::Data(cs[j].clone())); }
    hist.push(Input::Data(cs[0].clone())); // the gap filler
    for j in 1..=nbuf { if rng.chance(1, 2) { hist.push(Input::Data(cs[j].clone())); } } // late copies of delivered chunks
    for c in &cs[nbuf + 1..] { hist.push(Input::Data(c.clone())); }
    Plan { kind: "dup-buffered", client, chans, sc, w, t0, hist, spec: true, note: format!("{} copies of buffered {}-byte chunks behind a gap", copies, size), seq_prefix: None }
}

/// streams that no conforming sender produces: the model must still agree (no theorem premise)
fn gen_malformed(rng: &mut Rng) -> Plan {
    let client = rng.chance(1, 2);
    let chans = vec![ChanCfg::negotiated(0, true), ChanCfg::negotiated(1, rng.chance(1, 2))];
    let t0 = pick_t0(rng);
    let mut hist = handshake(client, t0);
    let n = rng.range(1, 14);
    for _ in 0..n {
        // near the cumulative point, or at the edges of the 2^31 window of the duplicate test
        let tsn = if rng.chance(1, 6) { t0.wrapping_add(0x7FFF_FFFE).wrapping_add(rng.below(5) as u32) }
            else { t0.wrapping_add(rng.below(8) as u32).wrapping_sub(rng.below(3) as u32) };
        let dl = rng.below(4) as usize;
        let d = DataC { tsn, flags: rng.below(8) as u8, sid: rng.below(3) as u16, ssn: rng.below(4) as u16, ppid: if rng.chance(1, 12) { 52 } else { 53 },
            data: rng.bytes(dl) };
        hist.push(Input::Data(d));
    }
    Plan { kind: "malformed", client, chans, sc: vec![], w: vec![], t0, hist, spec: false, note: "arbitrary DATA chunks".into(), seq_prefix: None }
}

/// ordered stream with SSN gaps: exercises InboundStream's pending map and its cap
fn gen_ssn_gaps(rng: &mut Rng, cap: bool) -> Plan {
    let chans = vec![ChanCfg::negotiated(0, true)];
    let t0 = pick_t0(rng);
    let mut hist = handshake(false, t0);
    let n = if cap { 131 + rng.below(4) as u32 } else { rng.range(3, 10) as u32 };
    // TSNs in order; SSNs permuted (a sender that numbers messages out of order): everything ends up pending
    let mut ssns: Vec<u16> = (0..n as u16).collect();
    if cap { ssns.rotate_left(1); } else { for i in (1..ssns.len()).rev() { let j = rng.below(i as u64 + 1) as usize; ssns.swap(i, j); } }
    for (i, s) in ssns.iter().enumerate() {
        hist.push(Input::Data(DataC { tsn: t0.wrapping_add(i as u32), flags: 3, sid: 0, ssn: *s, ppid: 53, data: vec![*s as u8] }));
    }
    Plan { kind: "ssn-gaps", client: false, chans, sc: vec![], w: vec![], t0, hist, spec: false, note: format!("n={} cap={}", n, cap), seq_prefix: None }
}

fn corpus() -> Vec<Plan> {
    let mut v = vec![];
    let ch0 = vec![ChanCfg::negotiated(0, true)];
    let sc0 = vec![SChan { id: 0, ordered: true, mps: 1200 }];
    let mk = |w: Vec<&[u8]>| -> Vec<Sub> { w.into_iter().map(|d| Sub { sid: 0, ppid: 53, data: d.to_vec() }).collect() };
    // F11 (fixed): duplicated INIT / INIT-ACK after data flowed, then the old DATA replayed, then new DATA
    for client in [false, true] {
        let t0 = 1000u32;
        let w = mk(vec![b"a", b"b", b"c"]);
        let cs = peer_chunks(&sc0, &w, t0, true);
        let mut hist = handshake(client, t0);
        hist.push(Input::Data(cs[0].clone()));
        hist.push(Input::Data(cs[1].clone()));
        hist.push(if client { Input::InitAck(t0, true) } else { Input::Init(t0) });
        hist.push(Input::Data(cs[0].clone()));
        hist.push(Input::Data(cs[1].clone()));
        hist.push(Input::Data(cs[2].clone()));
        v.push(Plan { kind: "corpus", client, chans: ch0.clone(), sc: sc0.clone(), w, t0, hist, spec: true, note: "F11 witness: dup INIT/INIT-ACK after data, replay, new data".into(), seq_prefix: None });
    }
    // duplicated COOKIE-ECHO / COOKIE-ACK after establishment
    for client in [false, true] {
        let t0 = 7u32;
        let w = mk(vec![b"x"]);
        let cs = peer_chunks(&sc0, &w, t0, true);
        let mut hist = handshake(client, t0);
        hist.push(Input::Data(cs[0].clone()));
        hist.push(if client { Input::CookieAck } else { Input::CookieEcho(true) });
        hist.push(Input::CookieAck);
        v.push(Plan { kind: "corpus", client, chans: ch0.clone(), sc: sc0.clone(), w, t0, hist, spec: true, note: "F10 witness: duplicated COOKIE after establishment".into(), seq_prefix: None });
    }
    // TSN wrap with a gap filled last, multi-fragment message across the wrap
    {
        let t0 = 0xFFFF_FFFEu32;
        let sc = vec![SChan { id: 0, ordered: true, mps: 2 }];
        let w = mk(vec![b"hello!!", b"", b"xy"]);
        let cs = peer_chunks(&sc, &w, t0, true);
        let mut hist = handshake(false, t0);
        for i in [5usize, 4, 3, 2, 1, 1, 0, 3] { hist.push(Input::Data(cs[i].clone())); }
        v.push(Plan { kind: "corpus", client: false, chans: ch0.clone(), sc, w, t0, hist, spec: true, note: "TSN wrap, reverse arrival, duplicates".into(), seq_prefix: None });
    }
    // boundary sizes of the real fragmentation: 1171, 1172, 1173, 2*1172, 64 KiB
    for n in [1171usize, 1172, 1173, 2344, 65536] {
        let t0 = 0xFFFF_FF00u32;
        let data: Vec<u8> = ap_bytes(n, n as u8);
        let w = vec![Sub { sid: 0, ppid: 53, data }, Sub { sid: 0, ppid: 51, data: b"tail".to_vec() }];
        let cs = peer_chunks(&sc0, &w, t0, true);
        let mut hist = handshake(true, t0);
        let mut order: Vec<usize> = (0..cs.len()).collect();
        order.reverse();
        for i in order { hist.push(Input::Data(cs[i].clone())); }
        v.push(Plan { kind: "corpus", client: true, chans: ch0.clone(), sc: sc0.clone(), w, t0, hist, spec: true, note: format!("size {} reversed", n), seq_prefix: None });
    }
    // messages around and beyond 256 KiB (no size bound in the reassembly): ordered and unordered, byte identity
    for (k, n) in [262_143usize, 262_144, 262_145, 300_000, 1_048_576].into_iter().enumerate() {
        let t0 = 0xFFFF_FC00u32.wrapping_add(k as u32 * 97);
        let chans = vec![ChanCfg::negotiated(0, true), ChanCfg::negotiated(1, false)];
        let sc = vec![SChan { id: 0, ordered: true, mps: 1200 }, SChan { id: 1, ordered: false, mps: 1200 }];
        let mut w = vec![Sub { sid: 0, ppid: 53, data: ap_bytes(n, n as u8) }, Sub { sid: 0, ppid: 51, data: b"after".to_vec() }];
        if n < 1_000_000 { w.push(Sub { sid: 1, ppid: 53, data: ap_bytes(n, (n >> 3) as u8) }); w.push(Sub { sid: 1, ppid: 53, data: b"tail".to_vec() }); }
        let cs = peer_chunks(&sc, &w, t0, true);
        let mut hist = handshake(k % 2 == 0, t0);
        let mut order: Vec<usize> = (0..cs.len()).collect();
        if n == 262_145 { order.reverse(); }
        for i in order { hist.push(Input::Data(cs[i].clone())); }
        v.push(Plan { kind: "corpus", client: k % 2 == 0, chans, sc, w, t0, hist, spec: true, note: format!("size {} ordered + unordered{}", n, if n == 262_145 { " reversed" } else { "" }), seq_prefix: None });
    }
    v
}

/// SSN wrap: 65 540 two-byte ordered messages, in order up to 65 530, then reordered and
/// duplicated across the wrap point. The regular part is rendered with `seq_data` / `seq_evs`.
fn seq_msg(i: u32) -> Vec<u8> { vec![(i % 251) as u8, ((i / 256) % 256) as u8] }
fn ssn_wrap_plan() -> Plan {
    let t0 = 0xFFFF_8000u32;
    let n = 65_540u32;
    let sc = vec![SChan { id: 0, ordered: true, mps: 1200 }];
    let w: Vec<Sub> = (0..n).map(|i| Sub { sid: 0, ppid: 53, data: seq_msg(i) }).collect();
    let cs = peer_chunks(&sc, &w, t0, true);
    let mut hist = handshake(false, t0);
    let pre = 65_530usize;
    for c in &cs[..pre] { hist.push(Input::Data(c.clone())); }
    for i in [65_531usize, 65_530, 65_533, 65_535, 65_534, 65_532, 65_531, 65_537, 65_536, 65_539, 65_538, 65_536] { hist.push(Input::Data(cs[i].clone())); }
    Plan { kind: "ssn-wrap", client: false, chans: vec![ChanCfg::negotiated(0, true)], sc, w, t0, hist, spec: false, note: "65540 ordered messages across the SSN wrap".into(),
        seq_prefix: Some((2, pre, 0)) }
}

fn plan_term(p: &Plan, o: &Observed, spec: Option<(&[SChan], &[Sub], u32)>) -> String {
    match p.seq_prefix {
        None => recv_case_term(&p.chans, &p.hist, o, spec),
        Some((at, pre, i0)) => {
            // the compact rendering must denote exactly the history that was run
            for (k, i) in p.hist[at..at + pre].iter().enumerate() {
                let k = i0 + k as u32;
                assert_eq!(*i, Input::Data(DataC { tsn: p.t0.wrapping_add(k), flags: 3, sid: 0, ssn: k as u16, ppid: 53, data: seq_msg(k) }));
            }
            let head = list_term(&p.hist[..at].iter().map(|i| format!("({})", i.term())).collect::<Vec<_>>());
            let tail = list_term(&p.hist[at + pre..].iter().map(|i| format!("({})", i.term())).collect::<Vec<_>>());
            let hist_term = format!("({} ++ seq_data {} {} {} 0 ++ {})", head, pre, i0, p.t0, tail);
            let obs = o.per_chan.iter().map(|(s, e)| {
                // the longest run of regular messages i, i+1, .. in the observed stream
                let mut best = (0usize, 0usize, 0u32);
                for a in 0..e.len().min(6) {
                    for k0 in [0u32, 1] {
                        let mut n = 0usize;
                        while a + n < e.len() && e[a + n] == Ev::Msg(seq_msg(k0 + n as u32)) { n += 1; }
                        if n > best.1 { best = (a, n, k0); }
                    }
                }
                let (a, n, k0) = best;
                if n > 1000 {
                    format!("({}, {} ++ seq_evs {} {} ++ {})", s, list_term(&e[..a].iter().map(|x| x.term()).collect::<Vec<_>>()), n, k0,
                        list_term(&e[a + n..].iter().map(|x| x.term()).collect::<Vec<_>>()))
                } else {
                    format!("({}, {})", s, big_list(&e.iter().map(|x| x.term()).collect::<Vec<_>>()))
                }
            }).collect::<Vec<_>>();
            recv_case_term_with(&p.chans, hist_term, obs, o, spec)
        }
    }
}

/// Former finding F11b / F27 (fixed by 165fa18), kept as regression: DATA overtakes the COOKIE-ACK
/// (now dropped), a late duplicate INIT-ACK / INIT follows, COOKIE, the rest, the retransmissions.
fn pre_established_plans() -> Vec<Plan> {
    let mut v = vec![];
    let t0 = 5000u32;
    let w: Vec<Sub> = [b"a", b"b", b"c"].iter().map(|d| Sub { sid: 0, ppid: 53, data: d.to_vec() }).collect();
    for (client, ordered) in [(true, true), (true, false), (false, true)] {
        let cs = peer_chunks(&[SChan { id: 0, ordered, mps: 1200 }], &w, t0, true);
        let ia = |t| if client { Input::InitAck(t, true) } else { Input::Init(t) };
        let est = if client { Input::CookieAck } else { Input::CookieEcho(true) };
        let hist = vec![ia(t0), Input::Data(cs[0].clone()), Input::Data(cs[1].clone()), ia(t0), est,
            Input::Data(cs[2].clone()), Input::Data(cs[0].clone()), Input::Data(cs[1].clone())];
        v.push(Plan { kind: "corpus", client, chans: vec![ChanCfg::negotiated(0, ordered)], sc: vec![SChan { id: 0, ordered, mps: 1200 }], w: w.clone(), t0, hist, spec: true,
            note: "DATA before establishment (dropped), late duplicate INIT/INIT-ACK, establish, rest + retransmissions".into(), seq_prefix: None });
    }
    v
}

struct Verdict {
    fail: Option<String>,
    nontrivial: bool,
    pre_established_replay: bool,
}

/// the direct property oracle, from the property text
fn oracle(p: &Plan, o: &Observed) -> Verdict {
    let mut fail = None;
    if let Some(d) = &o.dead { fail = Some(format!("endpoint stopped responding: {}", d)); }
    // does the history contain a setup chunk that arrives before establishment but after DATA?
    let mut connected = false;
    let mut data_seen = false;
    let mut pre = false;
    let mut arrived = std::collections::HashSet::new();
    let mut closing = false;
    for i in &p.hist {
        match i {
            Input::CookieEcho(true) | Input::CookieAck => connected = true,
            Input::Init(_) | Input::InitAck(_, _) => if !connected && data_seen { pre = true; },
            // DATA that arrives before establishment is dropped unacknowledged (the peer retransmits it)
            Input::Data(d) => { data_seen = true; if connected { arrived.insert(d.tsn); } }
            Input::Close(_) | Input::Teardown => closing = true,
            _ => {}
        }
    }
    let mut delivered_any = false;
    if !p.sc.is_empty() {
        let cs = peer_chunks(&p.sc, &p.w, p.t0, true);
        let all_arrived = cs.iter().all(|c| arrived.contains(&c.tsn));
        for c in &p.chans {
            let peer = p.sc.iter().find(|s| s.id == c.id);
            if c.rex.is_some() || c.life.is_some() || peer.is_none() { continue; }
            let submitted: Vec<&Vec<u8>> = p.w.iter().filter(|s| s.sid == c.id).map(|s| &s.data).collect();
            let got = o.msgs(c.id);
            if !got.is_empty() { delivered_any = true; }
            // every reliable channel of this implementation is processed in TSN order, so the prefix
            // property is demanded of ordered channels (C01) and, more weakly, "no duplicate /
            // fabrication" of unordered ones (C12)
            if c.ordered {
                let is_prefix = got.len() <= submitted.len() && got.iter().zip(submitted.iter()).all(|(a, b)| a == *b);
                if !is_prefix && fail.is_none() {
                    fail = Some(format!("channel {}: delivered {:?} is not a prefix of the {} submitted messages", c.id,
                        got.iter().map(|m| hex(&m[..m.len().min(8)])).collect::<Vec<_>>(), submitted.len()));
                }
            } else {
                let mut pool: Vec<&Vec<u8>> = submitted.clone();
                for g in &got {
                    match pool.iter().position(|s| *s == g) {
                        Some(k) => { pool.remove(k); }
                        None => if fail.is_none() { fail = Some(format!("channel {}: delivered message {} was not submitted (or delivered twice)", c.id, hex(&g[..g.len().min(8)]))); }
                    }
                }
            }
            if all_arrived && !closing && got.len() != submitted.len() && fail.is_none() {
                fail = Some(format!("channel {}: every chunk arrived at least once but only {} of {} messages were delivered", c.id, got.len(), submitted.len()));
            }
        }
    }
    // no receive-window leak: once every chunk has arrived (hence been delivered: nothing is queued)
    // the endpoint must advertise its whole configured window again
    if !p.sc.is_empty() && !closing && fail.is_none() {
        let cs = peer_chunks(&p.sc, &p.w, p.t0, true);
        if cs.iter().all(|c| arrived.contains(&c.tsn)) {
            if let Some(w) = o.sack_rwnd {
                if w != local_rwnd() {
                    fail = Some(format!("every chunk was delivered (nothing is buffered) but the last SACK advertises a_rwnd={} instead of the configured {}: receive window leaked", w, local_rwnd()));
                }
            }
        }
    }
    // a repeated INIT (same tag, same initial TSN) before establishment must get the same answer:
    // every INIT-ACK the endpoint sent carries one and the same tag and initial TSN
    {
        let inits: Vec<u32> = p.hist.iter().filter_map(|i| if let Input::Init(t) = i { Some(*t) } else { None }).collect();
        if !p.client && inits.len() > 1 && inits.iter().all(|t| *t == inits[0]) {
            let acks: Vec<(u32, u32)> = o.packets.iter().flat_map(|pk| pk.chunks.iter()).filter(|c| c.ty == 2 && c.value.len() >= 16)
                .map(|c| (u32::from_be_bytes(c.value[0..4].try_into().unwrap()), u32::from_be_bytes(c.value[12..16].try_into().unwrap()))).collect();
            if acks.iter().any(|a| *a != acks[0]) && fail.is_none() {
                fail = Some(format!("the repeated INIT was answered with different parameters (tag, initial TSN): {:x?}", acks));
            }
        }
    }
    // Open exactly once and first on negotiated channels once established
    for c in &p.chans {
        let ev = o.events(c.id);
        let opens = ev.iter().filter(|e| **e == Ev::Open).count();
        if opens > 1 && fail.is_none() { fail = Some(format!("channel {}: {} Open events", c.id, opens)); }
    }
    let reordered = p.note != "in-order";
    Verdict { fail, nontrivial: delivered_any && reordered, pre_established_replay: pre }
}

async fn run_plan(p: Plan) -> (Plan, Observed) {
    let o = run_history(p.client, &p.chans, &p.hist).await;
    (p, o)
}


// ------------------------------------------------------------------------------ live pair
/// Two REAL endpoints (DtlsTransport + SctpTransport + a negotiated reliable ordered channel each)
/// over a loopback DTLS pair; the plaintext SCTP packets each DTLS side delivers pass through a
/// fault function (addressed by direction, chunk type, ordinal) before they reach the other
/// SctpTransport. Faults here are duplications of setup datagrams; afterwards the network is
/// perfect. Oracle: both directions deliver every submitted message, in order, within 10 s --
/// unless the channel was reported closed.
#[derive(Clone, Debug)]
struct LiveFault { name: &'static str, to_server: bool, chunk_ty: u8, copies: usize }

fn chunk_types(pkt: &[u8]) -> Vec<u8> {
    parse_packet(pkt).map(|p| p.chunks.iter().map(|c| c.ty).collect()).unwrap_or_default()
}

async fn live_pair(faults: Vec<LiveFault>) -> (Vec<Vec<u8>>, Vec<Vec<u8>>, bool, String) {
    use rustrtc::transports::sctp::{DataChannel, DataChannelEvent, SctpTransport};
    use std::sync::Arc;
    use std::time::Duration;
    let mut pair = vh::net::dtls_pair_connected().await;
    let cfg = rustrtc::RtcConfiguration::default();
    let mut ends = vec![];
    let mut runners = vec![];
    // side 0 = client (DTLS client side), side 1 = server
    let rx_c = pair.client.app_rx.take().unwrap();
    let rx_s = pair.server.app_rx.take().unwrap();
    let dtls = [pair.client.dtls.clone(), pair.server.dtls.clone()];
    let mut rxs = vec![rx_c, rx_s];
    for side in 0..2 {
        let (tx, rx) = tokio::sync::mpsc::unbounded_channel::<bytes::Bytes>();
        let dc = Arc::new(DataChannel::new(0, ChanCfg::negotiated(0, true).to_config()));
        let chans = Arc::new(parking_lot::Mutex::new(vec![Arc::downgrade(&dc)]));
        let (sctp, run) = SctpTransport::new(dtls[side].clone(), rx, chans, 5000, 5000, None, side == 0, &cfg);
        runners.push(tokio::spawn(run));
        // packets arriving at this side's DTLS go through the fault function into its SctpTransport
        let mut app_rx = rxs.remove(0);
        let fs: Vec<LiveFault> = faults.iter().filter(|f| f.to_server == (side == 1)).cloned().collect();
        runners.push(tokio::spawn(async move {
            let mut seen: std::collections::HashMap<u8, usize> = Default::default();
            while let Some(pkt) = app_rx.recv().await {
                let tys = chunk_types(&pkt);
                let mut copies = 1;
                for f in &fs {
                    if tys.contains(&f.chunk_ty) { let n = seen.entry(f.chunk_ty).or_insert(0); if *n == 0 { copies = f.copies; } *n += 1; }
                }
                for _ in 0..copies { let _ = tx.send(pkt.clone()); }
            }
        }));
        ends.push((sctp, dc));
    }
    // wait for Open on both sides
    let mut note = String::new();
    for (i, (_, dc)) in ends.iter().enumerate() {
        match tokio::time::timeout(Duration::from_secs(10), dc.recv()).await {
            Ok(Some(DataChannelEvent::Open)) => {}
            other => note.push_str(&format!("side {} no Open: {:?}; ", i, other.map(|e| format!("{:?}", e)))),
        }
    }
    let msgs = |side: usize| -> Vec<Vec<u8>> { (0..4u8).map(|k| vec![b'A' + side as u8, k, 0x55]).collect() };
    for side in 0..2 { for m in msgs(side) { let _ = ends[side].0.send_data(0, &m).await; } }
    let mut got = vec![vec![], vec![]];
    let mut closed = false;
    for side in 0..2 {
        let deadline = tokio::time::Instant::now() + Duration::from_secs(10);
        while got[side].len() < 4 {
            let left = deadline.saturating_duration_since(tokio::time::Instant::now());
            if left.is_zero() { break; }
            match tokio::time::timeout(left, ends[side].1.recv()).await {
                Ok(Some(DataChannelEvent::Message(m))) => got[side].push(m.to_vec()),
                Ok(Some(DataChannelEvent::Close)) | Ok(None) => { closed = true; break; }
                Ok(Some(DataChannelEvent::Open)) => note.push_str("second Open; "),
                Err(_) => break,
            }
        }
        if ends[side].0.close_reason().is_some() { closed = true; }
    }
    for (s, _) in &ends { s.close(); }
    for r in runners { r.abort(); }
    let g1 = got.pop().unwrap();
    let g0 = got.pop().unwrap();
    (g0, g1, closed, note)
}

async fn live_case(name: &'static str, faults: Vec<LiveFault>) -> Case {
    let (at_client, at_server, closed, note) = live_pair(faults.clone()).await;
    let want = |side: u8| -> Vec<Vec<u8>> { (0..4u8).map(|k| vec![b'A' + side, k, 0x55]).collect() };
    let mut fail = None;
    if !closed {
        if at_client != want(1) { fail = Some(format!("live pair, fault '{}': server -> client delivered {} of 4 messages ({:?}), nobody reported the channel closed", name, at_client.len(), at_client)); }
        else if at_server != want(0) { fail = Some(format!("live pair, fault '{}': client -> server delivered {} of 4 messages ({:?}), nobody reported the channel closed", name, at_server.len(), at_server)); }
        else if !note.is_empty() { fail = Some(format!("live pair, fault '{}': {}", name, note)); }
    }
    Case { term: "-".into(), desc: json!({"kind": "live-pair", "fault": name, "faults": faults.iter().map(|f| json!({"to_server": f.to_server, "first_datagram_with_chunk_type": f.chunk_ty, "copies": f.copies})).collect::<Vec<_>>(),
            "client_received": at_client.len(), "server_received": at_server.len(), "closed": closed, "note": note}),
        oracle_fail: fail, known: None, nontrivial: true, key: key_of(&format!("live{:?}", faults)), kind: "live-pair".into() }
}


// ------------------------------------------------------------------------------ live pair behind the datagram proxy
/// Two real endpoints (DTLS + SCTP + channels) whose UDP datagrams pass through `vh::net::Proxy`.
/// Once DTLS is up the proxy is armed: the first datagrams of each direction (SCTP handshake and
/// DATA / SACK traffic, still encrypted) are dropped / duplicated / delayed (= reordered) according
/// to a table drawn from the seed; afterwards the network is perfect. Oracle: what each side
/// receives on an ordered channel is at every moment a prefix of what the other side submitted,
/// byte-identical, (same multiset on an unordered one), and complete within 25 s after the last
/// submission unless a close was reported.
#[derive(Clone, Copy, Debug, PartialEq)]
enum Act { Pass, Drop, Dup, Delay(u64) }

async fn live_proxy_case(seed: u64, idx: usize) -> Case {
    use rustrtc::transports::sctp::{DataChannel, DataChannelEvent, SctpTransport};
    use std::sync::atomic::{AtomicBool, Ordering as AO};
    use std::sync::Arc;
    use std::time::Duration;
    use vh::net::{dtls_pair_with, forward, wait_dtls_terminal, Dir};
    let mut rng = Rng::new(seed ^ (0x11FE_0000 + idx as u64));
    let horizon = 16usize;
    let table = |rng: &mut Rng| -> Vec<Act> { (0..horizon).map(|_| match rng.below(100) { 0..=15 => Act::Drop, 16..=30 => Act::Dup, 31..=45 => Act::Delay(rng.range(20, 160)), _ => Act::Pass }).collect() };
    let t_ab = table(&mut rng);
    let t_ba = table(&mut rng);
    let armed = Arc::new(AtomicBool::new(false));
    let applied = Arc::new(parking_lot::Mutex::new(Vec::<String>::new()));
    let policy: vh::net::Policy = {
        let (armed, applied, t_ab, t_ba) = (armed.clone(), applied.clone(), t_ab.clone(), t_ba.clone());
        let mut n = [0usize, 0usize];
        Box::new(move |dir, _ord, pkt| {
            if !armed.load(AO::SeqCst) { return forward(pkt); }
            let (k, tab) = if dir == Dir::AtoB { (0, &t_ab) } else { (1, &t_ba) };
            let i = n[k]; n[k] += 1;
            let act = tab.get(i).copied().unwrap_or(Act::Pass);
            if act != Act::Pass { applied.lock().push(format!("{:?}#{}:{:?}", dir, i, act)); }
            match act {
                Act::Pass => forward(pkt),
                Act::Drop => vec![],
                Act::Dup => vec![(Duration::ZERO, pkt.to_vec()), (Duration::from_millis(3), pkt.to_vec())],
                Act::Delay(ms) => vec![(Duration::from_millis(ms), pkt.to_vec())],
            }
        })
    };
    let mut pair = dtls_pair_with(Some(policy), None, None).await;
    let okc = matches!(wait_dtls_terminal(&pair.client.dtls, Duration::from_secs(10)).await, rustrtc::transports::dtls::DtlsState::Connected(..));
    let oks = matches!(wait_dtls_terminal(&pair.server.dtls, Duration::from_secs(10)).await, rustrtc::transports::dtls::DtlsState::Connected(..));
    if !(okc && oks) {
        return Case { term: "-".into(), desc: json!({"kind": "live-proxy", "idx": idx, "note": "DTLS did not connect (no faults were armed)"}), oracle_fail: None, known: None,
            nontrivial: false, key: key_of(&format!("lp{}{}", seed, idx)), kind: "live-proxy".into() };
    }
    armed.store(true, AO::SeqCst);
    let mut cfg = rustrtc::RtcConfiguration::default();
    cfg.sctp_rto_initial = Duration::from_millis(300);
    cfg.sctp_rto_min = Duration::from_millis(200);
    cfg.sctp_rto_max = Duration::from_secs(2);
    // channels: an ordered one on stream 0, sometimes an unordered one on stream 1
    let two = rng.chance(1, 2);
    let chan_cfgs: Vec<ChanCfg> = if two { vec![ChanCfg::negotiated(0, true), ChanCfg::negotiated(1, false)] } else { vec![ChanCfg::negotiated(0, true)] };
    let mut ends: Vec<(Arc<SctpTransport>, Vec<Arc<DataChannel>>)> = vec![];
    let mut tasks = vec![];
    let rxs = [pair.client.app_rx.take().unwrap(), pair.server.app_rx.take().unwrap()];
    let dtls = [pair.client.dtls.clone(), pair.server.dtls.clone()];
    for (side, mut app_rx) in rxs.into_iter().enumerate() {
        let (tx, rx) = tokio::sync::mpsc::unbounded_channel::<bytes::Bytes>();
        let dcs: Vec<Arc<DataChannel>> = chan_cfgs.iter().map(|c| Arc::new(DataChannel::new(c.id, c.to_config()))).collect();
        let list = Arc::new(parking_lot::Mutex::new(dcs.iter().map(Arc::downgrade).collect::<Vec<_>>()));
        let (sctp, run) = SctpTransport::new(dtls[side].clone(), rx, list, 5000, 5000, None, side == 0, &cfg);
        tasks.push(tokio::spawn(run));
        tasks.push(tokio::spawn(async move { while let Some(p) = app_rx.recv().await { let _ = tx.send(p); } }));
        ends.push((sctp, dcs));
    }
    // workloads: per side, per channel
    let mut sent: Vec<Vec<Vec<Vec<u8>>>> = vec![vec![vec![]; chan_cfgs.len()]; 2];
    for side in 0..2 { for _ in 0..rng.range(2, 6) {
        let ch = rng.below(chan_cfgs.len() as u64) as usize;
        let n = *rng.pick(&[0usize, 1, 17, 1171, 1172, 1173, 2500, 5000]);
        let mut m = ap_bytes(n, rng.next() as u8); if n > 0 { m[0] = side as u8; }
        sent[side][ch].push(m);
    } }
    // receivers collect concurrently into shared logs
    let logs: Vec<Vec<Arc<parking_lot::Mutex<Vec<Ev>>>>> = (0..2).map(|_| (0..chan_cfgs.len()).map(|_| Arc::new(parking_lot::Mutex::new(vec![]))).collect()).collect();
    for side in 0..2 { for (ci, dc) in ends[side].1.iter().enumerate() {
        let dc = dc.clone();
        let log = logs[side][ci].clone();
        tasks.push(tokio::spawn(async move {
            loop {
                match dc.recv().await {
                    Some(DataChannelEvent::Open) => log.lock().push(Ev::Open),
                    Some(DataChannelEvent::Message(m)) => log.lock().push(Ev::Msg(m.to_vec())),
                    Some(DataChannelEvent::Close) => { log.lock().push(Ev::Close); break; }
                    None => break,
                }
            }
        }));
    } }
    let t_start = std::time::Instant::now();
    // send once the association is up (state Open on channel 0 of that side)
    let mut send_h = vec![];
    for side in 0..2 {
        let sctp = ends[side].0.clone();
        let dc0 = ends[side].1[0].clone();
        let msgs = sent[side].clone();
        let ids: Vec<u16> = chan_cfgs.iter().map(|c| c.id).collect();
        send_h.push(tokio::spawn(async move {
            let t = std::time::Instant::now();
            while dc0.state.load(AO::SeqCst) != 1 && t.elapsed() < Duration::from_secs(20) { tokio::time::sleep(Duration::from_millis(5)).await; }
            let opened = dc0.state.load(AO::SeqCst) == 1;
            if opened { for (ci, ms) in msgs.iter().enumerate() { for m in ms { let _ = sctp.send_data(ids[ci], m).await; } } }
            opened
        }));
    }
    let mut opened = vec![];
    for h in send_h { opened.push(h.await.unwrap_or(false)); }
    // completion: poll until everything expected is there (plus a grace period in which duplicates
    // would still show up) or 25 s passed since the last submission
    let nmsgs = |side: usize, ci: usize| logs[side][ci].lock().iter().filter(|e| matches!(e, Ev::Msg(_))).count();
    let deadline = std::time::Instant::now() + Duration::from_secs(25);
    let mut closed = false;
    while std::time::Instant::now() < deadline {
        tokio::time::sleep(Duration::from_millis(25)).await;
        if ends.iter().any(|(s, _)| s.close_reason().is_some()) { closed = true; break; }
        let done = (0..2).all(|side| (0..chan_cfgs.len()).all(|ci| nmsgs(side, ci) >= sent[1 - side][ci].len()));
        if done { tokio::time::sleep(Duration::from_millis(300)).await; break; }
    }
    let waited = t_start.elapsed();
    let got: Vec<Vec<Vec<Ev>>> = logs.iter().map(|s| s.iter().map(|l| l.lock().clone()).collect()).collect();
    for (s, _) in &ends { s.close(); }
    for t in tasks { t.abort(); }
    // oracle
    let mut fail = None;
    for side in 0..2 { for (ci, cc) in chan_cfgs.iter().enumerate() {
        let other = 1 - side;
        let evs = &got[side][ci];
        let msgs: Vec<&Vec<u8>> = evs.iter().filter_map(|e| if let Ev::Msg(m) = e { Some(m) } else { None }).collect();
        let want = &sent[other][ci];
        let opens = evs.iter().filter(|e| **e == Ev::Open).count();
        if opens > 1 && fail.is_none() { fail = Some(format!("side {} channel {}: {} Open events", side, cc.id, opens)); }
        if let Some(k) = evs.iter().position(|e| matches!(e, Ev::Msg(_))) { if evs.iter().position(|e| *e == Ev::Open).map(|o| o > k).unwrap_or(true) && fail.is_none() { fail = Some(format!("side {} channel {}: message before Open", side, cc.id)); } }
        if cc.ordered {
            let is_prefix = msgs.len() <= want.len() && msgs.iter().zip(want.iter()).all(|(a, b)| *a == b);
            if !is_prefix && fail.is_none() { fail = Some(format!("side {} channel {}: received {} messages that are not a prefix of the {} submitted", side, cc.id, msgs.len(), want.len())); }
        } else {
            let mut pool: Vec<&Vec<u8>> = want.iter().collect();
            for m in &msgs { match pool.iter().position(|w| w == m) { Some(k) => { pool.remove(k); } None => if fail.is_none() { fail = Some(format!("side {} channel {}: a message was duplicated or fabricated", side, cc.id)); } } }
        }
        let peer_closed = evs.contains(&Ev::Close) && false;
        if msgs.len() != want.len() && !closed && !peer_closed && opened[other] && fail.is_none() {
            fail = Some(format!("side {} channel {}: {} of {} messages after {:?} of fault-free network (faults: {:?}); nobody reported a close", side, cc.id, msgs.len(), want.len(), waited, applied.lock()));
        }
    } }
    if !(opened[0] && opened[1]) && !closed && fail.is_none() { fail = Some(format!("association did not come up within 20 s (faults: {:?})", applied.lock())); }
    let faults = applied.lock().clone();
    Case { term: "-".into(), desc: json!({"kind": "live-proxy", "idx": idx, "channels": chan_cfgs.len(), "faults": faults,
            "submitted": sent.iter().map(|s| s.iter().map(|c| c.iter().map(|m| m.len()).collect::<Vec<_>>()).collect::<Vec<_>>()).collect::<Vec<_>>(),
            "received": got.iter().map(|s| s.iter().map(|c| c.iter().map(|e| e.short()).collect::<Vec<_>>()).collect::<Vec<_>>()).collect::<Vec<_>>(),
            "seconds": waited.as_secs_f32(), "closed": closed}),
        oracle_fail: fail, known: None, nontrivial: !faults.is_empty(), key: key_of(&format!("lp{}{}{:?}", seed, idx, faults)), kind: "live-proxy".into() }
}

#[tokio::main(flavor = "multi_thread", worker_threads = 8)]
async fn main() {
    let args = parse_args();
    let thorough = args.tier == "thorough";
    let mut rng = Rng::new(args.seed);
    let mut plans = corpus();
    plans.extend(pre_established_plans());
    plans.push(ssn_wrap_plan());
    let (n_random, n_mal, n_gaps, n_dupbuf) = if thorough { (12_000, 3_000, 600, 600) } else { (2_200, 500, 80, 120) };
    for _ in 0..n_random { plans.push(gen_plan(&mut rng)); }
    for _ in 0..n_mal { plans.push(gen_malformed(&mut rng)); }
    for i in 0..n_gaps { plans.push(gen_ssn_gaps(&mut rng, i % 8 == 0)); }
    plans.push(gen_dup_buffered(&mut rng, 150, 1000));
    plans.push(gen_dup_buffered(&mut rng, 140, 1172));
    for _ in 0..n_dupbuf { let c = rng.range(1, 12) as usize; let sz = rng.range(64, 400) as usize; plans.push(gen_dup_buffered(&mut rng, c, sz)); }
    let results = par_map(plans, 24, run_plan).await;
    let mut out = Out::new(&args.out);
    let mut kinds = std::collections::BTreeMap::<String, usize>::new();
    let mut orders = std::collections::BTreeMap::<String, usize>::new();
    for (p, o) in results {
        let v = oracle(&p, &o);
        *kinds.entry(p.kind.to_string()).or_default() += 1;
        *orders.entry(p.note.clone()).or_default() += 1;
        let spec_sc;
        let spec = if p.spec { spec_sc = (p.sc.clone(), p.w.clone()); Some((&spec_sc.0[..], &spec_sc.1[..], p.t0)) } else { None };
        let huge = p.hist.len() > 20_000;
        // the 1 MiB case goes to the direct oracle only (the model's list append is quadratic in the message size)
        let term = if p.w.iter().any(|m| m.data.len() >= 1_000_000) { "-".to_string() } else { plan_term(&p, &o, spec) };
        let hist_json: Vec<serde_json::Value> = p.hist.iter().take(40).map(|i| i.json()).collect();
        let (oracle_fail, known) = match v.fail {
            Some(f) => (Some(f), None),
            None => (None, None),
        };
        out.push(Case {
            term,
            desc: json!({"kind": p.kind, "role": if p.client { "client" } else { "server" }, "note": p.note, "t0": p.t0,
                "channels": p.chans.iter().map(|c| c.json()).collect::<Vec<_>>(),
                "workload": p.w.iter().take(12).map(|s| json!({"sid": s.sid, "len": s.data.len()})).collect::<Vec<_>>(),
                "history_len": p.hist.len(), "history_head": hist_json, "observed": if huge { json!("(omitted)") } else { o.json() }}),
            oracle_fail,
            known,
            nontrivial: v.nontrivial,
            key: key_of(&format!("{}|{:?}|{}", p.client, p.chans, p.hist.iter().map(|i| i.term()).collect::<Vec<_>>().join(";"))),
            kind: p.kind.to_string(),
        });
    }
    // live two-endpoint scenarios: duplicated setup datagrams, then data in both directions
    let f = |name, to_server, chunk_ty, copies| LiveFault { name, to_server, chunk_ty, copies };
    let live: Vec<(&'static str, Vec<LiveFault>)> = vec![
        ("none", vec![]),
        ("INIT delivered twice", vec![f("dup-init", true, 1, 2)]),
        ("INIT delivered three times", vec![f("dup-init3", true, 1, 3)]),
        ("INIT-ACK delivered twice", vec![f("dup-init-ack", false, 2, 2)]),
        ("COOKIE-ECHO delivered twice", vec![f("dup-cookie-echo", true, 10, 2)]),
        ("COOKIE-ACK delivered twice", vec![f("dup-cookie-ack", false, 11, 2)]),
        ("INIT twice and INIT-ACK twice", vec![f("dup-init", true, 1, 2), f("dup-init-ack", false, 2, 2)]),
    ];
    for (name, faults) in live { let c = live_case(name, faults).await; *kinds.entry("live-pair".into()).or_default() += 1; out.push(c); }
    // live pair behind the fault-injecting datagram proxy
    let n_lp = if thorough { 240 } else { 36 };
    let seed = args.seed;
    let lp = par_map((0..n_lp).collect::<Vec<usize>>(), 12, move |i| live_proxy_case(seed, i)).await;
    for c in lp { *kinds.entry("live-proxy".into()).or_default() += 1; out.push(c); }
    out.finish(json!({"generator": {"tier": args.tier, "seed": args.seed, "kinds": kinds, "arrival_orders": orders,
        "t0": "1/6 just below 2^32, 1/6 0..2, 1/6 around 2^31, else uniform u32",
        "sizes": "0,1,2,mps-1,mps,mps+1,2mps,2mps+1,3mps with mps 1..6 (1171/1172/1200 in 1/40 of cases); corpus 1171,1172,1173,2344,65536",
        "channels": "1..4 negotiated, 3/4 ordered, ids from {0,1,2,7,65535}+11i; peer disagrees on ordering in 1/10"}}));
}
