//! Shared by c01.rs and c12.rs (included with `#[path]`): a scripted SCTP peer whose *whole*
//! association history (setup chunks included) is chosen by the harness, the Rust mirror of the
//! model's `input` type, observation of everything the endpoint exposes (per-channel event
//! streams, announced channels, emitted DCEP / control chunks, SACKs, channel states), and the
//! Gallina rendering of a case (`Model/SctpObs.v`).
//!
//! `vh::sctp_peer::Uut` always completes the handshake inside `start`; the setup-replay cases
//! need duplicated / withheld setup chunks, hence this variant (same construction, no private
//! access: packets in through the channel `SctpTransport::new` takes, packets out from the DTLS
//! peer's application-data receiver).
#![allow(dead_code)]
use bytes::Bytes;
use parking_lot::Mutex;
use rustrtc::transports::sctp::{DataChannel, DataChannelConfig, DataChannelEvent, SctpTransport};
use rustrtc::RtcConfiguration;
use std::sync::atomic::Ordering;
use std::sync::{Arc, Weak};
use std::time::Duration;
use tokio::sync::mpsc;
use vh::net::sctp_wire::*;
use vh::net::{dtls_pair_connected, DtlsPair};
use vh::*;

pub const PORT: u16 = 5000;

#[derive(Clone, Debug, PartialEq)]
pub struct ChanCfg {
    pub id: u16,
    pub ordered: bool,
    pub negotiated: bool,
    pub label: String,
    pub proto: String,
    pub rex: Option<u16>,
    pub life: Option<u16>,
    pub mps: Option<usize>,
}
impl ChanCfg {
    pub fn negotiated(id: u16, ordered: bool) -> ChanCfg {
        ChanCfg { id, ordered, negotiated: true, label: format!("n{}", id), proto: String::new(), rex: None, life: None, mps: None }
    }
    pub fn inband(id: u16, ordered: bool, label: &str, proto: &str, rex: Option<u16>, life: Option<u16>) -> ChanCfg {
        ChanCfg { id, ordered, negotiated: false, label: label.into(), proto: proto.into(), rex, life, mps: None }
    }
    pub fn to_config(&self) -> DataChannelConfig {
        DataChannelConfig { label: self.label.clone(), protocol: self.proto.clone(), ordered: self.ordered, max_retransmits: self.rex,
            max_packet_life_time: self.life, max_payload_size: self.mps, negotiated: if self.negotiated { Some(self.id) } else { None } }
    }
    pub fn of_dc(dc: &DataChannel) -> ChanCfg {
        ChanCfg { id: dc.id, ordered: dc.ordered, negotiated: dc.negotiated, label: dc.label.clone(), proto: dc.protocol.clone(),
            rex: dc.max_retransmits, life: dc.max_packet_life_time, mps: None }
    }
    pub fn term(&self) -> String {
        format!("(new_chan {} {} {} {} {} {} {})", self.id, bool_term(self.ordered), bool_term(self.negotiated), bytes_term(self.label.as_bytes()),
            bytes_term(self.proto.as_bytes()), opt_term(self.rex.map(|x| x.to_string())), opt_term(self.life.map(|x| x.to_string())))
    }
    pub fn json(&self) -> serde_json::Value {
        serde_json::json!({"id": self.id, "ordered": self.ordered, "negotiated": self.negotiated, "label": self.label, "protocol": self.proto,
            "max_retransmits": self.rex, "max_packet_life_time": self.life, "max_payload_size": self.mps})
    }
}

#[derive(Clone, Debug, PartialEq)]
pub struct DataC {
    pub tsn: u32,
    pub flags: u8,
    pub sid: u16,
    pub ssn: u16,
    pub ppid: u32,
    pub data: Vec<u8>,
}
impl DataC {
    pub fn term(&self) -> String {
        format!("(D {} {} {} {} {} {})", self.tsn, self.flags, self.sid, self.ssn, self.ppid, bytes_t(&self.data))
    }
    pub fn chunk(&self) -> Chunk {
        data_chunk(self.tsn, self.sid, self.ssn, self.ppid, self.flags, &self.data)
    }
    pub fn json(&self) -> serde_json::Value {
        serde_json::json!({"tsn": self.tsn, "flags": self.flags, "sid": self.sid, "ssn": self.ssn, "ppid": self.ppid, "len": self.data.len(),
            "head": self.data.iter().take(8).map(|b| format!("{:02x}", b)).collect::<String>()})
    }
}

#[derive(Clone, Debug, PartialEq)]
pub enum Input {
    Data(DataC),
    Init(u32),
    InitAck(u32, bool),
    CookieEcho(bool),
    CookieAck,
    FwdTsn(u32, Vec<(u16, u16)>),
    Close(u16),
    Teardown,
    /// RE-CONFIG chunk with this value, from the peer
    Reconfig(Vec<u8>),
}
impl Input {
    pub fn term(&self) -> String {
        match self {
            Input::Data(d) => format!("IData {}", d.term()),
            Input::Init(t) => format!("IInit {}", t),
            Input::InitAck(t, c) => format!("IInitAck {} {}", t, bool_term(*c)),
            Input::CookieEcho(v) => format!("ICookieEcho {}", bool_term(*v)),
            Input::CookieAck => "ICookieAck".into(),
            Input::FwdTsn(n, ps) => format!("IFwdTsn {} {}", n, list_term(&ps.iter().map(|(a, b)| format!("({}, {})", a, b)).collect::<Vec<_>>())),
            Input::Close(s) => format!("IClose {}", s),
            Input::Teardown => "ITeardown".into(),
            Input::Reconfig(v) => format!("IReconfig {}", bytes_t(v)),
        }
    }
    pub fn json(&self) -> serde_json::Value {
        match self {
            Input::Data(d) => serde_json::json!({"data": d.json()}),
            Input::Init(t) => serde_json::json!({"init": t}),
            Input::InitAck(t, c) => serde_json::json!({"init_ack": t, "cookie": c}),
            Input::CookieEcho(v) => serde_json::json!({"cookie_echo_valid": v}),
            Input::CookieAck => serde_json::json!("cookie_ack"),
            Input::FwdTsn(n, ps) => serde_json::json!({"forward_tsn": n, "streams": ps}),
            Input::Close(s) => serde_json::json!({"close_data_channel": s}),
            Input::Teardown => serde_json::json!("teardown"),
            Input::Reconfig(v) => serde_json::json!({"reconfig": hex(v)}),
        }
    }
}

#[derive(Clone, Debug, PartialEq)]
pub enum Ev {
    Open,
    Msg(Vec<u8>),
    Close,
}
impl Ev {
    pub fn term(&self) -> String {
        match self {
            Ev::Open => "EOpen".into(),
            Ev::Msg(m) => format!("EMsg {}", bytes_t(m)),
            Ev::Close => "EClose".into(),
        }
    }
    pub fn short(&self) -> String {
        match self {
            Ev::Open => "open".into(),
            Ev::Msg(m) => format!("msg[{}]{}", m.len(), m.iter().take(6).map(|b| format!("{:02x}", b)).collect::<String>()),
            Ev::Close => "close".into(),
        }
    }
}

#[derive(Clone, Debug, Default)]
pub struct Observed {
    pub per_chan: Vec<(u16, Vec<Ev>)>,
    pub newdc: Vec<ChanCfg>,
    pub tx_dcep: Vec<(u16, Vec<u8>)>,
    pub ctl: Vec<u8>,
    pub sack: Option<u32>,
    /// a_rwnd of the last SACK the endpoint emitted
    pub sack_rwnd: Option<u32>,
    pub states: Vec<(u16, usize)>,
    pub tx_data: Vec<DataC>,
    pub packets: Vec<Packet>,
    /// the endpoint stopped answering (task ended / panicked) before the history was over
    pub dead: Option<String>,
    pub uut_initial_tsn: Option<u32>,
}
impl Observed {
    pub fn msgs(&self, sid: u16) -> Vec<Vec<u8>> {
        self.per_chan.iter().filter(|(s, _)| *s == sid).flat_map(|(_, e)| e.iter()).filter_map(|e| if let Ev::Msg(m) = e { Some(m.clone()) } else { None }).collect()
    }
    pub fn events(&self, sid: u16) -> Vec<Ev> {
        self.per_chan.iter().filter(|(s, _)| *s == sid).flat_map(|(_, e)| e.iter().cloned()).collect()
    }
    pub fn json(&self) -> serde_json::Value {
        serde_json::json!({
            "events": self.per_chan.iter().map(|(s, e)| serde_json::json!({"sid": s, "ev": e.iter().map(|x| x.short()).collect::<Vec<_>>()})).collect::<Vec<_>>(),
            "new_channels": self.newdc.iter().map(|c| c.json()).collect::<Vec<_>>(),
            "dcep_sent": self.tx_dcep.iter().map(|(s, p)| serde_json::json!({"sid": s, "bytes": p.iter().map(|b| format!("{:02x}", b)).collect::<String>()})).collect::<Vec<_>>(),
            "ctl": self.ctl, "last_sack_cum": self.sack, "last_sack_a_rwnd": self.sack_rwnd, "states": self.states, "dead": self.dead,
        })
    }
}

pub fn sctp_config() -> RtcConfiguration {
    let mut c = RtcConfiguration::default();
    // no T1 / T3 / heartbeat timer may fire inside a case: the histories are timer-free
    c.sctp_rto_initial = Duration::from_secs(60);
    c.sctp_rto_min = Duration::from_secs(60);
    c.sctp_rto_max = Duration::from_secs(120);
    c.sctp_heartbeat_interval = Duration::from_secs(3600);
    c
}

/// the receive window every endpoint under test is configured with (config.sctp_receive_window)
pub fn local_rwnd() -> u32 { sctp_config().sctp_receive_window as u32 }

pub struct Assoc {
    pub pair: DtlsPair,
    pub sctp: Arc<SctpTransport>,
    inject_tx: mpsc::UnboundedSender<Bytes>,
    out_rx: mpsc::UnboundedReceiver<Bytes>,
    pub channels: Arc<Mutex<Vec<Weak<DataChannel>>>>,
    pub dcs: Vec<Arc<DataChannel>>,
    new_dc_rx: mpsc::UnboundedReceiver<Arc<DataChannel>>,
    runner: Option<tokio::task::JoinHandle<()>>,
    pub peer_tag: u32,
    pub uut_tag: u32,
    pub uut_initial_tsn: Option<u32>,
    cookie: Option<Vec<u8>>,
    pub log: Vec<Packet>,
    nonce: u32,
    pub torn_down: bool,
    pub dead: Option<String>,
}

impl Drop for Assoc {
    fn drop(&mut self) {
        self.sctp.close();
        if let Some(r) = &self.runner { r.abort(); }
    }
}

impl Assoc {
    pub async fn new(sctp_client: bool, chans: &[ChanCfg], config: &RtcConfiguration) -> Assoc {
        let mut pair = dtls_pair_connected().await;
        let out_rx = pair.server.app_rx.take().unwrap();
        let _unused = pair.client.app_rx.take();
        let (inject_tx, inject_rx) = mpsc::unbounded_channel::<Bytes>();
        let channels: Arc<Mutex<Vec<Weak<DataChannel>>>> = Arc::new(Mutex::new(Vec::new()));
        let mut dcs = vec![];
        for c in chans {
            let dc = Arc::new(DataChannel::new(c.id, c.to_config()));
            channels.lock().push(Arc::downgrade(&dc));
            dcs.push(dc);
        }
        let (new_dc_tx, new_dc_rx) = mpsc::unbounded_channel();
        let (sctp, run) = SctpTransport::new(pair.client.dtls.clone(), inject_rx, channels.clone(), PORT, PORT, Some(new_dc_tx), sctp_client, config);
        let runner = tokio::spawn(run);
        let mut a = Assoc { pair, sctp, inject_tx, out_rx, channels, dcs, new_dc_rx, runner: Some(runner), peer_tag: 0x0BAD_CAFE, uut_tag: 0,
            uut_initial_tsn: None, cookie: None, log: vec![], nonce: 0x5100_0000, torn_down: false, dead: None };
        if sctp_client {
            // the endpoint sends INIT on its own; read it (it is not part of the modelled history)
            let t = tokio::time::Instant::now();
            while a.uut_initial_tsn.is_none() && t.elapsed() < Duration::from_secs(5) {
                a.pump(Duration::from_millis(50)).await;
            }
        }
        // make sure run_loop is past its DTLS wait (state Connecting) before the first input
        a.barrier().await;
        a
    }

    fn note(&mut self, p: Packet) {
        for c in &p.chunks {
            if (c.ty == 1 || c.ty == 2) && c.value.len() >= 16 {
                self.uut_tag = u32::from_be_bytes(c.value[0..4].try_into().unwrap());
                self.uut_initial_tsn = Some(u32::from_be_bytes(c.value[12..16].try_into().unwrap()));
            }
            if c.ty == 2 {
                let v = &c.value;
                let mut off = 16;
                while off + 4 <= v.len() {
                    let ty = u16::from_be_bytes([v[off], v[off + 1]]);
                    let len = u16::from_be_bytes([v[off + 2], v[off + 3]]) as usize;
                    if len < 4 || off + len > v.len() { break; }
                    if ty == 7 { self.cookie = Some(v[off + 4..off + len].to_vec()); }
                    off += (len + 3) & !3;
                }
            }
        }
        self.log.push(p);
    }

    /// read one packet if one arrives within `max`
    async fn pump(&mut self, max: Duration) -> bool {
        match tokio::time::timeout(max, self.out_rx.recv()).await {
            Ok(Some(b)) => { if let Some(p) = parse_packet(&b) { self.note(p); } true }
            _ => false,
        }
    }

    pub fn send_chunks(&self, tag: u32, chunks: &[Chunk]) {
        let _ = self.inject_tx.send(Bytes::from(build_packet(PORT, PORT, tag, chunks)));
    }

    /// HEARTBEAT with a fresh nonce; returns once the matching HEARTBEAT-ACK came back, i.e. once
    /// every packet injected before it has been handled by run_loop (packets are handled in order).
    pub async fn barrier(&mut self) -> bool {
        if self.torn_down || self.dead.is_some() { return false; }
        self.nonce = self.nonce.wrapping_add(1);
        let mut info = vec![0u8, 1, 0, 8];
        info.extend_from_slice(&self.nonce.to_be_bytes());
        self.send_chunks(self.uut_tag, &[Chunk { ty: 4, flags: 0, value: info.clone() }]);
        let deadline = tokio::time::Instant::now() + Duration::from_secs(10);
        loop {
            let left = deadline.saturating_duration_since(tokio::time::Instant::now());
            if left.is_zero() {
                self.dead = Some(format!("no HEARTBEAT-ACK within 10 s (runner finished: {})", self.runner.as_ref().map(|r| r.is_finished()).unwrap_or(true)));
                return false;
            }
            match tokio::time::timeout(left, self.out_rx.recv()).await {
                Ok(Some(b)) => {
                    if let Some(p) = parse_packet(&b) {
                        let mine = p.chunks.iter().any(|c| c.ty == 5 && c.value == info);
                        if mine { return true; }
                        self.note(p);
                    }
                }
                Ok(None) => { self.dead = Some("output channel closed".into()); return false; }
                Err(_) => {}
            }
        }
    }

    pub async fn apply(&mut self, i: &Input) {
        match i {
            Input::Data(d) => self.send_chunks(self.uut_tag, &[d.chunk()]),
            Input::Init(t) => {
                let mut params = vec![];
                params.extend_from_slice(&0xC000u16.to_be_bytes());
                params.extend_from_slice(&4u16.to_be_bytes());
                self.send_chunks(0, &[init_chunk(1, self.peer_tag, 1 << 20, 1024, 1024, *t, &params)]);
                // the INIT-ACK carries the cookie a later valid COOKIE-ECHO needs
                self.barrier().await;
            }
            Input::InitAck(t, with_cookie) => {
                let mut params = vec![];
                params.extend_from_slice(&0xC000u16.to_be_bytes());
                params.extend_from_slice(&4u16.to_be_bytes());
                if *with_cookie {
                    let cookie = b"verif-cookie-0123456".to_vec();
                    params.extend_from_slice(&7u16.to_be_bytes());
                    params.extend_from_slice(&((4 + cookie.len()) as u16).to_be_bytes());
                    params.extend_from_slice(&cookie);
                    while params.len() % 4 != 0 { params.push(0); }
                }
                self.send_chunks(self.uut_tag, &[init_chunk(2, self.peer_tag, 1 << 20, 1024, 1024, *t, &params)]);
            }
            Input::CookieEcho(valid) => {
                let ck = if *valid { self.cookie.clone().expect("valid COOKIE-ECHO needs an earlier INIT") } else { vec![0x55; 28] };
                self.send_chunks(self.uut_tag, &[Chunk { ty: 10, flags: 0, value: ck }]);
            }
            Input::CookieAck => self.send_chunks(self.uut_tag, &[Chunk { ty: 11, flags: 0, value: vec![] }]),
            Input::FwdTsn(n, ps) => {
                let mut v = n.to_be_bytes().to_vec();
                for (s, q) in ps { v.extend_from_slice(&s.to_be_bytes()); v.extend_from_slice(&q.to_be_bytes()); }
                self.send_chunks(self.uut_tag, &[Chunk { ty: 192, flags: 0, value: v }]);
            }
            Input::Reconfig(v) => self.send_chunks(self.uut_tag, &[Chunk { ty: 130, flags: 0, value: v.clone() }]),
            Input::Close(sid) => {
                // an API call: everything injected so far must have been handled first
                self.barrier().await;
                let _ = self.sctp.close_data_channel(*sid).await;
            }
            Input::Teardown => {
                self.barrier().await;
                self.sctp.close();
                if let Some(r) = self.runner.take() {
                    let _ = tokio::time::timeout(Duration::from_secs(5), r).await;
                }
                self.torn_down = true;
            }
        }
    }

    /// three barriers: every SACK owed for the injected DATA has left the endpoint afterwards
    pub async fn settle(&mut self) {
        for _ in 0..3 { if !self.barrier().await { break; } }
        while self.pump(Duration::from_millis(1)).await {}
    }

    pub async fn observe(&mut self) -> Observed {
        self.settle().await;
        while let Ok(dc) = self.new_dc_rx.try_recv() { self.dcs.push(dc); }
        let mut o = Observed::default();
        let pre = self.dcs.clone();
        for dc in &pre {
            let mut evs = vec![];
            // everything is already queued (see settle); poll without a timer and without tokio's
            // cooperative budget, which could otherwise report Pending on a non-empty queue
            loop {
                use futures::FutureExt;
                match tokio::task::unconstrained(dc.recv()).now_or_never() {
                    Some(Some(DataChannelEvent::Open)) => evs.push(Ev::Open),
                    Some(Some(DataChannelEvent::Message(m))) => evs.push(Ev::Msg(m.to_vec())),
                    Some(Some(DataChannelEvent::Close)) => evs.push(Ev::Close),
                    _ => break,
                }
            }
            o.per_chan.push((dc.id, evs));
            o.states.push((dc.id, dc.state.load(Ordering::SeqCst)));
        }
        o.uut_initial_tsn = self.uut_initial_tsn;
        o.dead = self.dead.clone();
        o.packets = self.log.clone();
        for p in &self.log {
            for c in &p.chunks {
                match c.ty {
                    0 => if let Some(d) = parse_data(c) {
                        let dc = DataC { tsn: d.tsn, flags: d.flags, sid: d.sid, ssn: d.ssn, ppid: d.ppid, data: d.payload };
                        if dc.ppid == 50 { o.tx_dcep.push((dc.sid, dc.data.clone())); }
                        o.tx_data.push(dc);
                    },
                    3 => if let Some(s) = parse_sack(&c.value) { o.sack = Some(s.cum); o.sack_rwnd = Some(s.a_rwnd); },
                    2 | 10 | 11 | 130 => o.ctl.push(c.ty),
                    _ => {}
                }
            }
        }
        o
    }

    /// channels announced on new_data_channel_tx so far (kept alive by the caller's Assoc)
    pub fn announced(&self, pre: usize) -> Vec<ChanCfg> {
        self.dcs[pre..].iter().map(|d| ChanCfg::of_dc(d)).collect()
    }
}

/// Run one history on a fresh endpoint. `chans` are created before the association starts.
pub async fn run_history(sctp_client: bool, chans: &[ChanCfg], hist: &[Input]) -> Observed {
    let cfg = sctp_config();
    let mut a = Assoc::new(sctp_client, chans, &cfg).await;
    for i in hist {
        if a.dead.is_some() { break; }
        a.apply(i).await;
    }
    let mut o = a.observe().await;
    o.newdc = a.announced(chans.len());
    o
}

pub fn recv_case_term(chans: &[ChanCfg], hist: &[Input], o: &Observed, spec: Option<(&[SChan], &[Sub], u32)>) -> String {
    let obs = o.per_chan.iter().map(|(s, e)| format!("({}, {})", s, big_list(&e.iter().map(|x| x.term()).collect::<Vec<_>>()))).collect::<Vec<_>>();
    recv_case_term_with(chans, big_list(&hist.iter().map(|i| format!("({})", i.term())).collect::<Vec<_>>()), obs, o, spec)
}

/// same, with the history and the per-channel observations already rendered (compact encodings)
pub fn recv_case_term_with(chans: &[ChanCfg], hist_term: String, obs: Vec<String>, o: &Observed, spec: Option<(&[SChan], &[Sub], u32)>) -> String {
    let tx = o.tx_dcep.iter().map(|(s, p)| format!("({}, {})", s, bytes_t(p))).collect::<Vec<_>>();
    let states = o.states.iter().map(|(s, v)| format!("({}, {})", s, v)).collect::<Vec<_>>();
    let spec_t = match spec {
        Some((sc, w, t0)) => format!("(Some ({}, {}, {}))", list_term(&sc.iter().map(|c| c.term()).collect::<Vec<_>>()),
            big_list(&w.iter().map(|s| s.term()).collect::<Vec<_>>()), t0),
        None => "None".into(),
    };
    format!("RecvCase {} {} {} {} {} {} {} {} {} {} {}",
        list_term(&chans.iter().map(|c| c.term()).collect::<Vec<_>>()), hist_term,
        list_term(&obs), list_term(&o.newdc.iter().map(|c| c.term()).collect::<Vec<_>>()), list_term(&tx),
        zlist(o.ctl.iter().map(|x| *x as i128)), opt_term(o.sack.map(|x| x.to_string())), list_term(&states), spec_t,
        local_rwnd(), opt_term(o.sack_rwnd.map(|x| x.to_string())))
}

// ------------------------------------------------------------------------------ sender side
#[derive(Clone, Debug, PartialEq)]
pub struct SChan {
    pub id: u16,
    pub ordered: bool,
    pub mps: usize,
}
impl SChan {
    pub fn term(&self) -> String { format!("(mkSC {} {} {})", self.id, bool_term(self.ordered), self.mps) }
}
#[derive(Clone, Debug, PartialEq)]
pub struct Sub {
    pub sid: u16,
    pub ppid: u32,
    pub data: Vec<u8>,
}
impl Sub {
    pub fn term(&self) -> String { format!("(mkSub {} {} {})", self.sid, self.ppid, bytes_t(&self.data)) }
}

/// An RFC 4960 / 8831 sender written from the RFCs (not from the code under test): fragments of
/// a message are contiguous, B on the first, E on the last, U for unordered, one SSN per ordered
/// message counting from 0 per stream (mod 2^16), TSNs consecutive from `t0` (mod 2^32). DCEP
/// (PPID 50) is sent unordered with SSN 0 as the code under test does when `dcep_unordered`.
pub fn peer_chunks(sc: &[SChan], w: &[Sub], t0: u32, dcep_unordered: bool) -> Vec<DataC> {
    peer_chunks_ex(sc, w, t0, dcep_unordered, false)
}
/// `dcep_whole`: DCEP messages are fragmented only at the 1172-byte limit, whatever the channel's fragment size
pub fn peer_chunks_ex(sc: &[SChan], w: &[Sub], t0: u32, dcep_unordered: bool, dcep_whole: bool) -> Vec<DataC> {
    let mut out = vec![];
    let mut ssn: std::collections::HashMap<u16, u16> = Default::default();
    let mut tsn = t0;
    for s in w {
        let ch = sc.iter().find(|c| c.id == s.sid);
        let is_dcep = s.ppid == 50;
        let ordered = match ch { Some(c) => if is_dcep && dcep_unordered { false } else { c.ordered }, None => !(is_dcep && dcep_unordered) };
        let mps = if is_dcep && dcep_whole { 1172 } else { ch.map(|c| c.mps.min(1172)).unwrap_or(1172).max(1) };
        let my_ssn = if ordered && ch.is_some() { let e = ssn.entry(s.sid).or_insert(0); let v = *e; *e = e.wrapping_add(1); v } else { 0 };
        let frags: Vec<&[u8]> = if s.data.is_empty() { vec![&s.data[..]] } else { s.data.chunks(mps).collect() };
        let n = frags.len();
        for (i, f) in frags.iter().enumerate() {
            let flags = (if ordered { 0 } else { 4 }) | (if i == 0 { 2 } else { 0 }) | (if i + 1 == n { 1 } else { 0 });
            out.push(DataC { tsn, flags, sid: s.sid, ssn: my_ssn, ppid: s.ppid, data: f.to_vec() });
            tsn = tsn.wrapping_add(1);
        }
    }
    out
}

/// RE-CONFIG chunk value with one Outgoing SSN Reset Request parameter, RFC 6525 4.1 (written from
/// the RFC): type 13, length 16 + 2n (padding excluded), request SN, response SN, sender's last
/// TSN, n stream numbers, zero padding to a multiple of 4
pub fn ssn_reset_bytes(req_sn: u32, resp_sn: u32, last_tsn: u32, ids: &[u16]) -> Vec<u8> {
    let mut v = vec![];
    v.extend_from_slice(&13u16.to_be_bytes());
    v.extend_from_slice(&((16 + 2 * ids.len()) as u16).to_be_bytes());
    v.extend_from_slice(&req_sn.to_be_bytes());
    v.extend_from_slice(&resp_sn.to_be_bytes());
    v.extend_from_slice(&last_tsn.to_be_bytes());
    for i in ids { v.extend_from_slice(&i.to_be_bytes()); }
    while v.len() % 4 != 0 { v.push(0); }
    v
}
/// Parse a RE-CONFIG chunk value per RFC 6525: the stream lists of its Outgoing SSN Reset Request
/// parameters; Err if the TLV structure is not well formed (lengths, zero padding, total size)
pub fn parse_ssn_resets(v: &[u8]) -> Result<Vec<Vec<u16>>, String> {
    let mut out = vec![];
    let mut off = 0;
    while off < v.len() {
        if off + 4 > v.len() { return Err("truncated parameter header".into()); }
        let ty = u16::from_be_bytes([v[off], v[off + 1]]);
        let len = u16::from_be_bytes([v[off + 2], v[off + 3]]) as usize;
        if len < 4 || off + len > v.len() { return Err(format!("parameter length {} does not fit", len)); }
        let padded = (len + 3) & !3;
        if off + padded > v.len() { return Err("padding missing".into()); }
        if v[off + len..off + padded].iter().any(|b| *b != 0) { return Err("non-zero padding".into()); }
        if ty == 13 {
            if len < 16 || (len - 16) % 2 != 0 { return Err(format!("SSN reset request of length {}", len)); }
            out.push(v[off + 16..off + len].chunks(2).map(|c| u16::from_be_bytes([c[0], c[1]])).collect());
        }
        off += padded;
    }
    Ok(out)
}

/// DataChannelOpen per RFC 8832 §5.1 (written from the RFC)
pub fn dcep_open_bytes(channel_type: u8, priority: u16, rel: u32, label: &[u8], proto: &[u8]) -> Vec<u8> {
    let mut v = vec![0x03, channel_type];
    v.extend_from_slice(&priority.to_be_bytes());
    v.extend_from_slice(&rel.to_be_bytes());
    v.extend_from_slice(&(label.len() as u16).to_be_bytes());
    v.extend_from_slice(&(proto.len() as u16).to_be_bytes());
    v.extend_from_slice(label);
    v.extend_from_slice(proto);
    v
}
/// RFC 8832 channel type of a configuration
pub fn rfc_channel_type(c: &ChanCfg) -> u8 {
    let base = if c.rex.is_some() { 0x01 } else if c.life.is_some() { 0x02 } else { 0x00 };
    base | if c.ordered { 0 } else { 0x80 }
}

/// byte list as a Gallina term; long arithmetic progressions (step 7 mod 256, the pattern the
/// generators use for large messages) are rendered as `(ap len first)` (Model/SctpObs.v)
pub fn bytes_t(b: &[u8]) -> String {
    if b.len() >= 64 && b.windows(2).all(|w| w[1] == w[0].wrapping_add(7)) {
        format!("(ap {} {})", b.len(), b[0])
    } else if b.len() > 1500 {
        big_list(&b.iter().map(|x| x.to_string()).collect::<Vec<_>>())
    } else {
        bytes_term(b)
    }
}
/// `[..] ++ [..] ++ ..` for long lists (a single long list literal overflows coqc's stack)
pub fn big_list(items: &[String]) -> String {
    if items.len() <= 1000 { return list_term(items); }
    format!("({})", items.chunks(1000).map(|c| list_term(c)).collect::<Vec<_>>().join(" ++ "))
}
pub fn ap_bytes(n: usize, first: u8) -> Vec<u8> { (0..n).map(|i| first.wrapping_add((i as u8).wrapping_mul(7))).collect() }

/// short distinctness key (64-bit FNV-1a of the canonical description)
pub fn key_of(s: &str) -> String {
    let mut h: u64 = 0xcbf29ce484222325;
    for b in s.as_bytes() { h ^= *b as u64; h = h.wrapping_mul(0x100000001b3); }
    format!("{:016x}", h)
}

pub fn hex(b: &[u8]) -> String { b.iter().map(|x| format!("{:02x}", x)).collect() }

/// Run `n` async jobs with bounded concurrency, results in input order.
pub async fn par_map<T, R, F, Fut>(items: Vec<T>, conc: usize, f: F) -> Vec<R>
where T: Send + 'static, R: Send + 'static, F: Fn(T) -> Fut + Send + Sync + 'static, Fut: std::future::Future<Output = R> + Send + 'static {
    let f = Arc::new(f);
    let sem = Arc::new(tokio::sync::Semaphore::new(conc));
    let mut hs = vec![];
    for it in items {
        let f = f.clone();
        let sem = sem.clone();
        hs.push(tokio::spawn(async move { let _p = sem.acquire_owned().await.unwrap(); f(it).await }));
    }
    let mut out = vec![];
    for h in hs { out.push(h.await.expect("case task panicked")); }
    out
}

#[allow(dead_code)]
fn main() {}
