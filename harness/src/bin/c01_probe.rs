// scratch probe for C01/C12 findings (F10, F11, double close); not part of the check
use std::time::Duration;
use rustrtc::transports::sctp::{DataChannelConfig, DataChannelEvent};
use vh::net::sctp_wire::*;
use vh::sctp_peer::*;

fn show(evs: &[DataChannelEvent]) -> String {
    evs.iter().map(|e| match e { DataChannelEvent::Message(m) => format!("msg({})", String::from_utf8_lossy(m)), DataChannelEvent::Open => "open".into(), DataChannelEvent::Close => "close".into() }).collect::<Vec<_>>().join(" ")
}
fn cookie_of(pk: &[Packet]) -> Vec<u8> {
    for p in pk { for c in &p.chunks { if c.ty == 2 {
        let v = &c.value; let mut off = 16;
        while off + 4 <= v.len() { let ty = u16::from_be_bytes([v[off], v[off+1]]); let len = u16::from_be_bytes([v[off+2], v[off+3]]) as usize;
            if len < 4 || off + len > v.len() { break; } if ty == 7 { return v[off+4..off+len].to_vec(); } off += (len + 3) & !3; }
    } } }
    vec![]
}

#[tokio::main(flavor = "multi_thread", worker_threads = 4)]
async fn main() {
    let w = Duration::from_millis(150);
    for client in [false, true] {
        let cfg = DataChannelConfig { label: "x".into(), negotiated: Some(0), ordered: true, ..Default::default() };
        let t = std::time::Instant::now();
        let mut u = Uut::start(UutOpts { sctp_client: client, channels: vec![(0, cfg)], ..Default::default() }).await;
        println!("== client={} start took {:?}", client, t.elapsed());
        let dc = u.strong[0].clone();
        let t0 = u.peer_initial_tsn;
        u.inject_chunks(&[data_chunk(t0, 0, 0, 53, 0x03, b"a")]);
        println!("  after data: {}", show(&Uut::channel_events(&dc, w).await));
        let _ = u.drain(Duration::from_millis(50), Duration::from_millis(300)).await;
        // duplicate setup chunk
        if client {
            let cookie = b"verif-cookie-0123456".to_vec();
            let mut params = vec![]; params.extend_from_slice(&7u16.to_be_bytes()); params.extend_from_slice(&((4 + cookie.len()) as u16).to_be_bytes()); params.extend_from_slice(&cookie);
            u.inject_chunks(&[init_chunk(2, u.peer_tag, 1 << 20, 1024, 1024, t0, &params)]);
        } else {
            u.inject_chunks_with_tag(0, &[init_chunk(1, u.peer_tag, 1 << 20, 1024, 1024, t0, &[])]);
        }
        let pk = u.drain(Duration::from_millis(50), Duration::from_millis(300)).await;
        println!("  after dup INIT/INIT-ACK endpoint sent chunk types {:?}", pk.iter().flat_map(|p| p.chunks.iter().map(|c| c.ty)).collect::<Vec<_>>());
        u.inject_chunks(&[data_chunk(t0, 0, 0, 53, 0x03, b"a")]);
        println!("  after replayed data: {}", show(&Uut::channel_events(&dc, w).await));
        let pk = u.drain(Duration::from_millis(50), Duration::from_millis(300)).await;
        for p in &pk { for c in &p.chunks { if c.ty == 3 { println!("  sack {:?}", parse_sack(&c.value)); } } }
        // duplicate cookie echo/ack
        if client { u.inject_chunks(&[Chunk { ty: 11, flags: 0, value: vec![] }]); }
        else { let ck = cookie_of(&u.setup_packets); println!("  cookie len {}", ck.len()); u.inject_chunks(&[Chunk { ty: 10, flags: 0, value: ck }]); }
        println!("  after dup COOKIE: {}", show(&Uut::channel_events(&dc, w).await));
        // double close
        let r1 = u.sctp.close_data_channel(0).await; let r2 = u.sctp.close_data_channel(0).await;
        println!("  close twice {:?} {:?}: {}", r1.is_ok(), r2.is_ok(), show(&Uut::channel_events(&dc, w).await));
        // dup cookie after close: reopens?
        if client { u.inject_chunks(&[Chunk { ty: 11, flags: 0, value: vec![] }]); }
        else { let ck = cookie_of(&u.setup_packets); u.inject_chunks(&[Chunk { ty: 10, flags: 0, value: ck }]); }
        println!("  after dup COOKIE on closed channel: {} state={}", show(&Uut::channel_events(&dc, w).await), dc.state.load(std::sync::atomic::Ordering::SeqCst));
        u.sctp.close();
        println!("  after transport close: {}", show(&Uut::channel_events(&dc, w).await));
    }
}
