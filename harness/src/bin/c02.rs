//! C02 — DTLS connects only to the peer whose certificate matches the SDP fingerprint.
//! (1) Scripted man-in-the-middle on live rustrtc pairs: certificate substitution, re-signing,
//!     bit flips in randoms / key-exchange parameters / signature / Finished, omission and
//!     re-sequencing of handshake messages, forged plaintext records, × expected fingerprint
//!     ∈ {absent, right, wrong} × role.  Direct oracle from the property text, evaluated with
//!     independent primitives (sha2, p256) on what was actually delivered; every run is also a
//!     Gallina case for the symbolic pair model.
//! (2) Fingerprint normalisation: `SdpFingerprint::parse` / `SessionDescription::dtls_fingerprint`
//!     on generated attribute values, metamorphic oracle + character-level model.
#[path = "dtls_hs/mod.rs"]
mod dtls_hs;
use dtls_hs::engine::*;
use dtls_hs::*;
use rustrtc::sdp::{SdpFingerprint, SdpType, SessionDescription};
use serde_json::json;
use vh::net::Dir;
use vh::*;

const S2C: Dir = Dir::BtoA;
const C2S: Dir = Dir::AtoB;

fn all(dir: Dir, kind: Kind, act: Act) -> Rule { Rule { dir, kind, occ: Occ::All, act } }
fn first(dir: Dir, kind: Kind, act: Act) -> Rule { Rule { dir, kind, occ: Occ::Nth(0), act } }
fn tam(dir: Dir, kind: Kind, t: Vec<Tam>) -> Rule { all(dir, kind, Act::Tamper(t)) }

/// (name, rules) of the man-in-the-middle scripts against the client (server → client tampering)
fn client_attacks() -> Vec<(&'static str, Vec<Rule>)> {
    vec![
        ("untouched", vec![]),
        ("certificate replaced", vec![tam(S2C, Kind::CERT, vec![Tam::SetCert(0)])]),
        ("certificate replaced and ServerKeyExchange re-signed by the impostor", vec![tam(S2C, Kind::CERT, vec![Tam::SetCert(0)]), tam(S2C, Kind::SKE, vec![Tam::Resign(0)])]),
        ("ServerKeyExchange re-signed by the impostor, certificate kept", vec![tam(S2C, Kind::SKE, vec![Tam::Resign(1)])]),
        ("server random flipped", vec![tam(S2C, Kind::SH, vec![Tam::FlipRandom])]),
        ("server random flipped and re-signed by the impostor", vec![tam(S2C, Kind::SH, vec![Tam::FlipRandom]), tam(S2C, Kind::CERT, vec![Tam::SetCert(1)]), tam(S2C, Kind::SKE, vec![Tam::Resign(1)])]),
        ("client random flipped", vec![tam(C2S, Kind::CH, vec![Tam::FlipRandom])]),
        ("ECDH share flipped", vec![tam(S2C, Kind::SKE, vec![Tam::FlipPub])]),
        ("ECDH share flipped and re-signed by the impostor with its own certificate", vec![tam(S2C, Kind::CERT, vec![Tam::SetCert(0)]), tam(S2C, Kind::SKE, vec![Tam::FlipPub, Tam::Resign(0)])]),
        ("signature flipped", vec![tam(S2C, Kind::SKE, vec![Tam::FlipSig])]),
        ("server Finished corrupted", vec![tam(S2C, Kind::FIN, vec![Tam::Corrupt])]),
        ("Certificate omitted", vec![all(S2C, Kind::CERT, Act::Drop)]),
        ("ServerKeyExchange omitted", vec![all(S2C, Kind::SKE, Act::Drop)]),
        ("ServerHello omitted", vec![all(S2C, Kind::SH, Act::Drop)]),
        ("Certificate and ServerKeyExchange omitted, ServerHelloDone re-sequenced", vec![all(S2C, Kind::CERT, Act::Drop), all(S2C, Kind::SKE, Act::Drop), tam(S2C, Kind::SHD, vec![Tam::SetSeq(1)])]),
        ("Certificate omitted, ServerKeyExchange re-sequenced", vec![all(S2C, Kind::CERT, Act::Drop), tam(S2C, Kind::SKE, vec![Tam::SetSeq(1)])]),
        ("ServerKeyExchange omitted, ServerHelloDone re-sequenced", vec![all(S2C, Kind::SKE, Act::Drop), tam(S2C, Kind::SHD, vec![Tam::SetSeq(2)])]),
        ("forged plaintext Finished after ServerHelloDone", vec![first(S2C, Kind::SHD, Act::Then(vec![Forge::PlainFinished(4)]))]),
        ("forged plaintext Finished before any key exchange", vec![first(S2C, Kind::SH, Act::Then(vec![Forge::PlainFinished(1)]))]),
        ("HelloVerifyRequest injected after Certificate", vec![first(S2C, Kind::CERT, Act::Then(vec![Forge::Hvr(2)]))]),
        ("extended master secret stripped", vec![tam(S2C, Kind::SH, vec![Tam::StripEms])]),
        ("use_srtp stripped", vec![tam(S2C, Kind::SH, vec![Tam::StripSrtp])]),
        ("session id flipped", vec![tam(S2C, Kind::SH, vec![Tam::FlipSid])]),
        ("plaintext ApplicationData injected after ServerHello", vec![first(S2C, Kind::SH, Act::Then(vec![Forge::PlainAppData]))]),
        ("plaintext ApplicationData injected after ServerHelloDone", vec![first(S2C, Kind::SHD, Act::Then(vec![Forge::PlainAppData]))]),
        ("plaintext close_notify injected after ServerHello", vec![first(S2C, Kind::SH, Act::Then(vec![Forge::PlainCloseNotify]))]),
        ("sealed garbage injected after ServerHello", vec![first(S2C, Kind::SH, Act::Then(vec![Forge::SealedGarbage]))]),
        ("second Certificate (impostor) injected after ServerKeyExchange, ServerHelloDone re-sequenced",
         vec![first(S2C, Kind::SKE, Act::Then(vec![Forge::Certificate(0, 3)])), tam(S2C, Kind::SHD, vec![Tam::SetSeq(4)])]),
        ("Certificate and ServerKeyExchange swapped and re-sequenced", vec![tam(S2C, Kind::CERT, vec![Tam::SetSeq(2)]), tam(S2C, Kind::SKE, vec![Tam::SetSeq(1)]), first(S2C, Kind::CERT, Act::Swap)]),
        ("impostor certificate appended to the chain and ServerKeyExchange re-signed by the impostor", vec![tam(S2C, Kind::CERT, vec![Tam::AppendCert(0)]), tam(S2C, Kind::SKE, vec![Tam::Resign(0)])]),
        ("forged plaintext Finished with EMPTY verify_data after ServerHelloDone, genuine Finished withheld", vec![first(S2C, Kind::SHD, Act::Then(vec![Forge::PlainFinishedLen(4, 0)])), all(S2C, Kind::FIN, Act::Drop)]),
        ("forged plaintext Finished with 1-byte verify_data after ServerHelloDone, genuine Finished withheld", vec![first(S2C, Kind::SHD, Act::Then(vec![Forge::PlainFinishedLen(4, 1)])), all(S2C, Kind::FIN, Act::Drop)]),
        ("forged plaintext Finished with 11-byte verify_data after ServerHelloDone, genuine Finished withheld", vec![first(S2C, Kind::SHD, Act::Then(vec![Forge::PlainFinishedLen(4, 11)])), all(S2C, Kind::FIN, Act::Drop)]),
        ("certificate replaced only on the first transmission", vec![Rule { dir: S2C, kind: Kind::CERT, occ: Occ::Nth(0), act: Act::Tamper(vec![Tam::SetCert(0)]) }]),
    ]
}

/// scripts against the server (client → server tampering), expected fingerprint on the server side
fn server_attacks() -> Vec<(&'static str, Vec<Rule>)> {
    vec![
        ("untouched", vec![]),
        ("client ECDH share flipped", vec![tam(C2S, Kind::CKE, vec![Tam::FlipPub])]),
        ("ClientKeyExchange undecodable", vec![tam(C2S, Kind::CKE, vec![Tam::Garble])]),
        ("client Finished corrupted", vec![tam(C2S, Kind::FIN, vec![Tam::Corrupt])]),
        ("ClientKeyExchange omitted", vec![all(C2S, Kind::CKE, Act::Drop)]),
        ("forged plaintext Finished without key exchange", vec![first(C2S, Kind::CH, Act::Then(vec![Forge::GarbageHs(HT_CLIENT_KEY_EXCHANGE, 1), Forge::PlainFinished(2)]))]),
        ("plaintext ApplicationData injected after ClientHello", vec![first(C2S, Kind::CH, Act::Then(vec![Forge::PlainAppData]))]),
        ("impostor Certificate volunteered after ClientHello", vec![first(C2S, Kind::CH, Act::Then(vec![Forge::Certificate(0, 1)]))]),
        ("forged plaintext Finished with EMPTY verify_data after ClientKeyExchange, genuine Finished withheld", vec![first(C2S, Kind::CKE, Act::Then(vec![Forge::PlainFinishedLen(2, 0)])), all(C2S, Kind::FIN, Act::Drop)]),
        ("forged plaintext Finished with 5-byte verify_data after ClientKeyExchange, genuine Finished withheld", vec![first(C2S, Kind::CKE, Act::Then(vec![Forge::PlainFinishedLen(2, 5)])), all(C2S, Kind::FIN, Act::Drop)]),
        ("plaintext close_notify injected after ClientHello", vec![first(C2S, Kind::CH, Act::Then(vec![Forge::PlainCloseNotify]))]),
    ]
}

fn pair_scripts() -> Vec<(String, Script)> {
    let mut v = vec![];
    for ce in [Expect::None, Expect::Right, Expect::Wrong] {
        for (n, rules) in client_attacks() {
            v.push((if n == "untouched" { "corpus".to_string() } else { "mitm-client".to_string() },
                    Script { name: format!("client expects {:?}: {}", ce, n), cexp: ce, sexp: Expect::None, rules, window_ms: 2600 }));
        }
    }
    for se in [Expect::None, Expect::Right, Expect::Wrong] {
        for (n, rules) in server_attacks() {
            v.push((if n == "untouched" { "corpus".to_string() } else { "mitm-server".to_string() },
                    Script { name: format!("server expects {:?}: {}", se, n), cexp: Expect::None, sexp: se, rules, window_ms: 2600 }));
        }
    }
    // truncated expectations: a strict prefix of the right digest string (empty, one byte, half, all but the last
    // byte) is NOT the digest; a wrong one-byte value as control
    for ce in [Expect::Truncated(0), Expect::Truncated(2), Expect::Truncated(47), Expect::Truncated(92), Expect::WrongPrefix] {
        v.push(("corpus".into(), Script { name: format!("client expects {:?} (of the genuine 95-character digest string): untouched", ce), cexp: ce, sexp: Expect::None, rules: vec![], window_ms: 2600 }));
    }
    // both sides pinned
    v.push(("corpus".into(), Script { name: "both expect the right fingerprint".into(), cexp: Expect::Right, sexp: Expect::Right, rules: vec![], window_ms: 2600 }));
    v
}

/// direct oracle, from the property text
fn pair_oracle(o: &Outcome) -> (Option<String>, Option<String>) {
    let mut known = None;
    // a side can only be Connected on a genuine Finished of its peer: if every genuine one was withheld
    // (and only forged ones delivered) Connected means a forged Finished was accepted
    let withheld = |d: Dir| o.script.rules.iter().any(|r| r.dir == d && r.kind == Kind::FIN && r.occ == Occ::All
        && (matches!(r.act, Act::Drop) || matches!(&r.act, Act::Tamper(t) if t.contains(&Tam::Corrupt))));
    if withheld(S2C) && o.cstate == 2 {
        return (Some("client Connected although every genuine server Finished was withheld: a forged / corrupted Finished was accepted".into()), None);
    }
    if withheld(C2S) && o.sstate == 2 {
        return (Some("server Connected although every genuine client Finished was withheld: a forged / corrupted Finished was accepted".into()), None);
    }
    // client role
    if let Some(fp) = &o.expected_client_fp {
        let presented_other = o.facts.certs_to_client.iter().any(|c| c != fp);
        if o.cstate == 2 {
            if o.facts.certs_to_client.last() != Some(fp) {
                return (Some(format!("client Connected although the last certificate presented to it has fingerprint {:?}, expected {}", o.facts.certs_to_client.last(), fp)), None);
            }
            if o.facts.ske_sig_ok.last() != Some(&true) {
                return (Some("client Connected although no ServerKeyExchange signed by the fingerprinted certificate's key (over this handshake's randoms) was delivered".into()), None);
            }
        }
        if presented_other && o.cstate == 2 {
            return (Some("client Connected although a certificate with a different fingerprint was presented in this handshake".into()), None);
        }
        // "ends in Failed": demanded when the mismatching Certificate arrives in sequence (the script omits,
        // swaps or re-sequences nothing towards the client); an out-of-sequence Certificate is never looked at
        let in_sequence = !o.script.rules.iter().any(|r| r.dir == S2C && (matches!(r.act, Act::Drop | Act::Swap)
            || matches!(&r.act, Act::Tamper(t) if t.iter().any(|x| matches!(x, Tam::SetSeq(_))))));
        if presented_other && in_sequence && o.cstate != 3 {
            return (Some(format!("a mismatching certificate was presented but the client did not end Failed (state code {})", o.cstate)), None);
        }
    }
    // server role
    if let Some(fp) = &o.expected_server_fp {
        if o.sstate == 2 && o.facts.certs_to_server.last() != Some(fp) {
            if o.facts.certs_to_server.is_empty() && !o.facts.client_cert_requested {
                known = Some("server_no_client_auth".to_string());
            } else {
                return (Some("server Connected although the client presented a mismatching certificate".into()), None);
            }
        }
        if o.facts.certs_to_server.iter().any(|c| c != fp) && o.sstate != 3 {
            return (Some("a mismatching client certificate was presented but the server did not end Failed".into()), None);
        }
    }
    // exporter gate
    if (o.cstate == 2) != o.export_c.is_some() || (o.sstate == 2) != o.export_s.is_some() {
        return (Some("export_keying_material succeeded outside Connected (or failed inside)".into()), None);
    }
    // nothing unauthenticated reaches the application (epoch-0 ApplicationData: fixed by 02d1d8d)
    if o.evil_up_c || o.evil_up_s {
        return (Some("forged plaintext (epoch-0) ApplicationData was delivered to the application".into()), None);
    }
    (None, known)
}

// ------------------------------------------------------------------------------ fingerprints
fn str_term(s: &str) -> String { zlist(s.chars().map(|c| c as u32 as i128)) }
fn tokens_term(t: &[String]) -> String { list_term(&t.iter().map(|x| str_term(x)).collect::<Vec<_>>()) }
fn fp_term(f: &SdpFingerprint) -> String { format!("({}, {})", str_term(&f.algorithm), str_term(&f.value)) }

fn gen_value(rng: &mut Rng) -> String {
    let mode = rng.below(10);
    let n = match rng.below(6) { 0 => rng.below(4), 1 => 32, 2 => 31, _ => rng.range(1, 12) } as usize;
    let hexu = b"0123456789ABCDEF";
    let hexl = b"0123456789abcdef";
    let mut s = String::new();
    for i in 0..n {
        for _ in 0..2 {
            let c = match mode {
                0 | 1 | 2 => hexu[rng.below(16) as usize] as char,
                3 | 4 => hexl[rng.below(16) as usize] as char,
                5 | 6 => (if rng.chance(1, 2) { hexu[rng.below(16) as usize] } else { hexl[rng.below(16) as usize] }) as char,
                7 => *rng.pick(&['G', 'g', 'Z', '@', '`', '/', ':', 'x', '-', '_', '0', 'A', 'f']),
                8 => *rng.pick(&['é', 'Ａ', '٠', 'Ⅷ', '\u{FF11}', 'a', '1', '\u{10400}']),
                _ => (rng.range(33, 126) as u8) as char,
            };
            s.push(c);
        }
        let sep = rng.below(12);
        if i + 1 < n && sep < 8 { s.push(':'); } else if sep == 8 { s.push_str("::"); }
    }
    if rng.chance(1, 10) { s.pop(); }                      // odd number of digits
    if rng.chance(1, 12) { s.insert(0, ':'); }
    if rng.chance(1, 20) { s = s.replace(':', ""); }
    s
}

fn fp_cases(out: &mut Out, rng: &mut Rng, n: usize) -> serde_json::Value {
    let mut ok = 0usize;
    let mut errs = 0usize;
    let mut corpus: Vec<Vec<String>> = vec![
        vec!["sha-256".into(), "AA:BB:CC:DD".into()], vec!["SHA-256".into(), "aa:bb:cc:dd".into()], vec!["sha-256".into(), "aabbccdd".into()],
        vec!["sha-256".into(), "A:AB:B".into()], vec!["sha-256".into(), "AA:B".into()], vec!["sha-256".into(), "".into()],
        vec!["sha-256".into()], vec![], vec!["sha-256".into(), "AA".into(), "BB".into()], vec!["sha-256".into(), "::".into()],
        vec!["sha-256".into(), "GG".into()], vec!["sha-256".into(), "éé".into()], vec!["sha-256".into(), "aé".into()], vec!["sha-1".into(), "0f:1E".into()],
    ];
    for i in 0..n {
        let toks: Vec<String> = if i < corpus.len() { std::mem::take(&mut corpus[i]) } else {
            let mut t = vec![rng.pick(&["sha-256", "SHA-256", "sha-1", "Sha-512", "x"]).to_string(), gen_value(rng)];
            match rng.below(30) { 0 => { t.pop(); } 1 => t.push(gen_value(rng)), 2 => t.clear(), _ => {} }
            t.retain(|x| !x.is_empty());
            t
        };
        let ws = [" ", "  ", "\t", " \t "];
        let mut text = String::new();
        for (k, t) in toks.iter().enumerate() { if k > 0 { text.push_str(*rng.pick(&ws[..])); } text.push_str(t); }
        if rng.chance(1, 5) { text = format!(" {} ", text); }
        let res = catch(|| SdpFingerprint::parse(&text));
        let (term, oracle_fail) = match &res {
            Err(p) => ("-".to_string(), Some(format!("SdpFingerprint::parse panicked: {}", p))),
            Ok(r) => {
                let rt = opt_term(r.as_ref().ok().map(fp_term));
                let mut fail = None;
                if let Ok(f) = r {
                    ok += 1;
                    // metamorphic property oracle on the implementation itself
                    let again = SdpFingerprint::parse(&format!("{} {}", f.algorithm, f.value));
                    if again.as_ref().ok() != Some(f) { fail = Some("normalisation is not idempotent".to_string()); }
                    let v = &toks[1];
                    for variant in [v.to_ascii_uppercase(), v.to_ascii_lowercase(), v.replace(':', "")] {
                        if variant.is_empty() { continue; }
                        let r2 = SdpFingerprint::parse(&format!("{} {}", toks[0], variant));
                        if r2.as_ref().ok().map(|x| &x.value) != Some(&f.value) { fail = Some(format!("case/colon variant {:?} normalises differently", variant)); }
                    }
                    let digits: Vec<char> = f.value.chars().filter(|c| *c != ':').collect();
                    let shape_ok = !digits.is_empty() && digits.len() % 2 == 0 && digits.iter().all(|c| c.is_ascii_hexdigit() && !c.is_ascii_lowercase())
                        && f.value.split(':').all(|p| p.len() == 2);
                    if !shape_ok { fail = Some(format!("accepted value {:?} is not upper-case hex pairs joined by ':'", f.value)); }
                } else {
                    errs += 1;
                    if toks.len() == 2 {
                        let d: Vec<char> = toks[1].chars().filter(|c| *c != ':').collect();
                        if !d.is_empty() && d.len() % 2 == 0 && d.iter().all(|c| c.is_ascii_hexdigit()) {
                            fail = Some("a well-formed fingerprint value was rejected".to_string());
                        }
                    }
                }
                (format!("KFp {} {}", tokens_term(&toks), rt), fail)
            }
        };
        out.push(Case { term, desc: json!({"fingerprint_value": text, "result": format!("{:?}", res)}), oracle_fail, known: None,
            nontrivial: toks.len() == 2, key: text.clone(), kind: "fp-parse".into() });
    }
    // several a=fingerprint attributes in one SDP
    let mut multi = 0usize;
    for _ in 0..(n / 6) {
        let k = rng.range(0, 4) as usize;
        let base = gen_value(rng);
        let mut attrs: Vec<Vec<String>> = vec![];
        for _ in 0..k {
            let v = match rng.below(5) { 0 => gen_value(rng), 1 => base.to_ascii_lowercase(), 2 => base.replace(':', ""), _ => base.clone() };
            let mut t = vec![rng.pick(&["sha-256", "SHA-256", "sha-256", "sha-1"]).to_string(), v];
            t.retain(|x| !x.is_empty());
            attrs.push(t);
        }
        let n_session = if attrs.is_empty() { 0 } else { rng.below(attrs.len() as u64 + 1) as usize };
        let mut sdp = String::from("v=0\r\no=- 1 1 IN IP4 127.0.0.1\r\ns=-\r\nt=0 0\r\n");
        for a in &attrs[..n_session] { sdp.push_str(&format!("a=fingerprint:{}\r\n", a.join(" "))); }
        sdp.push_str("m=audio 9 UDP/TLS/RTP/SAVPF 0\r\nc=IN IP4 0.0.0.0\r\na=mid:0\r\n");
        for (i, a) in attrs[n_session..].iter().enumerate() {
            if i == 1 { sdp.push_str("m=video 9 UDP/TLS/RTP/SAVPF 96\r\nc=IN IP4 0.0.0.0\r\na=mid:1\r\n"); }
            sdp.push_str(&format!("a=fingerprint:{}\r\n", a.join(" ")));
        }
        let res = catch(|| SessionDescription::parse(SdpType::Offer, &sdp).map(|d| d.dtls_fingerprint()));
        let (term, fail) = match &res {
            Err(p) => ("-".to_string(), Some(format!("panic: {}", p))),
            Ok(Err(e)) => ("-".to_string(), Some(format!("generated SDP did not parse: {:?}", e))),
            Ok(Ok(r)) => {
                let rt = match r { Err(_) => "None".to_string(), Ok(None) => "(Some None)".to_string(), Ok(Some(f)) => format!("(Some (Some {}))", fp_term(f)) };
                let mut fail = None;
                if let Ok(Some(f)) = r {
                    // every attribute must individually parse to the accepted fingerprint
                    for a in &attrs {
                        if SdpFingerprint::parse(&a.join(" ")).ok().as_ref() != Some(f) { fail = Some("differing fingerprint attributes were accepted together".to_string()); }
                    }
                }
                multi += 1;
                (format!("KFps {} {}", list_term(&attrs.iter().map(|a| tokens_term(a)).collect::<Vec<_>>()), rt), fail)
            }
        };
        out.push(Case { term, desc: json!({"sdp": sdp, "result": format!("{:?}", res)}), oracle_fail: fail, known: None,
            nontrivial: attrs.len() >= 2, key: sdp.clone(), kind: "fp-collect".into() });
    }
    json!({"parse_cases": n, "accepted": ok, "rejected": errs, "multi_attribute_cases": multi})
}

/// BUNDLE offers with a fingerprint per section / at session level; a conflicting one in a chosen place.
/// Through `dtls_fingerprint()` (model + oracle) and `PeerConnection::set_remote_description` (oracle).
async fn fp_bundle_cases(out: &mut Out, rng: &mut Rng, n: usize) -> serde_json::Value {
    use rustrtc::{PeerConnection, RtcConfiguration};
    let hex = |rng: &mut Rng| -> String { (0..32).map(|_| format!("{:02X}", rng.below(256))).collect::<Vec<_>>().join(":") };
    let mut conflicts = 0usize;
    let mut pc_runs = 0usize;
    for i in 0..n {
        let nsec = rng.range(2, 4) as usize;
        let base = hex(rng);
        let other = hex(rng);
        // where fingerprints sit: index 0 = session level, 1..=nsec = sections
        let mut place: Vec<Option<String>> = (0..=nsec).map(|k| if k == 0 { if rng.chance(1, 3) { Some(base.clone()) } else { None } } else if rng.chance(5, 6) { Some(base.clone()) } else { None }).collect();
        for p in place.iter_mut().flatten() {
            match rng.below(4) { 0 => *p = p.to_ascii_lowercase(), 1 => *p = p.replace(':', ""), _ => {} }
        }
        // corpus first: conflict in the 2nd / last / 1st section and at session level, fully bundled
        let conflict_at: Option<usize> = match i { 0 => Some(2), 1 => Some(nsec), 2 => Some(1), 3 => Some(0), _ => if rng.chance(3, 5) { Some(rng.below(nsec as u64 + 1) as usize) } else { None } };
        if let Some(k) = conflict_at { place[k] = Some(other.clone()); if place.iter().flatten().count() < 2 { place[if k == 1 { 2 } else { 1 }] = Some(base.clone()); } }
        let bundle: Vec<usize> = match if i < 4 { 0 } else { rng.below(4) } { 0 => (0..nsec).collect(), 1 => (0..nsec).filter(|_| rng.chance(1, 2)).collect(), 2 => (0..nsec).rev().collect(), _ => vec![] };
        let mut sdp = String::from("v=0\r\no=- 123 0 IN IP4 127.0.0.1\r\ns=-\r\nt=0 0\r\n");
        if !bundle.is_empty() { sdp.push_str(&format!("a=group:BUNDLE {}\r\n", bundle.iter().map(|m| m.to_string()).collect::<Vec<_>>().join(" "))); }
        if let Some(f) = &place[0] { sdp.push_str(&format!("a=fingerprint:sha-256 {}\r\n", f)); }
        for k in 0..nsec {
            let (kind, pt, codec) = if k % 2 == 0 { ("audio", 111, "opus/48000/2") } else { ("video", 96, "VP8/90000") };
            sdp.push_str(&format!("m={} 9 UDP/TLS/RTP/SAVPF {}\r\nc=IN IP4 0.0.0.0\r\na=ice-ufrag:abcd\r\na=ice-pwd:abcdefghijklmnopqrstuvwx\r\n", kind, pt));
            if let Some(f) = &place[k + 1] { sdp.push_str(&format!("a=fingerprint:sha-256 {}\r\n", f)); }
            sdp.push_str(&format!("a=setup:actpass\r\na=mid:{}\r\na=sendrecv\r\na=rtcp-mux\r\na=rtpmap:{} {}\r\n", k, pt, codec));
        }
        // independent view: the distinct fingerprints announced anywhere in the description
        let canon = |f: &String| f.replace(':', "").to_ascii_uppercase();
        let mut distinct: Vec<String> = place.iter().flatten().map(canon).collect();
        distinct.sort(); distinct.dedup();
        if distinct.len() > 1 { conflicts += 1; }
        let attrs: Vec<Vec<String>> = place.iter().flatten().map(|f| vec!["sha-256".to_string(), f.clone()]).collect();
        let parsed = catch(|| SessionDescription::parse(SdpType::Offer, &sdp));
        let (term, mut fail, desc_res) = match &parsed {
            Err(p) => ("-".to_string(), Some(format!("panic: {}", p)), String::new()),
            Ok(Err(e)) => ("-".to_string(), Some(format!("generated SDP did not parse: {:?}", e)), String::new()),
            Ok(Ok(d)) => {
                let r = d.dtls_fingerprint();
                let rt = match &r { Err(_) => "None".to_string(), Ok(None) => "(Some None)".to_string(), Ok(Some(f)) => format!("(Some (Some {}))", fp_term(f)) };
                let fail = match (&r, distinct.len()) {
                    (Ok(_), k) if k > 1 => Some(format!("the description announces {} different DTLS fingerprints but dtls_fingerprint() returned {:?}", k, r)),
                    (Ok(Some(f)), 1) if canon(&f.value) != distinct[0] => Some("dtls_fingerprint() returned a fingerprint that is not the announced one".to_string()),
                    (Err(e), 1) => Some(format!("a description with one consistent fingerprint was rejected: {:?}", e)),
                    _ => None,
                };
                (format!("KFps {} {}", list_term(&attrs.iter().map(|a| tokens_term(a)).collect::<Vec<_>>()), rt), fail, format!("{:?}", r))
            }
        };
        // the same offer through the public signalling entry point (first 40 cases and every conflict of the corpus)
        let mut pc_res = String::new();
        if fail.is_none() && (i < 40) {
            if let Ok(Ok(d)) = parsed {
                pc_runs += 1;
                let pc = PeerConnection::new(RtcConfiguration::default());
                let r = tokio::time::timeout(std::time::Duration::from_secs(5), pc.set_remote_description(d)).await;
                pc_res = format!("{:?}", r.as_ref().map(|x| x.as_ref().map_err(|e| e.to_string())));
                if distinct.len() > 1 && !matches!(r, Ok(Err(_))) {
                    fail = Some(format!("set_remote_description accepted an offer announcing {} different DTLS fingerprints: {}", distinct.len(), pc_res));
                }
                pc.close();
            }
        }
        out.push(Case { term, desc: json!({"sdp": sdp, "distinct_fingerprints": distinct.len(), "bundle": bundle, "dtls_fingerprint": desc_res, "set_remote_description": pc_res}),
            oracle_fail: fail, known: None, nontrivial: distinct.len() > 1 || !bundle.is_empty(), key: sdp.clone(), kind: "fp-bundle".into() });
    }
    json!({"bundle_sdps": n, "with_conflicting_fingerprints": conflicts, "through_set_remote_description": pc_runs})
}

#[tokio::main(flavor = "multi_thread", worker_threads = 12)]
async fn main() {
    let args = parse_args();
    silence_panics();
    let mut rng = Rng::new(args.seed);
    let list = pair_scripts();
    let kinds: Vec<String> = list.iter().map(|(k, _)| k.clone()).collect();
    let t0 = std::time::Instant::now();
    let outs = run_all(list.into_iter().map(|(_, s)| s).collect(), 96).await;
    let wall = t0.elapsed().as_secs_f64();
    let mut out = Out::new(&args.out);
    let mut finals = std::collections::BTreeMap::<String, usize>::new();
    let mut dist = std::collections::BTreeMap::<String, usize>::new();
    for (o, kind) in outs.iter().zip(kinds) {
        *dist.entry(kind.clone()).or_default() += 1;
        *finals.entry(format!("{}/{}", o.cstate, o.sstate)).or_default() += 1;
        let (fail, known) = pair_oracle(o);
        let mut desc = o.json();
        desc["certs_to_client"] = json!(o.facts.certs_to_client.iter().map(|c| c.chars().take(11).collect::<String>()).collect::<Vec<_>>());
        desc["expected_by_client"] = json!(o.expected_client_fp.as_ref().map(|c| c.chars().take(11).collect::<String>()));
        desc["ske_signature_ok"] = json!(o.facts.ske_sig_ok);
        desc["certs_to_server"] = json!(o.facts.certs_to_server.len());
        out.push(Case { term: format!("KPair ({})", o.term()), desc, oracle_fail: fail, known,
            nontrivial: !o.script.rules.is_empty() && o.rule_hits.iter().any(|h| *h > 0) || o.script.cexp != Expect::None || o.script.sexp != Expect::None,
            key: o.script.name.clone(), kind });
    }
    // a harness-played DTLS server that really completes the handshake with its own key
    use dtls_hs::impostor::{self, Mode};
    let reps = if args.tier == "thorough" { 6 } else { 2 };
    let mut jobs = vec![];
    for (m, n) in [(Mode::Genuine, 0usize), (Mode::Genuine, 2), (Mode::Genuine, 92), (Mode::OwnCert, 0), (Mode::OwnCert, 2), (Mode::StolenCert, 47)] {
        jobs.push(tokio::spawn(impostor::run_pinned(m, Some(n))));
    }
    for _ in 0..reps { for m in [Mode::Genuine, Mode::StolenCert, Mode::OwnCert, Mode::BadFinished, Mode::ChainStolen, Mode::TruncatedFinished(0), Mode::TruncatedFinished(6), Mode::TruncatedFinished(11)] { jobs.push(tokio::spawn(impostor::run(m))); } }
    let mut imp_stat = std::collections::BTreeMap::<String, usize>::new();
    for (i, j) in jobs.into_iter().enumerate() {
        let o = j.await.expect("impostor task");
        *imp_stat.entry(format!("{:?}:{}", o.mode, o.client_state)).or_default() += 1;
        let fail = match o.mode {
            Mode::Genuine if o.pin_prefix.is_some() => if o.client_state == 2 || o.client_exported {
                    Some(format!("client pinned to only the first {} characters of the digest string reached Connected: the expected value is not the certificate's digest", o.pin_prefix.unwrap())) }
                else if o.client_state != 3 { Some(format!("truncated pin did not end Failed (state {})", o.client_state)) } else { None },
            Mode::Genuine => if o.client_state == 2 && o.client_exported && o.app_from_impostor_delivered && o.client_finished_ok == Some(true) { None }
                else { Some(format!("control failed: the harness-played server holding the pinned key could not connect a rustrtc client (state {}, client Finished ok {:?})", o.client_state, o.client_finished_ok)) },
            _ => if o.client_state == 2 || o.client_exported || o.app_from_impostor_delivered {
                    Some(format!("client authenticated an impostor ({:?}): state {}, exported {}, application data accepted {}", o.mode, o.client_state, o.client_exported, o.app_from_impostor_delivered))
                } else if o.client_state != 3 { Some(format!("impostor ({:?}) presented itself in sequence but the client did not end Failed (state {})", o.mode, o.client_state)) } else { None },
        };
        out.push(Case { term: "-".into(), desc: json!({"impostor": format!("{:?}", o.mode), "pinned_prefix_chars": o.pin_prefix, "client_state": o.client_state, "exported": o.client_exported,
                "impostor_sent_finished": o.impostor_finished_sent, "client_finished_verified_by_impostor": o.client_finished_ok,
                "app_data_from_impostor_delivered": o.app_from_impostor_delivered, "elapsed_s": o.elapsed}),
            oracle_fail: fail, known: None, nontrivial: true, key: format!("impostor {:?} {:?} #{}", o.mode, o.pin_prefix, i), kind: "impostor".into() });
    }
    // pinned fingerprint against an independent server implementation (webrtc-rs dtls)
    {
        use dtls_hs::interop::{self, Fault, Pin};
        let js: Vec<_> = [Pin::None, Pin::Right, Pin::Wrong].into_iter().map(|p| tokio::spawn(interop::run(true, Fault::None, p, 2500))).collect();
        for j in js {
            let o = j.await.expect("interop task");
            let fail = match o.pin {
                Pin::Wrong => if o.rustrtc_state == 2 { Some("client Connected to a webrtc-rs server whose certificate does not match the pinned fingerprint".to_string()) }
                              else if o.rustrtc_state != 3 { Some(format!("pinned fingerprint mismatch against webrtc-rs but the client did not end Failed (state {})", o.rustrtc_state)) } else { None },
                _ => if o.rustrtc_state == 2 && o.peer_connected && o.exporter_equal == Some(true) { None }
                     else { Some(format!("client with {:?} pin did not connect to a genuine webrtc-rs server (state {}, exporter {:?})", o.pin, o.rustrtc_state, o.exporter_equal)) },
            };
            out.push(Case { term: "-".into(), desc: json!({"interop": "webrtc-rs dtls 0.17.2 as server", "pin": format!("{:?}", o.pin), "rustrtc_state": o.rustrtc_state,
                    "peer_connected": o.peer_connected, "exporter_equal": o.exporter_equal}), oracle_fail: fail, known: None, nontrivial: o.pin != Pin::None,
                key: format!("interop pin {:?}", o.pin), kind: "interop".into() });
        }
    }
    let nfp = if args.tier == "thorough" { 30000 } else { 3000 };
    let fpstat = fp_cases(&mut out, &mut rng, nfp);
    let bundlestat = fp_bundle_cases(&mut out, &mut rng, nfp / 10).await;
    out.finish(json!({"generator": {"pair_scripts_by_kind": dist, "final_state_pairs(client/server; 1=Handshaking 2=Connected 3=Failed 4=Closed)": finals,
        "pair_harness_wall_s": wall, "fingerprint": fpstat, "fingerprint_bundle": bundlestat, "impostor(mode:client_state)": imp_stat,
        "tampering": "certificate replacement, re-signing by an impostor, bit flips in randoms / ECDH share / signature / session id / sealed Finished, message omission + re-sequencing, extension stripping, forged plaintext Finished / ApplicationData / close_notify / HelloVerifyRequest / Certificate, sealed garbage"}}));
}
