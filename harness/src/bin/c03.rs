//! C03 — only authenticated DTLS records are acted on; nothing leaves in clear.
//!
//! Drives the real record layer: `DtlsRecord::{decode,encode}` directly, and two live `DtlsTransport`s
//! over loopback UDP through the programmable proxy (`vh::net`). The harness holds the session keys
//! (`DtlsState::Connected(crypto).keys`), so it decrypts every captured datagram and forges / tampers
//! records with the `aes-gcm` crate, independently of the code under test.
//!  * send side: sequential `send()` calls of boundary sizes, 1–8 concurrent `send()` tasks (optionally
//!    racing `close()`): record sizes, header / explicit nonce / AAD layout, (epoch, seq) uniqueness,
//!    per-task plaintext order, close_notify nonce freshness (F7 witness in the corpus);
//!  * receive side: plaintext epoch-0 records (F8 witnesses), every single-bit flip and every truncation of
//!    genuine records, content type x epoch x sealing matrix, wrong key, replays, coalesced datagrams,
//!    garbage, from the peer's address and from a foreign address, after and during the handshake.
//! Each case is emitted as a Gallina term for `Run/C03Run.v` together with the direct oracle verdict.
use aes_gcm::aead::{Aead, KeyInit, Payload};
use aes_gcm::{Aes128Gcm, Nonce};
use bytes::{Bytes, BytesMut};
use rustrtc::transports::dtls::record::{ContentType, DtlsRecord, ProtocolVersion};
use rustrtc::transports::dtls::{DtlsState, DtlsTransport, MAX_APP_DATA_RECORD_SIZE};
use serde_json::json;
use std::collections::BTreeMap;
use std::net::SocketAddr;
use std::sync::Arc;
use std::time::{Duration, Instant};
use tokio::net::UdpSocket;
use tokio::sync::mpsc::UnboundedReceiver;
use vh::net::*;
use vh::*;

/// The path limit of the property, taken from the documentation, NOT from the crate's constant: one
/// record per datagram, plaintext at most the SCTP packet cap (1200), so that header (13) + explicit nonce
/// (8) + tag (16) stay within 1252 = IPv6 minimum MTU 1280 - 28.
const PATH_LIMIT: usize = 1200;
const DATAGRAM_BUDGET: usize = 1252;

// ------------------------------------------------------------------------------------------ wire helpers
#[derive(Clone, Debug)]
struct Rec { ct: u8, maj: u8, min: u8, epoch: u16, seq: u64, payload: Vec<u8> }

/// the harness's own record walk (does not look at content-type validity)
fn parse_records(mut d: &[u8]) -> Vec<Rec> {
    let mut out = vec![];
    while d.len() >= 13 {
        let len = u16::from_be_bytes([d[11], d[12]]) as usize;
        if d.len() < 13 + len { break; }
        let mut s = [0u8; 8];
        s[2..8].copy_from_slice(&d[5..11]);
        out.push(Rec { ct: d[0], maj: d[1], min: d[2], epoch: u16::from_be_bytes([d[3], d[4]]), seq: u64::from_be_bytes(s), payload: d[13..13 + len].to_vec() });
        d = &d[13 + len..];
    }
    out
}
fn encode_rec(r: &Rec) -> Vec<u8> {
    let mut b = vec![r.ct, r.maj, r.min];
    b.extend_from_slice(&r.epoch.to_be_bytes());
    b.extend_from_slice(&r.seq.to_be_bytes()[2..8]);
    b.extend_from_slice(&(r.payload.len() as u16).to_be_bytes());
    b.extend_from_slice(&r.payload);
    b
}
#[derive(Clone)]
struct Keys { cw: Vec<u8>, sw: Vec<u8>, civ: Vec<u8>, siv: Vec<u8> }
impl Keys {
    fn of(d: &Arc<DtlsTransport>) -> Keys {
        match d.get_state() {
            DtlsState::Connected(c, _) => Keys { cw: c.keys.client_write_key.clone(), sw: c.keys.server_write_key.clone(), civ: c.keys.client_write_iv.clone(), siv: c.keys.server_write_iv.clone() },
            _ => panic!("not connected"),
        }
    }
    /// (key, iv) a side writes with
    fn write(&self, client: bool) -> (&[u8], &[u8]) { if client { (&self.cw, &self.civ) } else { (&self.sw, &self.siv) } }
    /// (key, iv) a side reads with
    fn read(&self, client: bool) -> (&[u8], &[u8]) { self.write(!client) }
    fn term(&self) -> String {
        format!("(mkKeys {} {} {} {})", bytes_term(&self.cw), bytes_term(&self.sw), bytes_term(&self.civ), bytes_term(&self.siv))
    }
}
fn full_seq(epoch: u16, seq: u64) -> u64 { ((epoch as u64) << 48) | seq }
fn aad_of(epoch: u16, seq: u64, ct: u8, maj: u8, min: u8, len: usize) -> Vec<u8> {
    let mut a = full_seq(epoch, seq).to_be_bytes().to_vec();
    a.extend_from_slice(&[ct, maj, min]);
    a.extend_from_slice(&(len as u16).to_be_bytes());
    a
}
/// nonce / aad / body the receiver must use for this record (RFC 5288 / 6347), and the AES-GCM verdict
fn open_rec(key: &[u8], iv: &[u8], r: &Rec) -> Option<(Vec<u8>, Vec<u8>, Vec<u8>, Option<Vec<u8>>)> {
    if r.payload.len() < 24 { return None; }
    let mut n = iv.to_vec();
    n.extend_from_slice(&r.payload[..8]);
    let aad = aad_of(r.epoch, r.seq, r.ct, r.maj, r.min, r.payload.len() - 24);
    let body = r.payload[8..].to_vec();
    let pt = Aes128Gcm::new_from_slice(key).unwrap().decrypt(Nonce::from_slice(&n), Payload { msg: &body, aad: &aad }).ok();
    Some((n, aad, body, pt))
}
/// a record sealed the way a genuine sender would (explicit nonce = epoch || seq unless overridden)
fn seal_rec(key: &[u8], iv: &[u8], ct: u8, epoch: u16, seq: u64, explicit: Option<u64>, aad_len_delta: i32, pt: &[u8]) -> Rec {
    let ex = explicit.unwrap_or(full_seq(epoch, seq)).to_be_bytes();
    let mut n = iv.to_vec();
    n.extend_from_slice(&ex);
    let aad = aad_of(epoch, seq, ct, 254, 253, (pt.len() as i32 + aad_len_delta) as usize);
    let c = Aes128Gcm::new_from_slice(key).unwrap().encrypt(Nonce::from_slice(&n), Payload { msg: pt, aad: &aad }).unwrap();
    let mut payload = ex.to_vec();
    payload.extend_from_slice(&c);
    Rec { ct, maj: 254, min: 253, epoch, seq, payload }
}
fn st_name(s: &DtlsState) -> &'static str {
    match s { DtlsState::New => "New", DtlsState::Handshaking => "Handshaking", DtlsState::Connected(..) => "Connected", DtlsState::Failed => "Failed", DtlsState::Closed => "Closed" }
}
fn st_term(s: &str) -> &'static str {
    match s { "Connected" => "Connected", "Closed" => "Closed", "Failed" => "Failed", _ => "Handshaking" }
}
fn hex(b: &[u8]) -> String {
    let s: String = b.iter().take(96).map(|x| format!("{:02x}", x)).collect();
    if b.len() > 96 { format!("{}..({}B)", s, b.len()) } else { s }
}
fn pat(t: u64, n: usize) -> Vec<u8> { (0..n as u64).map(|i| ((t * 37 + i * 11 + i / 256) % 256) as u8).collect() }
fn entry_term(k: &[u8], n: &[u8], a: &[u8], x: &[u8], y: &[u8]) -> String {
    format!("({}, {}, {}, {}, {})", bytes_term(k), bytes_term(n), bytes_term(a), bytes_term(x), bytes_term(y))
}
fn fnv(b: &[u8]) -> String {
    let mut h: u64 = 0xcbf29ce484222325;
    for x in b { h ^= *x as u64; h = h.wrapping_mul(0x100000001b3); }
    format!("{:016x}", h)
}

// ------------------------------------------------------------------------------------------ live pair
struct Live {
    pair: DtlsPair,
    keys: Keys,
    rx: [UnboundedReceiver<Bytes>; 2], // [client, server] upper-layer receivers
    sent: [u64; 2],                     // records sent after the handshake by [client, server]
    marker: u64,
    foreign: Arc<UdpSocket>,
    /// every (content type, epoch, seq) captured so far per sending side: nonce uniqueness is per key, for the
    /// whole life of the connection, not per case
    seen: [std::collections::HashMap<(u16, u64), u8>; 2],
}
fn side(client: bool) -> usize { if client { 0 } else { 1 } }
impl Live {
    async fn connect_with(policy: Policy) -> Live {
        let mut pair = dtls_pair_with(Some(policy), None, None).await;
        let c = wait_dtls_terminal(&pair.client.dtls, Duration::from_secs(10)).await;
        let s = wait_dtls_terminal(&pair.server.dtls, Duration::from_secs(10)).await;
        assert!(matches!(c, DtlsState::Connected(..)) && matches!(s, DtlsState::Connected(..)), "DTLS pair did not connect");
        let keys = Keys::of(&pair.client.dtls);
        let rx = [pair.client.app_rx.take().unwrap(), pair.server.app_rx.take().unwrap()];
        let foreign = Arc::new(UdpSocket::bind("127.0.0.1:0").await.unwrap());
        Live { pair, keys, rx, sent: [0, 0], marker: 0, foreign, seen: [Default::default(), Default::default()] }
    }
    async fn connect() -> Live { Live::connect_with(Box::new(|_d, _o, p| forward(p))).await }
    fn dtls(&self, client: bool) -> &Arc<DtlsTransport> { if client { &self.pair.client.dtls } else { &self.pair.server.dtls } }
    fn addr(&self, client: bool) -> SocketAddr { if client { self.pair.client.ep.addr } else { self.pair.server.ep.addr } }
    fn dir_from(client: bool) -> Dir { if client { Dir::AtoB } else { Dir::BtoA } }
    fn log_len(&self) -> usize { self.pair.proxy.as_ref().unwrap().log.lock().len() }
    fn log_from(&self, start: usize, dir: Dir) -> Vec<Vec<u8>> {
        self.pair.proxy.as_ref().unwrap().log.lock()[start..].iter().filter(|(d, _)| *d == dir).map(|(_, p)| p.clone()).collect()
    }
    /// wait until `n` datagrams of direction `dir` appeared after `start` (or `extra` passed when n == 0)
    async fn wait_dgrams(&self, start: usize, dir: Dir, n: usize, max: Duration) -> Vec<Vec<u8>> {
        let t0 = Instant::now();
        loop {
            let v = self.log_from(start, dir);
            if (n > 0 && v.len() >= n) || t0.elapsed() >= max {
                if n > 0 && v.len() >= n { tokio::time::sleep(Duration::from_millis(3)).await; return self.log_from(start, dir); }
                return v;
            }
            tokio::time::sleep(Duration::from_millis(1)).await;
        }
    }
    fn drain(&mut self, client: bool) -> Vec<Vec<u8>> {
        let mut v = vec![];
        while let Ok(b) = self.rx[side(client)].try_recv() { v.push(b.to_vec()); }
        v
    }
    /// deliver datagrams to `victim` (from the peer's address through the proxy, or from a foreign socket),
    /// then a genuine marker record; returns what the upper layer received before the marker, the state,
    /// and whether the marker arrived
    async fn inject(&mut self, victim_client: bool, ds: &[Vec<u8>], foreign: bool) -> (Vec<Vec<u8>>, &'static str, bool) {
        self.drain(victim_client);
        self.inject_keep(victim_client, ds, foreign).await
    }
    /// same, but everything the upper layer received since the transport was created counts (nothing is drained first)
    async fn inject_keep(&mut self, victim_client: bool, ds: &[Vec<u8>], foreign: bool) -> (Vec<Vec<u8>>, &'static str, bool) {
        // paced: at most 24 datagrams between two marker round-trips, so that the victim's socket buffer (every
        // small datagram costs a whole skb) never overflows however long the injected history is
        let mut got = vec![];
        let mut arrived = true;
        let mut batches: Vec<&[Vec<u8>]> = ds.chunks(24).collect();
        if batches.is_empty() { batches.push(&[]); }
        for batch in batches {
            let (g, a) = self.inject_batch(victim_client, batch, foreign).await;
            got.extend(g);
            arrived = a;
            if !a { break; }
        }
        (got, st_name(&self.dtls(victim_client).get_state()), arrived)
    }
    async fn inject_batch(&mut self, victim_client: bool, ds: &[Vec<u8>], foreign: bool) -> (Vec<Vec<u8>>, bool) {
        let dir = Live::dir_from(!victim_client);
        let vaddr = self.addr(victim_client);
        for d in ds {
            if foreign { let _ = self.foreign.send_to(d, vaddr).await; } else { self.pair.proxy.as_ref().unwrap().inject(dir, d.clone()); }
        }
        if foreign { tokio::time::sleep(Duration::from_micros(300)).await; }
        let mut got = vec![];
        // the marker is a datagram too: if it does not come back, send a fresh one (up to 4) before concluding that
        // the receiver no longer processes anything
        for attempt in 0..4 {
            self.marker += 1;
            let mpt = format!("#MARKER#{:08}", self.marker).into_bytes();
            let (k, iv) = self.keys.read(victim_client);
            let m = encode_rec(&seal_rec(k, iv, 23, 1, 0x0000_F000_0000_0000u64 >> 16 | self.marker, None, 0, &mpt));
            self.pair.proxy.as_ref().unwrap().inject(dir, m);
            let deadline = tokio::time::Instant::now() + Duration::from_millis(if attempt == 0 { 400 } else { 800 });
            loop {
                match tokio::time::timeout_at(deadline, self.rx[side(victim_client)].recv()).await {
                    Ok(Some(b)) => {
                        if b[..] == mpt[..] { return (got, true); }
                        if b.starts_with(b"#MARKER#") { continue; } // a late earlier marker
                        got.push(b.to_vec());
                    }
                    _ => break,
                }
            }
            if matches!(self.dtls(victim_client).get_state(), DtlsState::Failed) { break; }
        }
        (got, false)
    }
}

impl Live {
    /// after a capture: the sender's next sequence number = max(previous + records expected, highest one captured),
    /// robust against datagrams lost between sender and proxy
    fn resync_sent(&mut self, client: bool, dgrams: &[Vec<u8>], expected: usize) {
        // (the tail of a burst may be what was lost, so the highest captured number alone can under-count)
        let max = dgrams.iter().flat_map(|d| parse_records(d)).filter(|r| r.epoch == 1).map(|r| r.seq).max().unwrap_or(0);
        let by_count = self.sent[side(client)] + expected.max(dgrams.len()) as u64;
        self.sent[side(client)] = by_count.max(max);
    }
    /// records the (epoch, seq) of a captured record; Some(msg) if that nonce was already used under this key
    fn note_nonce(&mut self, client: bool, r: &Rec) -> Option<String> {
        match self.seen[side(client)].insert((r.epoch, r.seq), r.ct) {
            Some(prev) => Some(format!("NONCE REUSE: (epoch {}, seq {}) used by two datagrams under one key (content types {} and {})", r.epoch, r.seq, prev, r.ct)),
            None => None,
        }
    }
}

// ------------------------------------------------------------------------------------------ cases
struct Stats { kinds: BTreeMap<String, usize>, pairs: usize, retried: usize }

fn push(out: &mut Out, st: &mut Stats, kind: &str, term: String, desc: serde_json::Value, oracle_fail: Option<String>, nontrivial: bool, key: String) {
    *st.kinds.entry(kind.to_string()).or_insert(0) += 1;
    out.push(Case { term, desc, oracle_fail, known: None, nontrivial, key, kind: kind.to_string() });
}

// ---- DtlsRecord::decode / encode (public API, no network)
fn decode_case(out: &mut Out, st: &mut Stats, kind: &str, buf: &[u8]) {
    let b = buf.to_vec();
    let r = catch(move || {
        let mut bytes = Bytes::from(b);
        let r = DtlsRecord::decode(&mut bytes);
        (r.map(|o| o.map(|x| (x.content_type as u8, x.version.major, x.version.minor, x.epoch, x.sequence_number, x.payload.to_vec()))).map_err(|e| e.to_string()), bytes.len())
    });
    let (obs, fail) = match &r {
        Err(p) => ("DPanic".to_string(), Some(format!("DtlsRecord::decode panicked: {}", p))),
        Ok((Err(_), _)) => ("DErr".to_string(), None),
        Ok((Ok(None), _)) => ("DNone".to_string(), None),
        Ok((Ok(Some((ct, ma, mi, e, s, p))), rest)) => {
            // direct oracle: the record is a prefix of the buffer and the fields are the header's
            let ok = buf.len() >= 13 + p.len() && buf[0] == *ct && buf[1] == *ma && buf[2] == *mi
                && u16::from_be_bytes([buf[3], buf[4]]) == *e && buf[13..13 + p.len()] == p[..] && *rest == buf.len() - 13 - p.len()
                && u16::from_be_bytes([buf[11], buf[12]]) as usize == p.len() && *s < (1u64 << 48);
            (format!("(DRec {} {} {} {} {} {} {})", ct, ma, mi, e, s, bytes_term(p), rest), if ok { None } else { Some("decoded record is not the header/prefix of the buffer".into()) })
        }
    };
    let nontrivial = matches!(&r, Ok((Ok(Some(_)), _)));
    push(out, st, kind, format!("CDec {} {}", bytes_term(buf), obs), json!({"decode": hex(buf), "obs": obs.chars().take(80).collect::<String>()}), fail, nontrivial, format!("dec{}", fnv(buf)));
}
fn encode_case(out: &mut Out, st: &mut Stats, ct: u8, maj: u8, min: u8, epoch: u16, seq: u64, payload: &[u8]) {
    let Ok(ctv) = ContentType::try_from(ct) else { return };
    let rec = DtlsRecord { content_type: ctv, version: ProtocolVersion { major: maj, minor: min }, epoch, sequence_number: seq, payload: Bytes::copy_from_slice(payload) };
    let mut buf = BytesMut::new();
    rec.encode(&mut buf);
    let want = encode_rec(&Rec { ct, maj, min, epoch, seq: seq & ((1 << 48) - 1), payload: payload.to_vec() });
    let fail = if buf[..] != want[..] { Some("DtlsRecord::encode layout differs from RFC 6347 record layout".to_string()) } else { None };
    push(out, st, "encode", format!("CEnc {} {} {} {} {} {} {}", ct, maj, min, epoch, seq, bytes_term(payload), bytes_term(&buf)),
        json!({"encode": {"ct": ct, "epoch": epoch, "seq": seq, "len": payload.len()}}), fail, true, format!("enc{}", fnv(&buf)));
}

// ---- one send() by one caller
async fn tx_case(live: &mut Live, out: &mut Out, st: &mut Stats, kind: &str, client: bool, data: Vec<u8>, as_pat: Option<(u64, usize)>) {
    let n0 = out.cases.len();
    tx_case_once(live, out, st, kind, client, data.clone(), as_pat).await;
    if out.cases[n0..].iter().any(|c| c.oracle_fail.is_some()) {
        // retry once in isolation before it counts (the capture depends on UDP not dropping)
        out.cases.truncate(n0);
        st.retried += 1;
        tokio::time::sleep(Duration::from_millis(200)).await;
        live.drain(!client);
        tx_case_once(live, out, st, kind, client, data, as_pat).await;
    }
}
async fn tx_case_once(live: &mut Live, out: &mut Out, st: &mut Stats, kind: &str, client: bool, data: Vec<u8>, as_pat: Option<(u64, usize)>) {
    let dir = Live::dir_from(client);
    let start = live.log_len();
    let seq0 = 1 + live.sent[side(client)];
    let n = (data.len() + PATH_LIMIT - 1) / PATH_LIMIT; // independent expectation: fewest records within the path limit
    let res = live.dtls(client).send(Bytes::from(data.clone())).await;
    let dgrams = live.wait_dgrams(start, dir, n, Duration::from_millis(if n == 0 { 25 } else { 2500 })).await;
    live.resync_sent(client, &dgrams, n);
    let (k, iv) = { let (a, b) = live.keys.write(client); (a.to_vec(), b.to_vec()) };
    let mut fail: Option<String> = None;
    let mut entries = vec![];
    let mut cat = vec![];
    if res.is_err() { fail = Some(format!("send() failed: {:?}", res.err())); }
    if dgrams.len() != n { fail.get_or_insert(format!("{} bytes were sent in {} datagrams, expected {}", data.len(), dgrams.len(), n)); }
    for (i, d) in dgrams.iter().enumerate() {
        let rs = parse_records(d);
        if rs.len() != 1 || encode_rec(&rs[0]).len() != d.len() { fail.get_or_insert(format!("datagram {} is not exactly one record", i)); continue; }
        let r = &rs[0];
        if let Some(m) = live.note_nonce(client, r) { fail.get_or_insert(m); }
        if r.ct != 23 || r.maj != 254 || r.min != 253 || r.epoch != 1 { fail.get_or_insert(format!("datagram {}: header ct={} ver={}.{} epoch={}", i, r.ct, r.maj, r.min, r.epoch)); }
        if r.seq != seq0 + i as u64 { fail.get_or_insert(format!("datagram {}: sequence number {} (expected {})", i, r.seq, seq0 + i as u64)); }
        match open_rec(&k, &iv, r) {
            Some((nn, aad, body, Some(pt))) => {
                if r.payload[..8] != full_seq(r.epoch, r.seq).to_be_bytes() { fail.get_or_insert(format!("datagram {}: explicit nonce is not epoch||seq", i)); }
                if pt.len() > PATH_LIMIT || pt.is_empty() || d.len() > DATAGRAM_BUDGET { fail.get_or_insert(format!("datagram {}: record plaintext {} bytes / datagram {} bytes exceeds the path limit ({} / {})", i, pt.len(), d.len(), PATH_LIMIT, DATAGRAM_BUDGET)); }
                if pt.len() >= 8 && d.windows(pt.len().min(16)).any(|w| w == &pt[..pt.len().min(16)]) { fail.get_or_insert(format!("datagram {}: application bytes visible in clear", i)); }
                entries.push(entry_term(&k, &nn, &aad, &pt, &body));
                cat.extend_from_slice(&pt);
            }
            _ => { fail.get_or_insert(format!("datagram {} does not authenticate under the sender's write key (application bytes not sealed)", i)); }
        }
    }
    if fail.is_none() && cat != data { fail = Some("concatenation of the record plaintexts differs from the data".into()); }
    let dterm = match as_pat { Some((t, n)) => format!("(Pat {} {})", t, n), None => format!("(Bytes {})", bytes_term(&data)) };
    let term = format!("CTx {} {} 1 {} {} {} {}", bool_term(client), live.keys.term(), seq0, dterm, list_term(&entries), list_term(&dgrams.iter().map(|d| bytes_term(d)).collect::<Vec<_>>()));
    push(out, st, kind, term, json!({"send": {"client": client, "len": data.len(), "seq0": seq0, "datagrams": dgrams.iter().map(|d| d.len()).collect::<Vec<_>>()}}), fail, n > 0, format!("tx{}{}{}", client, data.len(), fnv(&data)));
}

// ---- one very large send() (1 MiB = 874 records): oracle only; the proxy may lose datagrams of such a burst at
// its socket buffer, so the captured records are checked individually (position given by their sequence number)
async fn tx_big_case(live: &mut Live, out: &mut Out, st: &mut Stats, client: bool, t: u64, len: usize) {
    let dir = Live::dir_from(client);
    let start = live.log_len();
    let seq0 = 1 + live.sent[side(client)];
    let data = pat(t, len);
    let n = (len + PATH_LIMIT - 1) / PATH_LIMIT;
    let res = live.dtls(client).send(Bytes::from(data.clone())).await;
    let mut last = 0;
    let mut quiet = 0;
    while quiet < 20 { // until nothing new arrived for 100 ms
        tokio::time::sleep(Duration::from_millis(5)).await;
        let c = live.log_from(start, dir).len();
        if c >= n { break; }
        if c == last { quiet += 1; } else { quiet = 0; last = c; }
    }
    let dgrams = live.log_from(start, dir);
    live.resync_sent(client, &dgrams, n);
    let (k, iv) = { let (a, b) = live.keys.write(client); (a.to_vec(), b.to_vec()) };
    let mut fail: Option<String> = None;
    if res.is_err() { fail = Some(format!("send() of {} bytes failed: {:?}", len, res.err())); }
    if dgrams.len() > n { fail.get_or_insert(format!("{} datagrams for {} bytes, expected at most {}", dgrams.len(), len, n)); }
    for (i, d) in dgrams.iter().enumerate() {
        let rs = parse_records(d);
        if rs.len() != 1 || d.len() > DATAGRAM_BUDGET { fail.get_or_insert(format!("datagram {}: not one record within the datagram budget ({} bytes)", i, d.len())); continue; }
        let r = &rs[0];
        if let Some(m) = live.note_nonce(client, r) { fail.get_or_insert(m); }
        if r.ct != 23 || r.epoch != 1 || r.seq < seq0 || r.seq >= seq0 + n as u64 { fail.get_or_insert(format!("datagram {}: ct {} epoch {} seq {} outside [{}, {})", i, r.ct, r.epoch, r.seq, seq0, seq0 + n as u64)); continue; }
        let off = (r.seq - seq0) as usize * PATH_LIMIT;
        match open_rec(&k, &iv, r) {
            Some((_, _, _, Some(pt))) => { if pt[..] != data[off..(off + PATH_LIMIT).min(len)] { fail.get_or_insert(format!("datagram {}: plaintext is not bytes {}.. of the data", i, off)); } }
            _ => { fail.get_or_insert(format!("datagram {} does not authenticate under the write key", i)); }
        }
    }
    tokio::time::sleep(Duration::from_millis(30)).await;
    live.drain(!client);
    push(out, st, "tx-big", "-".into(), json!({"send_big": {"client": client, "len": len, "records_expected": n, "captured": dgrams.len(), "seq0": seq0}}), fail, true, format!("txbig{}{}", client, len));
}

// ---- concurrent senders (+ optional close), schedule reconstructed from the capture
#[derive(Clone)]
struct TaskSpec { calls: Vec<(u64, usize)> } // (pattern id, length)

async fn conc_case(live: &mut Live, out: &mut Out, st: &mut Stats, kind: &str, client: bool, tasks: Vec<TaskSpec>, with_close: bool) {
    let n0 = out.cases.len();
    conc_case_once(live, out, st, kind, client, tasks.clone(), with_close).await;
    if out.cases[n0..].iter().any(|c| c.oracle_fail.is_some()) {
        out.cases.truncate(n0);
        st.retried += 1;
        tokio::time::sleep(Duration::from_millis(200)).await;
        if with_close { *live = Live::connect().await; st.pairs += 1; } // the runner of the old pair is gone
        conc_case_once(live, out, st, kind, client, tasks, with_close).await;
    }
}
async fn conc_case_once(live: &mut Live, out: &mut Out, st: &mut Stats, kind: &str, client: bool, tasks: Vec<TaskSpec>, with_close: bool) {
    let dir = Live::dir_from(client);
    let start = live.log_len();
    let seq0 = 1 + live.sent[side(client)];
    let nt = tasks.len();
    // expected jobs per task (harness's own chunking)
    let mut jobs: Vec<Vec<(u8, Vec<u8>)>> = tasks.iter().map(|t| t.calls.iter().flat_map(|(p, n)| pat(*p, *n).chunks(PATH_LIMIT).map(|c| (23u8, c.to_vec())).collect::<Vec<_>>()).collect()).collect();
    if with_close { jobs.push(vec![(21u8, vec![1, 0])]); }
    let total: usize = jobs.iter().map(|j| j.len()).sum();
    let barrier = Arc::new(tokio::sync::Barrier::new(nt + if with_close { 1 } else { 0 }));
    let mut hs = vec![];
    for t in &tasks {
        let d = live.dtls(client).clone();
        let b = barrier.clone();
        let calls = t.calls.clone();
        hs.push(tokio::spawn(async move {
            b.wait().await;
            let mut ok = true;
            for (p, n) in calls { ok &= d.send(Bytes::from(pat(p, n))).await.is_ok(); tokio::task::yield_now().await; }
            ok
        }));
    }
    if with_close {
        let d = live.dtls(client).clone();
        let b = barrier.clone();
        hs.push(tokio::spawn(async move { b.wait().await; tokio::task::yield_now().await; d.close(); true }));
    }
    let mut all_ok = true;
    for h in hs { all_ok &= h.await.unwrap_or(false); }
    let dgrams = live.wait_dgrams(start, dir, total, Duration::from_millis(3000)).await;
    live.resync_sent(client, &dgrams, total);
    let (k, iv) = { let (a, b) = live.keys.write(client); (a.to_vec(), b.to_vec()) };
    let mut fail: Option<String> = None;
    if !all_ok { fail = Some("a send() returned an error".into()); }
    if dgrams.len() != total { fail.get_or_insert(format!("{} datagrams captured, expected {}", dgrams.len(), total)); }
    // decrypt, attribute to tasks in wire order
    let mut next = vec![0usize; jobs.len()];
    let mut wire: Vec<(usize, u8, u16, u64, Vec<u8>)> = vec![];
    for (i, d) in dgrams.iter().enumerate() {
        let rs = parse_records(d);
        if rs.len() != 1 { fail.get_or_insert(format!("datagram {} is not exactly one record", i)); continue; }
        let r = &rs[0];
        let Some((_, _, _, Some(pt))) = open_rec(&k, &iv, r) else { fail.get_or_insert(format!("datagram {} does not authenticate under the write key", i)); continue; };
        if let Some(m) = live.note_nonce(client, r) { fail.get_or_insert(m); }
        if r.payload[..8] != full_seq(r.epoch, r.seq).to_be_bytes() { fail.get_or_insert(format!("datagram {}: explicit nonce is not epoch||seq", i)); }
        if pt.len() > PATH_LIMIT || d.len() > DATAGRAM_BUDGET { fail.get_or_insert(format!("datagram {}: record plaintext {} bytes / datagram {} bytes exceeds the path limit ({} / {})", i, pt.len(), d.len(), PATH_LIMIT, DATAGRAM_BUDGET)); }
        let tid = (0..jobs.len()).find(|&t| next[t] < jobs[t].len() && jobs[t][next[t]].0 == r.ct && jobs[t][next[t]].1 == pt);
        match tid {
            Some(t) => { next[t] += 1; wire.push((t, r.ct, r.epoch, r.seq, pt)); }
            None => { fail.get_or_insert(format!("datagram {} (ct {}, {} bytes) is not the next record of any task: per-task order / content not preserved", i, r.ct, pt.len())); }
        }
    }
    if fail.is_none() && (0..jobs.len()).any(|t| next[t] != jobs[t].len()) { fail = Some("some task's data did not fully reach the wire".into()); }
    // schedule: fetch_adds in sequence-number order, datagrams in wire order (greedy merge)
    let mut sched: Vec<usize> = vec![];
    let mut term = "-".to_string();
    if fail.is_none() {
        let mut by_seq: Vec<usize> = (0..wire.len()).collect();
        by_seq.sort_by_key(|&i| wire[i].3);
        let mut fetched = vec![false; wire.len()];
        let (mut fi, mut ei) = (0usize, 0usize);
        let mut busy = vec![false; jobs.len()]; // task holds a fetched, not yet emitted record
        let mut stuck = false;
        while ei < wire.len() {
            if fetched[ei] { sched.push(wire[ei].0); busy[wire[ei].0] = false; ei += 1; }
            else if fi < by_seq.len() && !busy[wire[by_seq[fi]].0] { let t = wire[by_seq[fi]].0; sched.push(t); sched.push(t); busy[t] = true; fetched[by_seq[fi]] = true; fi += 1; }
            else { stuck = true; break; }
        }
        if stuck { fail = Some("no interleaving of per-task sequential send_record steps explains the captured (seq, order) pairs".into()); }
        else {
            let tt: Vec<String> = tasks.iter().map(|t| format!("TSend {}", list_term(&t.calls.iter().map(|(p, n)| format!("Pat {} {}", p, n)).collect::<Vec<_>>()))).chain(if with_close { vec!["TClose".to_string()] } else { vec![] }).collect();
            let ww: Vec<String> = wire.iter().map(|(t, c, e, s, p)| format!("({}%nat, {}, {}, {}, {})", t, c, e, s, bytes_term(p))).collect();
            term = format!("CConc 1 {} {} [{}]%nat {}", seq0, list_term(&tt), sched.iter().map(|x| x.to_string()).collect::<Vec<_>>().join("; "), list_term(&ww));
        }
    }
    let desc = json!({"concurrent": {"client": client, "tasks": tasks.iter().map(|t| t.calls.iter().map(|c| c.1).collect::<Vec<_>>()).collect::<Vec<_>>(), "close": with_close, "seq0": seq0,
        "wire": wire.iter().map(|w| json!([w.0, w.1, w.3, w.4.len()])).collect::<Vec<_>>()}});
    let key = format!("conc{}{:?}{}{:?}", client, tasks.iter().map(|t| t.calls.clone()).collect::<Vec<_>>(), with_close, sched);
    push(out, st, kind, term, desc, fail, total > 1, key);
}

// ---- receive side
struct RxOutcome { dead: bool, changed: bool, suspect: bool }
/// "retry once in isolation before it counts": a failed or suspicious (fewer deliveries than authentic records:
/// possibly a datagram lost by the loopback socket under load) case is discarded and repeated once; only the
/// repetition is reported. A real violation is deterministic and fails again.
#[allow(clippy::too_many_arguments)]
async fn rx_case(live: &mut Live, out: &mut Out, st: &mut Stats, kind: &str, what: &str, victim_client: bool, ds: Vec<Vec<u8>>, foreign: bool) -> RxOutcome {
    let mut last = RxOutcome { dead: false, changed: false, suspect: false };
    for attempt in 0..2 {
        let n0 = out.cases.len();
        let pre = st_name(&live.dtls(victim_client).get_state());
        let (got, post, arrived) = live.inject(victim_client, &ds, foreign).await;
        last = finish_rx(live, out, st, kind, what, victim_client, ds.clone(), foreign, pre, got, post, arrived, None);
        let bad = last.suspect || out.cases[n0..].iter().any(|c| c.oracle_fail.is_some());
        if !bad || attempt == 1 { break; }
        out.cases.truncate(n0);
        st.retried += 1;
        if last.dead || last.changed { *live = Live::connect().await; st.pairs += 1; }
        tokio::time::sleep(Duration::from_millis(150)).await;
    }
    last
}

// ---- a long run of unauthenticated datagrams (paced), then a genuine record delivered with retry-until-observed
// semantics: a fresh authentic record (new sequence number, distinct payload) is sent up to 6 times; the oracle
// requires that at least one is delivered and the state is unchanged; the model sees the run plus exactly the
// fresh records that were observed (a datagram lost by the network never reached the implementation)
#[allow(clippy::too_many_arguments)]
async fn run_case(live: &mut Live, out: &mut Out, st: &mut Stats, what: &str, victim_client: bool, run: Vec<Vec<u8>>, foreign: bool) -> RxOutcome {
    let mut last = RxOutcome { dead: false, changed: false, suspect: false };
    for attempt in 0..2 {
        let n0 = out.cases.len();
        let pre = st_name(&live.dtls(victim_client).get_state());
        live.drain(victim_client);
        // the run is paced by time only (24 datagrams, then a pause that grows with the run length): a marker between
        // batches would be a genuine record in the middle of the run and reset any failure counter of the receiver
        {
            let dir = Live::dir_from(!victim_client);
            let vaddr = live.addr(victim_client);
            for batch in run.chunks(24) {
                for d in batch {
                    if foreign { let _ = live.foreign.send_to(d, vaddr).await; } else { live.pair.proxy.as_ref().unwrap().inject(dir, d.clone()); }
                }
                tokio::time::sleep(Duration::from_millis(6)).await;
            }
            tokio::time::sleep(Duration::from_millis(10)).await;
        }
        let (mut got, mut post, mut arrived): (Vec<Vec<u8>>, &'static str, bool) = (live.drain(victim_client), st_name(&live.dtls(victim_client).get_state()), true);
        let (rk, riv) = { let (a, b) = live.keys.read(victim_client); (a.to_vec(), b.to_vec()) };
        let mut ds = run.clone();
        let mut extra: Option<String> = None;
        if arrived && post == pre {
            let mut delivered_any = false;
            for t in 0..6u64 {
                live.marker += 1;
                let pt = format!("genuine-after-run-{}-{}", live.marker, t).into_bytes();
                let d = encode_rec(&seal_rec(&rk, &riv, 23, 1, 40_000 + live.marker, None, 0, &pt));
                let (g, p2, a2) = live.inject_keep(victim_client, &[d.clone()], false).await;
                post = p2; arrived = a2;
                let hit = g.iter().any(|x| x == &pt);
                if hit { ds.push(d); }
                got.extend(g);
                if hit { delivered_any = true; break; }
                if !a2 || p2 != pre { break; }
                tokio::time::sleep(Duration::from_millis(40 << t.min(3))).await;
            }
            if !delivered_any { extra = Some(format!("a genuine record was not delivered after a run of unauthenticated records (6 fresh records tried; state {}) [{}]", post, what)); }
        }
        last = finish_rx(live, out, st, "rx-run", what, victim_client, ds, foreign, pre, got, post, arrived, extra);
        let bad = out.cases[n0..].iter().any(|c| c.oracle_fail.is_some());
        if !bad || attempt == 1 { break; }
        out.cases.truncate(n0);
        st.retried += 1;
        if last.dead || last.changed { *live = Live::connect().await; st.pairs += 1; }
        tokio::time::sleep(Duration::from_millis(150)).await;
    }
    last
}
#[allow(clippy::too_many_arguments)]
fn finish_rx(live: &Live, out: &mut Out, st: &mut Stats, kind: &str, what: &str, victim_client: bool, ds: Vec<Vec<u8>>, foreign: bool,
             pre: &'static str, got: Vec<Vec<u8>>, post: &'static str, arrived: bool, extra_fail: Option<String>) -> RxOutcome {
    let (k, iv) = live.keys.read(victim_client);
    // the harness's own authentication verdict for every record of every datagram
    let mut entries = vec![];
    let mut auth_app: Vec<Vec<u8>> = vec![];
    let mut auth_close = false;
    let mut auth_hs = false;
    let mut nrec = 0;
    for d in &ds {
        for r in parse_records(d) {
            nrec += 1;
            if r.epoch == 0 { continue; }
            if let Some((n, aad, body, Some(pt))) = open_rec(k, iv, &r) {
                entries.push(entry_term(k, &n, &aad, &body, &pt));
                match r.ct { 23 => auth_app.push(pt), 21 => { if pt.len() >= 2 && pt[1] == 0 { auth_close = true; } } 22 => auth_hs = true, _ => {} }
            }
        }
    }
    let mut fail: Option<String> = None;
    let mut pool = auth_app.clone();
    for g in &got {
        if let Some(p) = pool.iter().position(|x| x == g) { pool.remove(p); }
        else { fail.get_or_insert(format!("UNAUTHENTICATED BYTES DELIVERED to the upper layer: {} ({} bytes) [{}; from {}]", hex(g), g.len(), what, if foreign { "foreign address" } else { "peer address" })); }
    }
    if post != pre && !(pre == "Connected" && post == "Closed" && auth_close) && !auth_hs {
        fail.get_or_insert(format!("CONNECTION STATE CHANGED {} -> {} by a record that does not authenticate [{}; from {}]", pre, post, what, if foreign { "foreign address" } else { "peer address" }));
    }
    if let Some(e) = extra_fail { fail.get_or_insert(e); }
    // fewer deliveries than authentic ApplicationData records with an unchanged state: legitimate when a bad record
    // precedes them in the same datagram, otherwise possibly a lost datagram -- never a failure, only a reason to repeat
    let suspect = got.len() < auth_app.len() && post == pre;
    if !arrived && post != "Failed" { fail.get_or_insert(format!("receiver stopped processing after injection (state {}) [{}]", post, what)); }
    let term = format!("CRx {} {} {} {} {} {} {}", bool_term(victim_client), live.keys.term(), st_term(pre),
        list_term(&ds.iter().map(|d| bytes_term(d)).collect::<Vec<_>>()), list_term(&entries),
        list_term(&got.iter().map(|g| bytes_term(g)).collect::<Vec<_>>()), st_term(post));
    let desc = json!({"inject": {"what": what, "victim_client": victim_client, "foreign_source": foreign, "datagrams": ds.iter().map(|d| hex(d)).collect::<Vec<_>>(),
        "pre": pre, "post": post, "delivered": got.iter().map(|g| hex(g)).collect::<Vec<_>>()}});
    let key = format!("rx{}{}{}", victim_client, foreign, fnv(&ds.concat()).to_string() + &ds.len().to_string());
    push(out, st, kind, term, desc, fail, nrec > 0, key);
    RxOutcome { dead: !arrived || post == "Failed", changed: post != pre, suspect }
}

/// keep a usable (Connected, alive) pair
async fn refresh(live: &mut Live, st: &mut Stats, o: &RxOutcome) {
    if o.dead || o.changed { *live = Live::connect().await; st.pairs += 1; }
}

fn plain(ct: u8, epoch: u16, seq: u64, payload: &[u8]) -> Vec<u8> {
    encode_rec(&Rec { ct, maj: 254, min: 253, epoch, seq, payload: payload.to_vec() })
}
fn forged_finished(mseq: u16) -> Vec<u8> {
    let mut hs = vec![20u8, 0, 0, 12];
    hs.extend_from_slice(&mseq.to_be_bytes());
    hs.extend_from_slice(&[0, 0, 0, 0, 0, 12]);
    hs.extend_from_slice(&[0xAA; 12]);
    plain(22, 0, 90 + mseq as u64, &hs)
}

/// one unfragmented handshake message in a plaintext epoch-0 Handshake record
fn plain_hs(msg_type: u8, mseq: u16, body: &[u8], rseq: u64) -> Vec<u8> {
    let l = body.len() as u32;
    let mut hs = vec![msg_type, (l >> 16) as u8, (l >> 8) as u8, l as u8];
    hs.extend_from_slice(&mseq.to_be_bytes());
    hs.extend_from_slice(&[0, 0, 0, (l >> 16) as u8, (l >> 8) as u8, l as u8]);
    hs.extend_from_slice(body);
    plain(22, 0, rseq, &hs)
}

// ---- injections while the victim has keys but is still Handshaking (final flight held back by the proxy)
async fn handshaking_case(out: &mut Out, st: &mut Stats, victim_client: bool, ds: Vec<Vec<u8>>, what: &str, foreign: bool) {
    // hold ChangeCipherSpec / epoch-1 records travelling towards the victim for 300 ms
    let toward = Live::dir_from(!victim_client);
    let policy: Policy = Box::new(move |d, _o, p| {
        let late = d == toward && p.len() >= 13 && (p[0] == 20 || u16::from_be_bytes([p[3], p[4]]) >= 1);
        if late { vec![(Duration::from_millis(300), p.to_vec())] } else { forward(p) }
    });
    let mut pair = dtls_pair_with(Some(policy), None, None).await;
    st.pairs += 1;
    let rxv = if victim_client { pair.client.app_rx.take().unwrap() } else { pair.server.app_rx.take().unwrap() };
    let rxo = if victim_client { pair.server.app_rx.take().unwrap() } else { pair.client.app_rx.take().unwrap() };
    // the victim has keys once: client -> it has sent its own epoch-1 Finished; server -> it has received ClientKeyExchange
    let t0 = Instant::now();
    loop {
        let log = pair.proxy.as_ref().unwrap().log.lock().clone();
        let ready = if victim_client { log.iter().any(|(d, p)| *d == Dir::AtoB && p.len() >= 13 && u16::from_be_bytes([p[3], p[4]]) == 1) }
                    else { log.iter().any(|(d, p)| *d == Dir::AtoB && p.len() >= 14 && p[0] == 22 && p[13] == 16) };
        if ready || t0.elapsed() > Duration::from_secs(5) { break; }
        tokio::time::sleep(Duration::from_millis(1)).await;
    }
    tokio::time::sleep(Duration::from_millis(40)).await;
    let vd = if victim_client { pair.client.dtls.clone() } else { pair.server.dtls.clone() };
    let pre = st_name(&vd.get_state());
    let vaddr = if victim_client { pair.client.ep.addr } else { pair.server.ep.addr };
    let fsock = UdpSocket::bind("127.0.0.1:0").await.unwrap();
    for d in &ds { if foreign { let _ = fsock.send_to(d, vaddr).await; } else { pair.proxy.as_ref().unwrap().inject(toward, d.clone()); } }
    tokio::time::sleep(Duration::from_millis(80)).await;
    let mid = st_name(&vd.get_state());
    let c = wait_dtls_terminal(&pair.client.dtls, Duration::from_secs(12)).await;
    let s = wait_dtls_terminal(&pair.server.dtls, Duration::from_secs(12)).await;
    let both = matches!(c, DtlsState::Connected(..)) && matches!(s, DtlsState::Connected(..));
    let fin = st_name(&vd.get_state());
    if !both {
        let mut fail = None;
        if pre == "Handshaking" { fail = Some(format!("handshake did not complete after injecting unauthenticated records while keys existed: victim {} -> {} -> {} [{}]", pre, mid, fin, what)); }
        push(out, st, "rx-handshaking", "-".into(), json!({"inject_during_handshake": what, "victim_client": victim_client, "pre": pre, "mid": mid, "final": fin}), fail, true, format!("hsk{}{}", victim_client, what));
        return;
    }
    let keys = Keys::of(&pair.client.dtls);
    let rx = if victim_client { [rxv, rxo] } else { [rxo, rxv] };
    let mut live = Live { pair, keys, rx, sent: [0, 0], marker: 0, foreign: Arc::new(fsock), seen: [Default::default(), Default::default()] };
    // everything the victim's upper layer received so far came from the injected records
    let (got, _post, arrived) = live.inject_keep(victim_client, &[], false).await;
    let kind = "rx-handshaking";
    if pre != "Handshaking" {
        // the hold did not work on this run (timing): report the case to the oracle only
        push(out, st, kind, "-".into(), json!({"inject_during_handshake": what, "note": "victim was no longer handshaking", "pre": pre}), None, false, format!("hsk-late{}{}", victim_client, what));
        return;
    }
    let o = finish_rx(&live, out, st, kind, what, victim_client, ds, foreign, "Handshaking", got, mid, arrived, None);
    let _ = o;
    if fin != "Connected" {
        push(out, st, kind, "-".into(), json!({"inject_during_handshake": what, "final": fin}), Some(format!("victim ended {} instead of Connected [{}]", fin, what)), true, format!("hsk-fin{}{}", victim_client, what));
    }
}

// ---- injections BEFORE the victim has keys (first flight toward it held back by the proxy): epoch-0
// ApplicationData is never valid; nothing may reach the upper layer. (Alerts / handshake records in epoch 0
// are legitimate at this stage and not C03's subject.)
async fn prekeys_case(out: &mut Out, st: &mut Stats, victim_client: bool, ds: Vec<Vec<u8>>, what: &str, foreign: bool) {
    let toward = Live::dir_from(!victim_client);
    let policy: Policy = Box::new(move |d, o, p| if d == toward && o < 4 { vec![(Duration::from_millis(300), p.to_vec())] } else { forward(p) });
    let mut pair = dtls_pair_with(Some(policy), None, None).await;
    st.pairs += 1;
    let rxv = if victim_client { pair.client.app_rx.take().unwrap() } else { pair.server.app_rx.take().unwrap() };
    let rxo = if victim_client { pair.server.app_rx.take().unwrap() } else { pair.client.app_rx.take().unwrap() };
    tokio::time::sleep(Duration::from_millis(60)).await;
    let vd = if victim_client { pair.client.dtls.clone() } else { pair.server.dtls.clone() };
    let pre = st_name(&vd.get_state());
    let vaddr = if victim_client { pair.client.ep.addr } else { pair.server.ep.addr };
    let fsock = UdpSocket::bind("127.0.0.1:0").await.unwrap();
    for d in &ds { if foreign { let _ = fsock.send_to(d, vaddr).await; } else { pair.proxy.as_ref().unwrap().inject(toward, d.clone()); } }
    tokio::time::sleep(Duration::from_millis(80)).await;
    let mid = st_name(&vd.get_state());
    let c = wait_dtls_terminal(&pair.client.dtls, Duration::from_secs(8)).await;
    let s = wait_dtls_terminal(&pair.server.dtls, Duration::from_secs(8)).await;
    let both = matches!(c, DtlsState::Connected(..)) && matches!(s, DtlsState::Connected(..));
    let fin = st_name(&vd.get_state());
    let kind = "rx-before-keys";
    if !both || pre != "Handshaking" {
        push(out, st, kind, "-".into(), json!({"inject_before_keys": what, "victim_client": victim_client, "pre": pre, "mid": mid, "final": fin, "note": "setup did not reach the intended state"}), None, false, format!("prek-x{}{}", victim_client, what));
        return;
    }
    let keys = Keys::of(&pair.client.dtls);
    let rx = if victim_client { [rxv, rxo] } else { [rxo, rxv] };
    let mut live = Live { pair, keys, rx, sent: [0, 0], marker: 0, foreign: Arc::new(fsock), seen: [Default::default(), Default::default()] };
    let (got, _post, arrived) = live.inject_keep(victim_client, &[], false).await;
    let mut fail = None;
    if let Some(g) = got.first() { fail = Some(format!("UNAUTHENTICATED BYTES DELIVERED to the upper layer before any key existed: {} ({} bytes) [{}; from {}]", hex(g), g.len(), what, if foreign { "foreign address" } else { "peer address" })); }
    if !arrived { fail.get_or_insert(format!("receiver stopped processing [{}]", what)); }
    let term = format!("CRxNoKeys {} {} {} {} {}", bool_term(victim_client), st_term(pre), list_term(&ds.iter().map(|d| bytes_term(d)).collect::<Vec<_>>()),
        list_term(&got.iter().map(|g| bytes_term(g)).collect::<Vec<_>>()), st_term(mid));
    push(out, st, kind, term, json!({"inject_before_keys": {"what": what, "victim_client": victim_client, "foreign_source": foreign, "datagrams": ds.iter().map(|d| hex(d)).collect::<Vec<_>>(), "pre": pre, "mid": mid, "final": fin, "delivered": got.iter().map(|g| hex(g)).collect::<Vec<_>>()}}),
        fail, true, format!("prek{}{}{}", victim_client, foreign, fnv(&ds.concat())));
}

// ---- callers spinning on send() (yield-free, own OS threads) while the handshake completes. Before fix 9dff55e
// handle_finished published `Connected` before it initialised write_epoch / write_seq; a send() that slipped into
// that window emitted an ApplicationData record numbered (0, 0..) (observed: 4 in 1500 handshakes) or (1, 0) = the
// Finished record's nonce. Oracle only; 60 handshakes in the quick tier, 1500 in the thorough tier.
async fn race_probe(out: &mut Out, st: &mut Stats, n: usize) {
    let mut anomalies: Vec<String> = vec![];
    let mut records = 0usize;
    for _ in 0..n {
        let pair = dtls_pair_with(Some(Box::new(|_d, _o, p| forward(p))), None, None).await;
        st.pairs += 1;
        let stop = Arc::new(std::sync::atomic::AtomicBool::new(false));
        let mut hs = vec![];
        // yield-free: one OS thread per side spins on send() (polled with a plain executor inside the runtime
        // context), so it can observe `Connected` at any instruction boundary of the runner task
        let handle = tokio::runtime::Handle::current();
        for role_client in [true, false] {
            let d = if role_client { pair.client.dtls.clone() } else { pair.server.dtls.clone() };
            let stop = stop.clone();
            let handle = handle.clone();
            hs.push(std::thread::spawn(move || {
                let _g = handle.enter();
                let mut sent = 0;
                let t0 = Instant::now();
                while sent < 3 && !stop.load(std::sync::atomic::Ordering::Relaxed) && t0.elapsed() < Duration::from_secs(6) {
                    if futures::executor::block_on(d.send(Bytes::from_static(b"race"))).is_ok() { sent += 1; }
                }
            }));
        }
        let c = wait_dtls_terminal(&pair.client.dtls, Duration::from_secs(8)).await;
        let s2 = wait_dtls_terminal(&pair.server.dtls, Duration::from_secs(8)).await;
        tokio::time::sleep(Duration::from_millis(5)).await;
        stop.store(true, std::sync::atomic::Ordering::Relaxed);
        for h in hs { let _ = h.join(); }
        stop.store(true, std::sync::atomic::Ordering::Relaxed);
        tokio::time::sleep(Duration::from_millis(15)).await;
        if !(matches!(c, DtlsState::Connected(..)) && matches!(s2, DtlsState::Connected(..))) { continue; }
        let log = pair.proxy.as_ref().unwrap().log.lock().clone();
        for dir in [Dir::AtoB, Dir::BtoA] {
            let mut seen: std::collections::HashMap<(u16, u64), u8> = Default::default();
            for (d, p) in &log {
                if *d != dir { continue; }
                for r in parse_records(p) {
                    if r.ct == 23 { records += 1; }
                    if r.ct == 23 && r.epoch == 0 { anomalies.push(format!("{:?}: ApplicationData record with epoch-0 header seq {} (write_epoch not yet initialised)", dir, r.seq)); }
                    if r.epoch >= 1 { if let Some(prev) = seen.insert((r.epoch, r.seq), r.ct) { anomalies.push(format!("{:?}: NONCE REUSE (epoch {}, seq {}) content types {} and {}", dir, r.epoch, r.seq, prev, r.ct)); } }
                }
            }
        }
    }
    let fail = anomalies.first().map(|a| format!("send() racing the end of the handshake: {} ({} anomalies in {} handshakes)", a, anomalies.len(), n));
    push(out, st, "race-probe", "-".into(), json!({"race_probe": {"handshakes": n, "app_records": records, "anomalies": anomalies.iter().take(5).collect::<Vec<_>>()}}), fail, records > 0, "race-probe".into());
}

#[tokio::main(flavor = "multi_thread", worker_threads = 8)]
async fn main() {
    let args = parse_args();
    silence_panics();
    let thorough = args.tier == "thorough";
    let mut rng = Rng::new(args.seed);
    let mut out = Out::new(&args.out);
    let mut st = Stats { kinds: BTreeMap::new(), pairs: 0, retried: 0 };
    let t_start = Instant::now();
    if std::env::args().any(|a| a == "--only-probe") {
        let n = std::env::args().position(|a| a == "--race-probe").and_then(|i| std::env::args().nth(i + 1)).and_then(|v| v.parse::<usize>().ok()).unwrap_or(200);
        race_probe(&mut out, &mut st, n).await;
        out.finish(json!({"generator": {"only_probe": n, "wall_s": t_start.elapsed().as_secs_f64()}}));
        return;
    }

    // ================================================================= corpus: F7 / F8 witnesses
    let mut live = Live::connect().await;
    st.pairs += 1;
    {
        // F7: client sends two application records, then close(): the alert must not reuse an earlier (epoch, seq)
        tx_case(&mut live, &mut out, &mut st, "corpus", true, b"hello".to_vec(), None).await;
        tx_case(&mut live, &mut out, &mut st, "corpus", true, b"world".to_vec(), None).await;
        let start = live.log_len();
        live.dtls(true).close();
        let d = live.wait_dgrams(start, Dir::AtoB, 1, Duration::from_millis(2500)).await;
        let (k, iv) = { let (a, b) = live.keys.write(true); (a.to_vec(), b.to_vec()) };
        let (k, iv) = (&k[..], &iv[..]);
        let mut fail = None;
        let mut term = "-".to_string();
        let mut seqv = 0;
        if d.len() != 1 { fail = Some(format!("close() produced {} datagrams", d.len())); } else {
            let r = &parse_records(&d[0])[0];
            seqv = r.seq;
            let reuse = live.note_nonce(true, r);
            let earlier: Vec<u64> = (1..=live.sent[0]).collect();
            match open_rec(k, iv, r) {
                Some((n, aad, body, Some(pt))) => {
                    if r.ct != 21 || pt != vec![1, 0] { fail = Some("close() did not send a sealed close_notify alert".into()); }
                    if let Some(m) = reuse.clone() { fail = Some(m); }
                    if r.epoch == 1 && earlier.contains(&r.seq) { fail = Some(format!("NONCE REUSE: close_notify sealed with (epoch 1, seq {}) already used by an application record under the same key", r.seq)); }
                    term = format!("CAlert true {} 1 {} [{}] {}", live.keys.term(), 1 + live.sent[0], entry_term(k, &n, &aad, &pt, &body), bytes_term(&d[0]));
                }
                _ => fail = Some("close_notify does not authenticate under the write key".into()),
            }
        }
        push(&mut out, &mut st, "corpus", term, json!({"F7": "client: send, send, close()", "alert_seq": seqv, "app_seqs": [1, 2]}), fail, true, "F7".into());
        live = Live::connect().await;
        st.pairs += 1;
        // F8: plaintext epoch-0 ApplicationData / close_notify / forged Finished, both roles, peer and foreign address
        for victim_client in [false, true] {
            for foreign in [false, true] {
                let o = rx_case(&mut live, &mut out, &mut st, "corpus", "F8a plaintext epoch-0 ApplicationData", victim_client, vec![plain(23, 0, 77, b"PLAINTEXT-INJECTED")], foreign).await;
                refresh(&mut live, &mut st, &o).await;
                let o = rx_case(&mut live, &mut out, &mut st, "corpus", "F8b plaintext epoch-0 close_notify", victim_client, vec![plain(21, 0, 78, &[1, 0])], foreign).await;
                refresh(&mut live, &mut st, &o).await;
                for mseq in 0u16..8 {
                    let o = rx_case(&mut live, &mut out, &mut st, "corpus", &format!("F8c plaintext epoch-0 forged Finished message_seq={}", mseq), victim_client, vec![forged_finished(mseq)], foreign).await;
                    refresh(&mut live, &mut st, &o).await;
                }
            }
        }
    }

    // ================================================================= decode / encode
    {
        let n_dec = if thorough { 6000 } else { 1500 };
        for len in 0..=16usize { decode_case(&mut out, &mut st, "decode-boundary", &vec![23u8; len]); }
        for i in 0..n_dec {
            let buf = if i % 3 == 0 { let n = rng.below(40) as usize; rng.bytes(n) } else {
                let plen = rng.below(24) as usize;
                let ct = *rng.pick(&[20u8, 21, 22, 23, 24, 24, 19, 25, 0, 255, 23, 22]);
                let mut b = vec![ct, rng.next() as u8, rng.next() as u8];
                b.extend_from_slice(&(*rng.pick(&[0u16, 1, 2, 0xffff, 256])).to_be_bytes());
                b.extend_from_slice(&rng.bytes(6));
                let claimed = (plen as i64 + *rng.pick(&[0i64, 0, 0, -1, 1, 2, -2, 300, 65000])).clamp(0, 65535) as u16;
                b.extend_from_slice(&claimed.to_be_bytes());
                b.extend_from_slice(&rng.bytes(plen));
                if rng.chance(1, 3) { let n = rng.below(20) as usize; b.extend_from_slice(&rng.bytes(n)); }
                if rng.chance(1, 8) { let cut = rng.below(b.len() as u64 + 1) as usize; b.truncate(cut); }
                b
            };
            decode_case(&mut out, &mut st, "decode", &buf);
        }
        for _ in 0..(if thorough { 600 } else { 150 }) {
            let n = rng.below(30) as usize;
            let seq = if rng.chance(1, 6) { rng.next() } else { rng.next() & ((1 << 48) - 1) };
            encode_case(&mut out, &mut st, 20 + rng.below(5) as u8, rng.next() as u8, rng.next() as u8, rng.next() as u16, seq, &rng.bytes(n));
        }
    }

    // ================================================================= send side, one caller
    {
        let m = MAX_APP_DATA_RECORD_SIZE;
        let mut sizes = vec![0usize, 1, 2, m - 1, m, m + 1, 2 * m - 1, 2 * m, 2 * m + 1, 3 * m, 3 * m + 7];
        for _ in 0..(if thorough { 60 } else { 14 }) { sizes.push(rng.range(1, 64) as usize); }
        for _ in 0..(if thorough { 20 } else { 3 }) { sizes.push(rng.range(1, 4000) as usize); }
        if thorough { sizes.extend_from_slice(&[10 * m, 16 * m + 1, 65535]); }
        for (i, n) in sizes.iter().enumerate() {
            let client = i % 2 == 0;
            if *n <= 64 { let d = rng.bytes(*n); tx_case(&mut live, &mut out, &mut st, "tx", client, d, None).await; }
            else { let t = rng.below(200); tx_case(&mut live, &mut out, &mut st, "tx", client, pat(t, *n), Some((t, *n))).await; }
            live.drain(!client);
        }
        // 12 000 bytes (10 records) with the model; 1 MiB (874 records) oracle only
        tx_case(&mut live, &mut out, &mut st, "tx", true, pat(201, 10 * m), Some((201, 10 * m))).await;
        live.drain(false);
        tx_big_case(&mut live, &mut out, &mut st, false, 202, 1 << 20).await;
        if thorough { tx_big_case(&mut live, &mut out, &mut st, true, 203, 1 << 20).await; tx_big_case(&mut live, &mut out, &mut st, true, 204, 3_000_000).await; }
    }

    // ================================================================= concurrent senders
    {
        let n_conc = if thorough { 1200 } else { 90 };
        let m = MAX_APP_DATA_RECORD_SIZE;
        for i in 0..n_conc {
            let client = i % 2 == 0;
            let nt = rng.range(1, 8) as usize;
            let with_close = i % 9 == 4;
            let big = rng.chance(1, 5);
            let mut tasks = vec![];
            for t in 0..nt {
                let nc = rng.range(1, 3) as usize;
                let calls = (0..nc).map(|c| {
                    let len = if big && rng.chance(1, 3) { *rng.pick(&[m - 1, m, m + 1, 2 * m + 1]) } else { rng.range(1, 24) as usize };
                    ((t * 4 + c) as u64, len)
                }).collect();
                tasks.push(TaskSpec { calls });
            }
            conc_case(&mut live, &mut out, &mut st, if with_close { "conc-close" } else { "conc" }, client, tasks, with_close).await;
            live.drain(true);
            live.drain(false);
            if with_close { live = Live::connect().await; st.pairs += 1; }
        }
    }

    // ================================================================= receive side on a connected pair
    for victim_client in (0..if thorough { 6 } else { 2 }).map(|i| i % 2 == 1) {
        live = Live::connect().await;
        st.pairs += 1;
        let peer_client = !victim_client;
        let (rk, riv) = { let (a, b) = live.keys.read(victim_client); (a.to_vec(), b.to_vec()) };
        let (wk, wiv) = { let (a, b) = live.keys.write(victim_client); (a.to_vec(), b.to_vec()) };
        // genuine records: two application records really sent by the peer, and the close_notify the peer would send
        let mut genuine: Vec<(String, Vec<u8>)> = vec![];
        for (name, data) in [("genuine app record (8 bytes)", rng.bytes(8)), ("genuine app record (21 bytes)", rng.bytes(21))] {
            let mut cap = None;
            for _ in 0..6 { // the capture depends on UDP not dropping: send again until the proxy has seen it
                let start = live.log_len();
                live.dtls(peer_client).send(Bytes::from(data.clone())).await.unwrap();
                let d = live.wait_dgrams(start, Live::dir_from(peer_client), 1, Duration::from_millis(2500)).await;
                live.resync_sent(peer_client, &d, 1);
                if let Some(x) = d.first() { cap = Some(x.clone()); break; }
            }
            genuine.push((name.to_string(), cap.expect("no genuine record could be captured at the proxy")));
        }
        tokio::time::sleep(Duration::from_millis(20)).await;
        live.drain(victim_client);
        let alert_seq = 1 + live.sent[side(peer_client)];
        let galert = encode_rec(&seal_rec(&rk, &riv, 21, 1, alert_seq, None, 0, &[1, 0]));
        genuine.push(("genuine close_notify (as the peer's close() would send it)".to_string(), galert.clone()));

        // (1) every single-bit flip of the genuine records
        for (gi, (name, g)) in genuine.iter().enumerate() {
            let step = if thorough || gi != 1 { 1 } else { 3 }; // quick tier: every third bit of the second app record
            let mut bit = 0;
            while bit < g.len() * 8 {
                let mut d = g.clone();
                d[bit / 8] ^= 1 << (bit % 8);
                let foreign = bit % 5 == 0;
                let o = rx_case(&mut live, &mut out, &mut st, "rx-bitflip", &format!("{}: bit {} of byte {} flipped", name, bit % 8, bit / 8), victim_client, vec![d], foreign).await;
                refresh(&mut live, &mut st, &o).await;
                if o.dead || o.changed { break; } // keys changed: the genuine records are no longer genuine
                bit += step;
            }
        }
        // the pair may have been replaced above only on a violation; recompute genuine material if so
        let same_keys = live.keys.read(victim_client).0 == &rk[..];
        if same_keys {
            // (2) truncations and extensions
            for (name, g) in genuine.iter() {
                for cut in 0..g.len() {
                    let o = rx_case(&mut live, &mut out, &mut st, "rx-truncate", &format!("{} truncated to {} of {} bytes", name, cut, g.len()), victim_client, vec![g[..cut].to_vec()], cut % 4 == 0).await;
                    refresh(&mut live, &mut st, &o).await;
                    if o.dead || o.changed { break; }
                }
            }
            // (2b) a record split across two (three) datagrams at every position: each piece alone is partial / garbage
            for (name, g) in genuine.iter().take(2) {
                let step = if thorough { 1 } else { 2 };
                let mut cut = 1;
                while cut < g.len() {
                    let o = rx_case(&mut live, &mut out, &mut st, "rx-split", &format!("{} split across two datagrams at byte {}", name, cut), victim_client, vec![g[..cut].to_vec(), g[cut..].to_vec()], cut % 5 == 0).await;
                    refresh(&mut live, &mut st, &o).await;
                    if o.dead || o.changed { break; }
                    cut += step;
                }
                let (a, b) = (g.len() / 3, 2 * g.len() / 3);
                let o = rx_case(&mut live, &mut out, &mut st, "rx-split", &format!("{} split across three datagrams", name), victim_client, vec![g[..a].to_vec(), g[a..b].to_vec(), g[b..].to_vec()], false).await;
                refresh(&mut live, &mut st, &o).await;
                // (2c) length field larger / smaller than what follows
                for delta in [1i32, 2, 100, 0xffff, -1, -2, -16] {
                    let mut d = g.clone();
                    let l = u16::from_be_bytes([d[11], d[12]]) as i32;
                    let nl = if delta == 0xffff { 0xffff } else { (l + delta).max(0) } as u16;
                    d[11..13].copy_from_slice(&nl.to_be_bytes());
                    let o = rx_case(&mut live, &mut out, &mut st, "rx-length", &format!("{}: length field {} -> {} ({} bytes follow)", name, l, nl, g.len() - 13), victim_client, vec![d.clone()], delta % 2 == 0).await;
                    refresh(&mut live, &mut st, &o).await;
                    // the same followed by a genuine record in the next datagram: the bad one must not swallow it
                    let o = rx_case(&mut live, &mut out, &mut st, "rx-length", &format!("{}: length field {} -> {}, then the genuine record in its own datagram", name, l, nl), victim_client, vec![d, g.clone()], false).await;
                    refresh(&mut live, &mut st, &o).await;
                }
            }
            // (2d) long runs of consecutive unauthenticated records with no genuine record in between (a receiver that
            // counts failures and gives up would change state), then one genuine record: state must stay Connected and
            // the genuine record must be delivered
            {
                let g = genuine[0].1.clone();
                let (wk2, wiv2) = { let (a, b) = live.keys.write(victim_client); (a.to_vec(), b.to_vec()) };
                let runs: &[usize] = if thorough { &[1, 2, 63, 64, 65, 127, 128, 129, 300, 1000] } else { &[1, 63, 64, 65, 300] };
                for &n in runs {
                    for (ki, kname) in ["forged garbage records of epoch 1", "bit-flipped copies of a genuine record", "records sealed under the wrong key"].iter().enumerate() {
                        let mut ds: Vec<Vec<u8>> = (0..n).map(|i| match ki {
                            0 => plain(23, 1, 20_000 + i as u64, &rng.bytes(24 + i % 9)),
                            1 => { let mut d = g.clone(); let bit = 13 * 8 + (i * 7) % ((d.len() - 13) * 8); d[bit / 8] ^= 1 << (bit % 8); d }
                            _ => encode_rec(&seal_rec(&wk2, &wiv2, 23, 1, 30_000 + i as u64, None, 0, &rng.bytes(5))),
                        }).collect();
                        let foreign = (n + ki) % 2 == 0;
                        let o = run_case(&mut live, &mut out, &mut st, &format!("{} consecutive {} with no genuine record in between, then a genuine record", n, kname), victim_client, std::mem::take(&mut ds), foreign).await;
                        refresh(&mut live, &mut st, &o).await;
                        if o.dead || o.changed { break; }
                    }
                    if live.keys.read(victim_client).0 != &rk[..] { break; }
                }
            }
            // (3) replays of genuine application records (accepted: no anti-replay window; not a C03 matter), garbage appended
            for (name, g) in genuine.iter().take(2) {
                let o = rx_case(&mut live, &mut out, &mut st, "rx-replay", &format!("replay of {}", name), victim_client, vec![g.clone()], false).await;
                refresh(&mut live, &mut st, &o).await;
                let o = rx_case(&mut live, &mut out, &mut st, "rx-replay", &format!("replay of {} from a foreign address", name), victim_client, vec![g.clone()], true).await;
                refresh(&mut live, &mut st, &o).await;
                let mut d = g.clone();
                d.extend_from_slice(&rng.bytes(9));
                let o = rx_case(&mut live, &mut out, &mut st, "rx-coalesce", &format!("{} followed by 9 garbage bytes", name), victim_client, vec![d], false).await;
                refresh(&mut live, &mut st, &o).await;
            }
        }
        // (4) content type x epoch x sealing matrix (fresh keys are read from `live` each time)
        let cts = [20u8, 21, 22, 23, 24, 25, 19, 63];
        let epochs = [0u16, 1, 2, 0xffff];
        let mut closing: Vec<(String, Vec<u8>)> = vec![];
        for &ct in &cts {
            for &epoch in &epochs {
                let (rk, riv) = { let (a, b) = live.keys.read(victim_client); (a.to_vec(), b.to_vec()) };
                let (wk2, wiv2) = { let (a, b) = live.keys.write(victim_client); (a.to_vec(), b.to_vec()) };
                let seq = 1000 + rng.below(1000);
                let bodies: [(&str, Vec<u8>); 3] = [("close_notify bytes", vec![1, 0]), ("8 bytes", rng.bytes(8)), ("empty", vec![])];
                for (bname, body) in bodies.iter() {
                    let mut variants: Vec<(String, Vec<u8>)> = vec![
                        (format!("plaintext ct={} epoch={} {}", ct, epoch, bname), plain(ct, epoch, seq, body)),
                        (format!("plaintext padded to 40 bytes ct={} epoch={} {}", ct, epoch, bname), plain(ct, epoch, seq, &[body.clone(), vec![0u8; 40 - body.len()]].concat())),
                        (format!("sealed under the WRONG key (victim's own write key) ct={} epoch={} {}", ct, epoch, bname), encode_rec(&seal_rec(&wk2, &wiv2, ct, epoch, seq, None, 0, body))),
                        (format!("sealed under the read key but wrong IV ct={} epoch={} {}", ct, epoch, bname), encode_rec(&seal_rec(&rk, &wiv2, ct, epoch, seq, None, 0, body))),
                        (format!("sealed under the read key with AAD length off by one ct={} epoch={} {}", ct, epoch, bname), encode_rec(&seal_rec(&rk, &riv, ct, epoch, seq, None, 1, body))),
                    ];
                    // sealed for another header, then relabelled: type, epoch, sequence number
                    let mut r = seal_rec(&rk, &riv, 23, 1, seq, None, 0, body); r.ct = ct; r.epoch = epoch;
                    if ct != 23 || epoch != 1 { variants.push((format!("sealed as ct=23 epoch=1, header relabelled ct={} epoch={} {}", ct, epoch, bname), encode_rec(&r))); }
                    let mut r = seal_rec(&rk, &riv, ct, epoch, seq, None, 0, body); r.seq ^= 1;
                    variants.push((format!("sealed correctly, header sequence number changed ct={} epoch={} {}", ct, epoch, bname), encode_rec(&r)));
                    // authentic records (sealed under the read key with matching header) -- allowed to have an effect
                    let authentic = encode_rec(&seal_rec(&rk, &riv, ct, epoch, seq, None, 0, body));
                    let authentic2 = encode_rec(&seal_rec(&rk, &riv, ct, epoch, seq, Some(rng.next()), 0, body));
                    let closes = ct == 21 && epoch != 0 && body.len() >= 2 && body[1] == 0;
                    if closes {
                        closing.push((format!("AUTHENTIC close_notify epoch={}", epoch), authentic));
                        closing.push((format!("AUTHENTIC close_notify epoch={} with explicit nonce != header sequence", epoch), authentic2));
                    } else {
                        variants.push((format!("AUTHENTIC (sealed under the read key) ct={} epoch={} {}", ct, epoch, bname), authentic));
                        variants.push((format!("AUTHENTIC with explicit nonce != header sequence ct={} epoch={} {}", ct, epoch, bname), authentic2));
                    }
                    for (i, (what, d)) in variants.into_iter().enumerate() {
                        let o = rx_case(&mut live, &mut out, &mut st, "rx-matrix", &what, victim_client, vec![d], i % 3 == 1).await;
                        refresh(&mut live, &mut st, &o).await;
                    }
                }
            }
        }
        // (5) coalesced datagrams and several datagrams in a row
        {
            let (rk, riv) = { let (a, b) = live.keys.read(victim_client); (a.to_vec(), b.to_vec()) };
            let a1 = encode_rec(&seal_rec(&rk, &riv, 23, 1, 5000, None, 0, b"first"));
            let a2 = encode_rec(&seal_rec(&rk, &riv, 23, 1, 5001, None, 0, b"second"));
            let mut bad = a1.clone(); let l = bad.len(); bad[l - 1] ^= 0x80;
            let p0 = plain(23, 0, 9, b"clear");
            let pa = plain(21, 0, 9, &[1, 0]);
            let combos: Vec<(&str, Vec<Vec<u8>>)> = vec![
                ("authentic ++ authentic in one datagram", vec![[a1.clone(), a2.clone()].concat()]),
                ("tampered ++ authentic in one datagram (loop breaks at the bad record)", vec![[bad.clone(), a2.clone()].concat()]),
                ("authentic ++ tampered ++ authentic in one datagram", vec![[a1.clone(), bad.clone(), a2.clone()].concat()]),
                ("plaintext epoch-0 app ++ authentic ++ plaintext close_notify ++ authentic", vec![[p0.clone(), a1.clone(), pa.clone(), a2.clone()].concat()]),
                ("invalid content type ++ authentic", vec![[plain(25, 1, 1, b"x"), a1.clone()].concat()]),
                ("authentic ++ invalid content type ++ authentic", vec![[a1.clone(), plain(40, 1, 1, b"x"), a2.clone()].concat()]),
                ("three datagrams: plaintext, tampered, authentic", vec![p0.clone(), bad.clone(), a2.clone()]),
                ("header only, length field larger than the datagram", vec![{ let mut h = a1[..13].to_vec(); h[11] = 0xff; h }]),
            ];
            for (i, (what, ds)) in combos.into_iter().enumerate() {
                let o = rx_case(&mut live, &mut out, &mut st, "rx-coalesce", what, victim_client, ds, i % 2 == 1).await;
                refresh(&mut live, &mut st, &o).await;
            }
        }
        // (6) garbage datagrams (first byte decides whether IceConn hands them to DTLS at all)
        for i in 0..(if thorough { 600 } else { 120 }) {
            let n = rng.range(1, 60) as usize;
            let mut d = rng.bytes(n);
            if i % 4 != 0 { d[0] = 20 + rng.below(5) as u8; }
            if i % 4 == 2 && d.len() >= 13 { d[3] = 0; d[4] = rng.below(2) as u8; let l = (d.len() - 13) as u16; d[11..13].copy_from_slice(&l.to_be_bytes()); }
            let o = rx_case(&mut live, &mut out, &mut st, "rx-garbage", "random datagram", victim_client, vec![d], i % 2 == 0).await;
            refresh(&mut live, &mut st, &o).await;
        }
        // (7) last: authentic close_notify records close the connection (each on its own pair)
        for (what, _) in closing.iter().take(if thorough { 6 } else { 3 }) {
            let (rk, riv) = { let (a, b) = live.keys.read(victim_client); (a.to_vec(), b.to_vec()) };
            let epoch = if what.contains("epoch=2") { 2 } else if what.contains("epoch=65535") { 0xffff } else { 1 };
            let ex = if what.contains("explicit") { Some(rng.next()) } else { None };
            let d = encode_rec(&seal_rec(&rk, &riv, 21, epoch, 7000, ex, 0, &[1, 0]));
            let o = rx_case(&mut live, &mut out, &mut st, "rx-close", what, victim_client, vec![d], false).await;
            // after a genuine close: plaintext / tampered records must still be inert (state stays Closed)
            let o2 = rx_case(&mut live, &mut out, &mut st, "rx-close", "plaintext epoch-0 app data after close", victim_client, vec![plain(23, 0, 1, b"late")], true).await;
            let _ = (o, o2);
            live = Live::connect().await;
            st.pairs += 1;
        }
        let _ = (wk, wiv);
    }
    drop(live);

    // ================================================================= during the handshake, keys already derived
    for victim_client in [true, false] {
        for (i, (what, ds)) in [
            ("plaintext epoch-0 ApplicationData while Handshaking with keys", vec![plain(23, 0, 50, b"EARLY-PLAINTEXT")]),
            ("plaintext epoch-0 close_notify while Handshaking with keys", vec![plain(21, 0, 51, &[1, 0])]),
            ("plaintext epoch-0 app data ++ close_notify in one datagram while Handshaking with keys", vec![[plain(23, 0, 52, b"EARLY"), plain(21, 0, 53, &[1, 0])].concat()]),
            // unauthenticated handshake-protocol records in the window: forged Finished (every plausible message_seq),
            // other handshake types with the expected message_seq (would skew recv_message_seq / the transcript)
            ("forged plaintext epoch-0 Finished (message_seq 0..7) while Handshaking with keys", (0u16..8).map(|m| plain_hs(20, m, &[0xAA; 12], 60 + m as u64)).collect()),
            ("forged plaintext epoch-0 HelloRequest (message_seq 0..7) while Handshaking with keys", (0u16..8).map(|m| plain_hs(0, m, &[], 70 + m as u64)).collect()),
            ("forged plaintext epoch-0 ServerHelloDone (message_seq 0..7) while Handshaking with keys", (0u16..8).map(|m| plain_hs(14, m, &[], 80 + m as u64)).collect()),
            ("forged plaintext epoch-0 first fragment of a 64 KiB message (message_seq 0..7) while Handshaking with keys", (0u16..8).map(|m| { let mut d = plain_hs(11, m, &[7u8; 32], 90 + m as u64); d[14] = 1; d }).collect()),
            ("plaintext epoch-0 Heartbeat while Handshaking with keys", vec![plain(24, 0, 54, &[1, 0, 0])]),
        ].into_iter().enumerate() {
            let n0 = out.cases.len();
            handshaking_case(&mut out, &mut st, victim_client, ds.clone(), what, i == 1).await;
            if out.cases[n0..].iter().any(|c| c.oracle_fail.is_some()) {
                out.cases.truncate(n0); st.retried += 1;
                tokio::time::sleep(Duration::from_millis(300)).await;
                handshaking_case(&mut out, &mut st, victim_client, ds, what, i == 1).await;
            }
        }
    }

    // ================================================================= before any key exists: epoch-0 ApplicationData
    for victim_client in [true, false] {
        for (ds, what, foreign) in [
            (vec![plain(23, 0, 40, b"PLAINTEXT-BEFORE-KEYS")], "plaintext epoch-0 ApplicationData before keys", false),
            (vec![[plain(23, 0, 41, b"A"), plain(23, 0, 42, b"B")].concat()], "two plaintext epoch-0 ApplicationData records in one datagram before keys", true),
        ] {
            let n0 = out.cases.len();
            prekeys_case(&mut out, &mut st, victim_client, ds.clone(), what, foreign).await;
            if out.cases[n0..].iter().any(|c| c.oracle_fail.is_some()) {
                out.cases.truncate(n0); st.retried += 1;
                tokio::time::sleep(Duration::from_millis(300)).await;
                prekeys_case(&mut out, &mut st, victim_client, ds, what, foreign).await;
            }
        }
    }

    // ================================================================= thorough: send() racing the end of the handshake
    let probe_n = std::env::args().position(|a| a == "--race-probe").and_then(|i| std::env::args().nth(i + 1)).and_then(|v| v.parse::<usize>().ok())
        .unwrap_or(if thorough { 1500 } else { 60 });
    if probe_n > 0 { race_probe(&mut out, &mut st, probe_n).await; }

    let wall = t_start.elapsed().as_secs_f64();
    st.kinds.clear();
    for c in &out.cases { *st.kinds.entry(c.kind.clone()).or_insert(0) += 1; }
    out.finish(json!({"generator": {
        "cases_repeated_in_isolation": st.retried,
        "tier": args.tier, "seed": args.seed, "live_dtls_pairs": st.pairs, "harness_wall_s": wall, "cases_by_kind": st.kinds,
        "send_sizes": "0,1,2,MAX-1,MAX,MAX+1,2MAX-1,2MAX,2MAX+1,3MAX,3MAX+7 + random 1..64 and 1..4000",
        "concurrency": "1-8 tasks x 1-3 send() calls (sizes 1..24, one case in five with MAX-1/MAX/MAX+1/2MAX+1), every ninth case races close()",
        "injection": "both roles as victim; source = peer address via proxy or a foreign UDP socket; every bit flip of 3 genuine records (quick: every 3rd bit of the 2nd), every truncation, ct {20..25,19,63} x epoch {0,1,2,65535} x {plaintext, padded plaintext, wrong key, wrong IV, AAD off by one, relabelled header, changed seq, authentic, authentic with foreign explicit nonce} x 3 bodies, coalesced datagrams, garbage, injections while Handshaking with keys"
    }}));
}
