//! C04 — SRTP/SRTCP protection round-trips and matches an independent implementation.
//!
//! Drives the real `SrtpContext` / `SrtpSession` (public API, no hooks):
//!  * Hist   sequence histories (multiple 2^16 wraps, gaps, loss, reordering, duplicates, packets
//!           outside the ±2^15 window) through one sending and one receiving context; observed:
//!           accepted?, packet equality, rollover counter after every step (Debug impl);
//!           model: Gen/SrtpArith.estimate_roc + update at decision level (Run/C04Run.v).
//!  * Pkt / Rtcp   single packets of every header shape / size / profile / key class: the model's
//!           byte layout (symbolic crypto interpreted by tables the harness computes with the
//!           aes / ctr / hmac / aes-gcm crates from an RFC-derived reference) against rustrtc's bytes.
//!  * direct oracle (independent of the model): unprotect(protect(p)) == p, the length formula,
//!           three-way agreement with webrtc-srtp in both directions, per-SSRC independence in
//!           sessions with 1..40 SSRCs.
#[path = "c04_common/mod.rs"]
mod common;
use common::*;
use rustrtc::rtp::RtpPacket;
use rustrtc::srtp::*;
use serde_json::json;
use std::collections::BTreeMap;
use vh::*;

const W: u64 = 32768;

struct HistPlan {
    sent: Vec<u64>,
    order: Vec<usize>,
}

fn gen_hist(r: &mut Rng, long: bool) -> HistPlan {
    let i0 = *r.pick(&[0u64, 0, 1, 100, 32766, 32767, 32768, 32769, 40000, 65534, 65535]);
    let n = if long { r.range(20, 120) } else { r.range(4, 44) } as usize;
    let mut sent = vec![i0];
    let mut hi = i0;
    let style = r.below(4);
    for _ in 1..n {
        let k = r.below(100);
        let i = if k < 8 && hi > 60 {
            hi - r.range(1, 50) // sender-side reordering (retransmission)
        } else if k < 10 && hi > 32767 + 5 {
            hi - *r.pick(&[32767u64, 32766, 30000])
        } else {
            let step = match style {
                0 => *r.pick(&[1u64, 1, 1, 1, 2, 3, 7]),
                1 => *r.pick(&[1u64, 1, 2, 100, 1000, 5000, 20000, 32766, 32767]),
                2 => *r.pick(&[32767u64, 32767, 32766, 30000, 32700, 1]),
                _ => r.range(1, 32767),
            };
            hi + step
        };
        sent.push(i);
        hi = hi.max(i);
    }
    // receive order: identity, then loss / bounded reordering / duplicates / far-stale injections
    let mut order: Vec<usize> = (0..sent.len()).collect();
    if r.chance(3, 4) {
        let drops = r.below(1 + order.len() as u64 / 5);
        for _ in 0..drops { if order.len() > 2 { let k = r.below(order.len() as u64) as usize; order.remove(k); } }
    }
    if r.chance(3, 4) {
        let swaps = r.below(1 + order.len() as u64 / 2);
        for _ in 0..swaps {
            let a = r.below(order.len() as u64) as usize;
            let d = r.range(1, 6) as usize;
            let b = (a + d).min(order.len() - 1);
            order.swap(a, b);
        }
    }
    if r.chance(1, 2) {
        for _ in 0..r.range(1, 3) { let k = r.below(order.len() as u64) as usize; let v = order[k]; let at = r.below(order.len() as u64 + 1) as usize; order.insert(at, v); }
    }
    if r.chance(1, 2) {
        // deliver a packet again when the receiver has moved about 2^15 past it (window boundary)
        for _ in 0..r.range(1, 3) {
            let at = r.range(1, order.len() as u64) as usize;
            let hi_at = order[..at].iter().map(|&k| sent[k]).max().unwrap();
            let want = *r.pick(&[W - 1, W, W + 1, W + 5000, 2 * W + 3]);
            if let Some((k, _)) = sent.iter().enumerate().min_by_key(|(_, &i)| (hi_at as i64 - i as i64 - want as i64).abs()) {
                order.insert(at, k);
            }
        }
    }
    if r.chance(1, 6) {
        // start with a later packet (possibly from a later epoch: must be refused by a fresh context)
        let k = r.below(sent.len() as u64) as usize;
        order.insert(0, k);
    }
    HistPlan { sent, order }
}

fn corpus_hists() -> Vec<HistPlan> {
    let id = |n: usize| (0..n).collect::<Vec<_>>();
    vec![
        // the two unit-test scenarios of the crate
        HistPlan { sent: vec![65535, 65536], order: id(2) },
        HistPlan { sent: vec![50000, 65535, 65536], order: vec![0, 2, 1] },
        // three wraps in the largest permitted strides, then delivery in reverse inside the window
        HistPlan { sent: vec![0, 32767, 65534, 98301, 131068, 163835, 196602, 196603, 196604], order: vec![0, 1, 2, 3, 4, 5, 6, 8, 7, 6, 5] },
        // packet exactly 2^15 behind / ahead (outside the guarantee; decisions still compared with the model)
        HistPlan { sent: vec![100, 32868, 65636], order: vec![0, 1, 2, 1, 0] },
        HistPlan { sent: vec![40000, 72768], order: vec![0, 1] },
        // a fresh receiver that first sees a packet of epoch 1 must refuse it and stay fresh
        HistPlan { sent: vec![65000, 65536, 65537], order: vec![1, 0, 1, 2] },
    ]
}

struct HistOut {
    term: String,
    desc: serde_json::Value,
    fail: Option<String>,
    wraps: u64,
    reordered: bool,
}

fn run_hist(r: &mut Rng, p: &Prof, plan: &HistPlan) -> HistOut {
    let ssrc = r.next() as u32;
    let km = keying(r, p);
    let mut tx = SrtpContext::new(ssrc, p.r, km.clone(), SrtpDirection::Sender).unwrap();
    let mut rx = SrtpContext::new(ssrc, p.r, km.clone(), SrtpDirection::Receiver).unwrap();
    let mut fail: Option<String> = None;
    let mut setf = |f: &mut Option<String>, s: String| { if f.is_none() { *f = Some(s); } };
    // --- send
    let mut pkts: Vec<RtpPacket> = vec![];
    let mut raws: Vec<Vec<u8>> = vec![];
    let mut tx_obs: Vec<u32> = vec![];
    let mut hi_s = 0u64;
    // the planned indices are what the sender believes only while every step stays inside its own
    // +/-2^15 window (and starts in epoch 0); otherwise only the model comparison applies
    let mut planned_ok = plan.sent[0] < 65536;
    { let mut h = plan.sent[0]; for &i in &plan.sent[1..] { if (i as i64 - h as i64).unsigned_abs() >= W { planned_ok = false; } h = h.max(i); } }
    for (k, &i) in plan.sent.iter().enumerate() {
        let pk = small_packet(r, ssrc, (i % 65536) as u16);
        match ctx_protect(&mut tx, &pk) {
            R::Ok(raw) => raws.push(raw),
            other => { setf(&mut fail, format!("send {}: protect returned {}", k, other.class())); raws.push(vec![]); }
        }
        pkts.push(pk);
        hi_s = hi_s.max(i);
        let roc = roc_of(&tx);
        tx_obs.push(roc);
        if planned_ok && roc as u64 != hi_s / 65536 { setf(&mut fail, format!("send {}: sender rollover counter {} but highest index sent is {} (epoch {})", k, roc, hi_s, hi_s / 65536)); }
    }
    // --- independent reference: webrtc-srtp receives the same datagrams; and sends its own
    let mut wrx = p.w.map(|w| webrtc_srtp::context::Context::new(&km.master_key, &km.master_salt, w, None, None).unwrap());
    let mut w_last: Option<u64> = None;
    // --- receive
    let mut rx_obs: Vec<(bool, u32)> = vec![];
    let mut hi: Option<u64> = None;
    let mut steps = vec![];
    for (n, &k) in plan.order.iter().enumerate() {
        let i = plan.sent[k];
        let res = ctx_unprotect(&mut rx, &raws[k]);
        let acc = res.is_ok();
        let roc = roc_of(&rx);
        rx_obs.push((acc, roc));
        let in_window = match hi { None => i < 65536, Some(h) => (i as i64 - h as i64).unsigned_abs() < W };
        match &res {
            R::Ok(got) => {
                if *got != pkts[k] { setf(&mut fail, format!("recv {} (index {}): unprotect returned a packet different from the one protected", n, i)); }
                hi = Some(hi.map_or(i, |h| h.max(i)));
            }
            R::Panic(m) => setf(&mut fail, format!("recv {} (index {}): unprotect panicked: {}", n, i, m)),
            R::Err(e) => {
                if in_window && planned_ok { setf(&mut fail, format!("recv {} (index {}, highest accepted {:?}): genuine packet inside the +/-2^15 window refused ({})", n, i, hi, e)); }
            }
        }
        if let (Some(h), true) = (hi, planned_ok) { if roc as u64 != h / 65536 { setf(&mut fail, format!("recv {}: receiver rollover counter {} but highest accepted index {}", n, roc, h)); } }
        if let Some(w) = wrx.as_mut() {
            let demand = match w_last { None => i < 65536, Some(l) => (i as i64 - l as i64).unsigned_abs() < W };
            match w.decrypt_rtp(&raws[k]) {
                Ok(b) => {
                    w_last = Some(i);
                    if b.to_vec() != pkts[k].marshal().unwrap() { setf(&mut fail, format!("recv {} (index {}): webrtc-srtp decoded rustrtc's packet to different bytes", n, i)); }
                }
                Err(e) => if demand && planned_ok { setf(&mut fail, format!("recv {} (index {}): webrtc-srtp refused rustrtc's packet: {}", n, i, e)); }
            }
        }
        steps.push(json!([k, i, acc, roc]));
    }
    // --- reverse direction: webrtc-srtp protects the same packets, a fresh rustrtc context receives them
    if let Some(wp) = p.w {
        let trackable = planned_ok && plan.sent.windows(2).all(|w| (w[1] as i64 - w[0] as i64).unsigned_abs() < W) && plan.sent[0] < 65536;
        if trackable {
            let mut wtx = webrtc_srtp::context::Context::new(&km.master_key, &km.master_salt, wp, None, None).unwrap();
            let mut rx2 = SrtpContext::new(ssrc, p.r, km.clone(), SrtpDirection::Receiver).unwrap();
            let wraws: Vec<Option<Vec<u8>>> = pkts.iter().map(|pk| wtx.encrypt_rtp(&pk.marshal().unwrap()).ok().map(|b| b.to_vec())).collect();
            let mut hi2: Option<u64> = None;
            for (n, &k) in plan.order.iter().enumerate() {
                let i = plan.sent[k];
                let Some(raw) = &wraws[k] else { continue };
                let in_window = match hi2 { None => i < 65536, Some(h) => (i as i64 - h as i64).unsigned_abs() < W };
                match ctx_unprotect(&mut rx2, raw) {
                    R::Ok(got) => { hi2 = Some(hi2.map_or(i, |h| h.max(i))); if got != pkts[k] { setf(&mut fail, format!("recv {} (index {}): rustrtc decoded webrtc-srtp's packet to a different packet", n, i)); } }
                    R::Panic(m) => setf(&mut fail, format!("recv {}: panic on webrtc-srtp's packet: {}", n, m)),
                    R::Err(e) => if in_window { setf(&mut fail, format!("recv {} (index {}): rustrtc refused webrtc-srtp's packet inside the window ({})", n, i, e)); }
                }
            }
        }
    }
    let seqs: Vec<i128> = plan.sent.iter().map(|i| (i % 65536) as i128).collect();
    let term = format!("Hist {} {} {} {}", zlist(seqs), zlist(tx_obs.iter().map(|x| *x as i128)),
        zlist(plan.order.iter().map(|x| *x as i128)),
        list_term(&rx_obs.iter().map(|(a, roc)| format!("({}, {})", bool_term(*a), roc)).collect::<Vec<_>>()));
    let sorted = plan.order.windows(2).all(|w| plan.sent[w[0]] <= plan.sent[w[1]]);
    HistOut {
        term,
        desc: json!({"kind": "hist", "profile": p.name, "sent_indices": plan.sent, "recv [pos, index, accepted, roc_after]": steps}),
        fail,
        wraps: plan.sent.iter().max().unwrap() / 65536,
        reordered: !sorted,
    }
}

// ---------------------------------------------------------------- single packets: round trip + interop (direct oracle)
fn oracle_packet(r: &mut Rng, p: &Prof, stats: &mut BTreeMap<String, u64>) -> (serde_json::Value, Option<String>, String) {
    let ssrc = r.next() as u32;
    let km = keying(r, p);
    let seq = *r.pick(&[0u16, 1, 255, 256, 32767, 32768, 65535, 4660]);
    let pk = gen_packet(r, ssrc, seq);
    let mut fail: Option<String> = None;
    let mut setf = |f: &mut Option<String>, s: String| { if f.is_none() { *f = Some(s); } };
    let mut tx = SrtpSession::new(p.r, km.clone(), km.clone()).unwrap();
    let mut rx = SrtpSession::new(p.r, km.clone(), km.clone()).unwrap();
    let plain = pk.marshal().unwrap();
    let shape = format!("csrc{}_ext{}_pay{}_pad{}", pk.header.csrcs.len(), pk.header.extension.as_ref().map_or("none".to_string(), |e| format!("{:04x}/{}", e.profile, e.data.len())), pk.payload.len(), pk.padding_len);
    *stats.entry(format!("payload_{}", pk.payload.len())).or_default() += 1;
    match sess_protect(&mut tx, &pk) {
        R::Ok(raw) => {
            if raw.len() != plain.len() + p.tag { setf(&mut fail, format!("protected length {} != header+payload+padding {} + tag {}", raw.len(), plain.len(), p.tag)); }
            let hl = plain.len() - pk.payload.len() - pk.padding_len as usize;
            if raw[..hl] != plain[..hl] { setf(&mut fail, "protected packet does not start with the clear RTP header".into()); }
            if p.null && raw[..plain.len()] != plain[..] { setf(&mut fail, "NULL cipher changed the payload".into()); }
            match sess_unprotect(&mut rx, &raw) {
                R::Ok(got) => if got != pk { setf(&mut fail, "unprotect(protect(p)) != p".into()); },
                other => setf(&mut fail, format!("unprotect(protect(p)) returned {}", other.class())),
            }
            if let Some(wp) = p.w {
                let mut w = webrtc_srtp::context::Context::new(&km.master_key, &km.master_salt, wp, None, None).unwrap();
                match w.decrypt_rtp(&raw) {
                    Ok(b) => if b.to_vec() != plain { setf(&mut fail, "webrtc-srtp decoded rustrtc's SRTP packet to different bytes".into()); },
                    Err(e) => {
                        // the reference's own RTP header parser may refuse exotic extension contents: only then skip
                        let mut b = &plain[..];
                        if <rtp::header::Header as webrtc_util::marshal::Unmarshal>::unmarshal(&mut b).is_ok() {
                            setf(&mut fail, format!("webrtc-srtp refused rustrtc's SRTP packet: {}", e));
                        } else { *stats.entry("ref_header_parse_skipped".into()).or_default() += 1; }
                    }
                }
                let mut wt = webrtc_srtp::context::Context::new(&km.master_key, &km.master_salt, wp, None, None).unwrap();
                match wt.encrypt_rtp(&plain) {
                    Ok(enc) => {
                        if enc.to_vec() != raw { setf(&mut fail, "webrtc-srtp and rustrtc protect the same packet with the same keys to different bytes".into()); }
                        let mut rx3 = SrtpSession::new(p.r, km.clone(), km.clone()).unwrap();
                        match sess_unprotect(&mut rx3, &enc) {
                            R::Ok(got) => if got != pk { setf(&mut fail, "rustrtc decoded webrtc-srtp's SRTP packet to a different packet".into()); },
                            other => setf(&mut fail, format!("rustrtc refused webrtc-srtp's SRTP packet: {}", other.class())),
                        }
                    }
                    Err(_) => { *stats.entry("ref_encrypt_skipped".into()).or_default() += 1; }
                }
            }
        }
        other => setf(&mut fail, format!("protect of a valid packet returned {}", other.class())),
    }
    (json!({"kind": "rtp-oracle", "profile": p.name, "packet": pkt_json(&pk), "key": hex(&km.master_key), "salt": hex(&km.master_salt)}), fail, format!("{}|{}|{}", p.name, shape, seq))
}

fn oracle_rtcp(r: &mut Rng, p: &Prof, stats: &mut BTreeMap<String, u64>) -> (serde_json::Value, Option<String>, String) {
    let ssrc = r.next() as u32;
    let km = keying(r, p);
    let mut fail: Option<String> = None;
    let mut setf = |f: &mut Option<String>, s: String| { if f.is_none() { *f = Some(s); } };
    let mut tx = SrtpSession::new(p.r, km.clone(), km.clone()).unwrap();
    let mut rx = SrtpSession::new(p.r, km.clone(), km.clone()).unwrap();
    let mut wrx = p.w.map(|w| webrtc_srtp::context::Context::new(&km.master_key, &km.master_salt, w, None, None).unwrap());
    let mut wtx = p.w.map(|w| webrtc_srtp::context::Context::new(&km.master_key, &km.master_salt, w, None, None).unwrap());
    let n = r.range(1, 5);
    let mut lens = vec![];
    let mut prev_index: Option<u32> = None;
    for k in 0..n {
        let plain = gen_rtcp(r, ssrc);
        lens.push(plain.len());
        *stats.entry(format!("rtcp_len_{}", if plain.len() <= 8 { "8".to_string() } else if plain.len() < 100 { "<100".into() } else { ">=100".into() })).or_default() += 1;
        match sess_protect_rtcp(&mut tx, &plain) {
            R::Ok(raw) => {
                let want = plain.len() + 4 + p.rtcp_tag;
                if raw.len() != want { setf(&mut fail, format!("rtcp {}: protected length {} != {} (plain + index + tag)", k, raw.len(), want)); }
                if raw[..8] != plain[..8] { setf(&mut fail, format!("rtcp {}: first 8 bytes must stay clear", k)); }
                // E-bit set and 31-bit index strictly increasing
                let ix_off = if p.gcm { raw.len() - 4 } else { raw.len() - p.rtcp_tag - 4 };
                let w = u32::from_be_bytes([raw[ix_off], raw[ix_off + 1], raw[ix_off + 2], raw[ix_off + 3]]);
                if w & 0x8000_0000 == 0 { setf(&mut fail, format!("rtcp {}: E bit not set on an encrypted packet", k)); }
                let ix = w & 0x7FFF_FFFF;
                if let Some(pi) = prev_index { if ix <= pi { setf(&mut fail, format!("rtcp {}: SRTCP index {} not above the previous {}", k, ix, pi)); } }
                if prev_index.is_none() && ix != 1 { setf(&mut fail, format!("rtcp {}: first SRTCP index is {} (expected 1)", k, ix)); }
                prev_index = Some(ix);
                match sess_unprotect_rtcp(&mut rx, &raw) {
                    R::Ok(got) => if got != plain { setf(&mut fail, format!("rtcp {}: unprotect_rtcp(protect_rtcp(p)) != p", k)); },
                    other => setf(&mut fail, format!("rtcp {}: unprotect_rtcp(protect_rtcp(p)) returned {}", k, other.class())),
                }
                if let Some(w) = wrx.as_mut() {
                    match w.decrypt_rtcp(&raw) {
                        Ok(b) => if b.to_vec() != plain { setf(&mut fail, format!("rtcp {}: webrtc-srtp decoded rustrtc's SRTCP packet to different bytes", k)); },
                        Err(e) => setf(&mut fail, format!("rtcp {}: webrtc-srtp refused rustrtc's SRTCP packet: {}", k, e)),
                    }
                }
                if let Some(w) = wtx.as_mut() {
                    match w.encrypt_rtcp(&plain) {
                        Ok(enc) => {
                            if enc.to_vec() != raw { setf(&mut fail, format!("rtcp {}: webrtc-srtp and rustrtc produce different SRTCP bytes for the same packet, keys and index", k)); }
                            let mut rx3 = SrtpSession::new(p.r, km.clone(), km.clone()).unwrap();
                            match sess_unprotect_rtcp(&mut rx3, &enc) {
                                R::Ok(got) => if got != plain { setf(&mut fail, format!("rtcp {}: rustrtc decoded webrtc-srtp's SRTCP packet to different bytes", k)); },
                                other => setf(&mut fail, format!("rtcp {}: rustrtc refused webrtc-srtp's SRTCP packet: {}", k, other.class())),
                            }
                        }
                        Err(e) => setf(&mut fail, format!("rtcp {}: webrtc-srtp cannot protect the reference packet: {}", k, e)),
                    }
                }
            }
            other => setf(&mut fail, format!("rtcp {}: protect_rtcp returned {}", k, other.class())),
        }
    }
    (json!({"kind": "rtcp-oracle", "profile": p.name, "lens": lens, "key": hex(&km.master_key), "salt": hex(&km.master_salt)}), fail, format!("{}|rtcp|{:?}", p.name, lens))
}

/// sessions with many SSRCs interleaved: every stream round-trips independently of the others
fn oracle_multi_ssrc(r: &mut Rng, p: &Prof) -> (serde_json::Value, Option<String>, String) {
    let km = keying(r, p);
    let mut tx = SrtpSession::new(p.r, km.clone(), km.clone()).unwrap();
    let mut rx = SrtpSession::new(p.r, km.clone(), km.clone()).unwrap();
    let n = *r.pick(&[1usize, 2, 3, 8, 32, 33, 40]);
    let ssrcs: Vec<u32> = (0..n).map(|k| (r.next() as u32 & 0xFFFF_FF00) | k as u32).collect();
    let mut idx: Vec<u64> = (0..n).map(|_| *r.pick(&[0u64, 65000, 65535, 30000])).collect();
    let mut fail: Option<String> = None;
    let rounds = r.range(3, 8);
    for round in 0..rounds {
        let mut batch = vec![];
        for s in 0..n {
            idx[s] += *r.pick(&[1u64, 1, 600, 32767]);
            let pk = small_packet(r, ssrcs[s], (idx[s] % 65536) as u16);
            match sess_protect(&mut tx, &pk) { R::Ok(raw) => batch.push((s, pk, raw)), other => { fail.get_or_insert(format!("round {} ssrc#{}: protect returned {}", round, s, other.class())); } }
            if r.chance(1, 3) {
                let rr = gen_rtcp(r, ssrcs[s]);
                match sess_protect_rtcp(&mut tx, &rr) {
                    R::Ok(raw) => match sess_unprotect_rtcp(&mut rx, &raw) { R::Ok(g) if g == rr => {}, other => { fail.get_or_insert(format!("round {} ssrc#{}: SRTCP round trip gave {}", round, s, other.class())); } },
                    other => { fail.get_or_insert(format!("round {} ssrc#{}: protect_rtcp returned {}", round, s, other.class())); }
                }
            }
        }
        // deliver the batch in a shuffled order
        for k in (1..batch.len()).rev() { let j = r.below(k as u64 + 1) as usize; batch.swap(k, j); }
        for (s, pk, raw) in &batch {
            match sess_unprotect(&mut rx, raw) {
                R::Ok(got) if got == *pk => {}
                other => { fail.get_or_insert(format!("round {} ssrc#{} (index {}): session round trip gave {}", round, s, idx[*s], other.class())); }
            }
        }
    }
    (json!({"kind": "multi-ssrc", "profile": p.name, "ssrcs": n, "rounds": rounds}), fail, format!("{}|multi|{}|{:?}", p.name, n, idx))
}

// ---------------------------------------------------------------- byte-level scripts (model layout vs implementation)
fn layout_script(r: &mut Rng, p: &Prof, stats: &mut BTreeMap<String, u64>) -> (Case, bool) {
    let ssrc = r.next() as u32;
    let km = keying(r, p);
    // warm-up sequences bring both contexts to a non-zero rollover count without byte comparison
    let (warm, mut idx): (Vec<u16>, u64) = match r.below(4) {
        0 => (vec![], *r.pick(&[0u64, 1, 4660, 65533])),
        1 => (vec![0, 32767, 65534, 10], 65536 + 10),
        2 => (vec![65000, 32000, 64000, 30000, 62000, 5], 3 * 65536 + 5),
        _ => (vec![65535], 65535),
    };
    let mut ops = vec![];
    let n = r.range(1, 4) as usize;
    let mut sent_idx = vec![];
    let mut plan_idx: Vec<Option<u64>> = vec![];
    let mut nsent = 0usize;
    for _ in 0..n {
        if !(warm.is_empty() && sent_idx.is_empty()) { idx += *r.pick(&[1u64, 1, 2, 700, 32767]); }
        let mut pk = gen_packet(r, ssrc, (idx % 65536) as u16);
        if pk.payload.len() > 200 && !r.chance(1, 6) { let n = *r.pick(&[0usize, 1, 15, 16, 17, 33]); pk.payload = bytes::Bytes::from(r.bytes(n)); }
        *stats.entry(format!("layout_payload_{}", pk.payload.len())).or_default() += 1;
        ops.push(Op::TxRtp(pk, (idx / 65536) as u32));
        plan_idx.push(Some(idx));
        sent_idx.push(nsent);
        nsent += 1;
        if r.chance(1, 3) {
            let mut rr = gen_rtcp(r, ssrc);
            if rr.len() > 120 { rr.truncate(8 + 4 * r.range(0, 20) as usize); let w = (rr.len() / 4 - 1) as u16; rr[2..4].copy_from_slice(&w.to_be_bytes()); }
            ops.push(Op::TxRtcp(rr));
            plan_idx.push(None);
            sent_idx.push(nsent);
            nsent += 1;
        }
    }
    // deliver everything, adjacent swaps now and then, a duplicate at the end
    let mut order = sent_idx.clone();
    if order.len() > 1 && r.chance(1, 3) { let a = r.below(order.len() as u64 - 1) as usize; order.swap(a, a + 1); }
    if r.chance(1, 4) { order.push(order[0]); }
    for k in &order { ops.push(Op::RxGen(*k)); }
    let run = run_script(r, p, ssrc, &km, &warm, &ops);
    let mut fail: Option<String> = run.fails.first().cloned();
    // highest index the receiver has accepted (the warm-up ends at the index before the first packet)
    let mut hi: Option<u64> = if warm.is_empty() { None } else { Some(match warm.len() { 1 => 65535, 4 => 65536 + 10, _ => 3 * 65536 + 5 }) };
    for (i, (o, d)) in run.obs.iter().zip(run.delivered.iter()).enumerate() {
        if let (Some(o), Some(_)) = (o, d) {
            let Op::RxGen(k) = &ops[i] else { continue };
            let in_window = match (plan_idx[*k], hi) { (None, _) => true, (Some(j), None) => j < 65536, (Some(j), Some(h)) => (j as i64 - h as i64).unsigned_abs() < W };
            match &o.res {
                R::Ok(got) => {
                    if *got != run.plain[*k] { fail.get_or_insert(format!("op {}: datagram {} decoded to something else than what was protected", i, k)); }
                    if let Some(j) = plan_idx[*k] { hi = Some(hi.map_or(j, |h| h.max(j))); }
                }
                R::Panic(m) => { fail.get_or_insert(format!("op {}: panic: {}", i, m)); }
                other => if in_window { fail.get_or_insert(format!("op {}: genuine datagram {} inside the window returned {}", i, k, other.class())); }
            }
        }
    }
    let roc_nonzero = !warm.is_empty() && warm.len() > 1;
    (Case { term: format!("SessC ({})", run.term),
        desc: json!({"kind": "layout", "profile": p.name, "ssrc": ssrc, "key": hex(&km.master_key), "salt": hex(&km.master_salt), "warm": warm,
            "ops": ops.iter().map(|o| match o { Op::TxRtp(pk, roc) => json!({"tx_rtp": pkt_json(pk), "roc": roc}), Op::TxRtcp(b) => json!({"tx_rtcp": hex(b)}), Op::RxGen(k) => json!({"rx": k}), _ => json!(null) }).collect::<Vec<_>>() }),
        oracle_fail: fail, known: None, nontrivial: true,
        key: format!("{}|layout|{}|{:?}|{:?}", p.name, ssrc, warm, order), kind: "layout".into() }, roc_nonzero)
}

/// F23 on the sending side, replayed on the real code (thorough tier: needs 61 s of wall clock):
/// a stream reaches ROC 1, the session then sends on 33 other SSRCs, the first stream stays idle for
/// `idle` seconds, one more SSRC triggers the eviction; the stream's next packet is then protected
/// with ROC 0.  Receivers: a rustrtc SrtpContext and webrtc-srtp that saw the stream only.
fn tx_eviction_replay(idle_secs: u64) -> (bool, bool) {
    let p = profiles()[0];
    let km = SrtpKeyingMaterial::new((1..=16).collect(), (1..=14).collect());
    let ssrc = 0x0BAD_CAFEu32;
    let mut tx = SrtpSession::new(p.r, km.clone(), km.clone()).unwrap();
    let mut rx = SrtpContext::new(ssrc, p.r, km.clone(), SrtpDirection::Receiver).unwrap();
    let mut wrx = webrtc_srtp::context::Context::new(&km.master_key, &km.master_salt, p.w.unwrap(), None, None).unwrap();
    let mk = |ssrc: u32, s: u16| RtpPacket::new(rustrtc::rtp::RtpHeader::new(96, s, 0, ssrc), vec![1, 2, 3]);
    for s in [0u16, 32767, 65534, 10] {
        let R::Ok(raw) = sess_protect(&mut tx, &mk(ssrc, s)) else { return (false, false) };
        let _ = ctx_unprotect(&mut rx, &raw);
        let _ = wrx.decrypt_rtp(&raw);
    }
    for k in 0..32u32 { let _ = sess_protect(&mut tx, &mk(0x6000_0000 + k, 1)); }
    std::thread::sleep(std::time::Duration::from_secs(idle_secs));
    let _ = sess_protect(&mut tx, &mk(0x6000_0000 + 32, 1));
    let R::Ok(raw) = sess_protect(&mut tx, &mk(ssrc, 11)) else { return (false, false) };
    (ctx_unprotect(&mut rx, &raw).is_ok(), wrx.decrypt_rtp(&raw).is_ok())
}

fn main() {
    let args = parse_args();
    silence_panics();
    let thorough = args.tier == "thorough";
    let evict = if thorough { Some(std::thread::spawn(|| (tx_eviction_replay(61), tx_eviction_replay(1)))) } else { None };
    let mut out = Out::new(&args.out);
    let mut r = Rng::new(args.seed);
    let profs = profiles();
    let mut stats: BTreeMap<String, u64> = BTreeMap::new();
    let mut wraps: BTreeMap<u64, u64> = BTreeMap::new();
    let mut reordered = 0u64;

    // ---- corpus first
    for plan in corpus_hists() {
        for p in &profs {
            let h = run_hist(&mut r, p, &plan);
            out.push(Case { term: h.term, desc: h.desc, oracle_fail: h.fail, known: None, nontrivial: true,
                key: format!("corpus|{}|{:?}|{:?}", p.name, plan.sent, plan.order), kind: "corpus".into() });
        }
    }
    // ---- sequence histories
    let nh = if thorough { 6000 } else { 1600 };
    for n in 0..nh {
        let plan = gen_hist(&mut r, thorough && n % 4 == 0);
        let p = &profs[n % profs.len()];
        let h = run_hist(&mut r, p, &plan);
        *wraps.entry(h.wraps.min(20)).or_default() += 1;
        if h.reordered { reordered += 1; }
        out.push(Case { term: h.term, desc: h.desc, oracle_fail: h.fail, known: None, nontrivial: h.wraps > 0 || h.reordered,
            key: format!("{}|{:?}|{:?}", p.name, plan.sent, plan.order), kind: "history".into() });
    }
    // ---- byte-level layout scripts (model with interpreted crypto terms vs implementation vs RFC reference)
    let nl = if thorough { 1600 } else { 440 };
    let mut roc_nz = 0u64;
    for n in 0..nl {
        let p = &profs[n % profs.len()];
        let (c, nz) = layout_script(&mut r, p, &mut stats);
        if nz { roc_nz += 1; }
        out.push(c);
    }
    stats.insert("layout_scripts_with_nonzero_roc".into(), roc_nz);
    // ---- single packets, SRTCP, multi-SSRC sessions: direct oracle
    let np = if thorough { 20000 } else { 2400 };
    for n in 0..np {
        let p = &profs[n % profs.len()];
        let (desc, fail, key) = oracle_packet(&mut r, p, &mut stats);
        out.push(Case { term: "-".into(), desc, oracle_fail: fail, known: None, nontrivial: true, key, kind: "rtp-roundtrip-interop".into() });
    }
    let nr = if thorough { 8000 } else { 1200 };
    for n in 0..nr {
        let p = &profs[n % profs.len()];
        let (desc, fail, key) = oracle_rtcp(&mut r, p, &mut stats);
        out.push(Case { term: "-".into(), desc, oracle_fail: fail, known: None, nontrivial: true, key, kind: "rtcp-roundtrip-interop".into() });
    }
    let nm = if thorough { 600 } else { 120 };
    for n in 0..nm {
        let p = &profs[n % profs.len()];
        let (desc, fail, key) = oracle_multi_ssrc(&mut r, p);
        out.push(Case { term: "-".into(), desc, oracle_fail: fail, known: None, nontrivial: true, key, kind: "multi-ssrc".into() });
    }
    if let Some(h) = evict {
        let ((a, w), (a1, w1)) = h.join().unwrap();
        out.push(Case { term: "-".into(), desc: json!({"kind": "tx-eviction-replay", "idle_s": 61, "accepted_by_rustrtc_receiver": a, "accepted_by_webrtc_srtp": w}),
            oracle_fail: None, known: if !a && !w { Some("tx_table_pressure_eviction".into()) } else { None }, nontrivial: true, key: "tx-eviction-61".into(), kind: "eviction-replay".into() });
        out.push(Case { term: "-".into(), desc: json!({"kind": "tx-eviction-replay", "idle_s": 1, "accepted_by_rustrtc_receiver": a1, "accepted_by_webrtc_srtp": w1}),
            oracle_fail: if a1 && w1 { None } else { Some("34 sending SSRCs without the 60 s idle period already break the first stream".into()) },
            known: None, nontrivial: true, key: "tx-eviction-1".into(), kind: "eviction-replay".into() });
    }
    out.finish(json!({"generator": {"histories": nh, "histories_by_wraps(max epoch, capped at 20)": wraps, "histories_with_reordering": reordered,
        "packet_shapes": stats, "profiles": profs.iter().map(|p| p.name).collect::<Vec<_>>() }}));
}
