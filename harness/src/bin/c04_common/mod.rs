//! Shared by c04.rs and c05.rs: profile table, key / packet generators, thin wrappers around the
//! public SrtpContext / SrtpSession API (panics become observable results), an RFC-derived
//! reference of the SRTP byte layout used to interpret the model's symbolic crypto terms.
#![allow(dead_code)]
use bytes::BytesMut;
use rustrtc::rtp::{RtpHeader, RtpHeaderExtension, RtpPacket};
use rustrtc::srtp::*;
use vh::*;
use webrtc_srtp::protection_profile::ProtectionProfile as WProf;

#[derive(Clone, Copy)]
pub struct Prof {
    pub r: SrtpProfile,
    pub w: Option<WProf>,
    pub name: &'static str,
    pub coq: &'static str,
    pub tag: usize,
    pub rtcp_tag: usize,
    pub salt: usize,
    pub gcm: bool,
    pub null: bool,
}

pub fn profiles() -> Vec<Prof> {
    vec![
        Prof { r: SrtpProfile::Aes128Sha1_80, w: Some(WProf::Aes128CmHmacSha1_80), name: "AES_CM_128_HMAC_SHA1_80", coq: "SrtpProfile_Aes128Sha1_80", tag: 10, rtcp_tag: 10, salt: 14, gcm: false, null: false },
        Prof { r: SrtpProfile::Aes128Sha1_32, w: Some(WProf::Aes128CmHmacSha1_32), name: "AES_CM_128_HMAC_SHA1_32", coq: "SrtpProfile_Aes128Sha1_32", tag: 4, rtcp_tag: 10, salt: 14, gcm: false, null: false },
        Prof { r: SrtpProfile::AeadAes128Gcm, w: Some(WProf::AeadAes128Gcm), name: "AEAD_AES_128_GCM", coq: "SrtpProfile_AeadAes128Gcm", tag: 16, rtcp_tag: 16, salt: 12, gcm: true, null: false },
        Prof { r: SrtpProfile::NullCipherHmac, w: None, name: "NULL_HMAC_SHA1_80", coq: "SrtpProfile_NullCipherHmac", tag: 10, rtcp_tag: 10, salt: 14, gcm: false, null: true },
    ]
}

pub fn keying(r: &mut Rng, p: &Prof) -> SrtpKeyingMaterial {
    match r.below(8) {
        0 => SrtpKeyingMaterial::new(vec![0; 16], vec![0; p.salt]),
        1 => SrtpKeyingMaterial::new(vec![0xFF; 16], vec![0xFF; p.salt]),
        _ => SrtpKeyingMaterial::new(r.bytes(16), r.bytes(p.salt)),
    }
}

/// rollover counter of a context, read through its public Debug impl
pub fn roc_of(ctx: &SrtpContext) -> u32 {
    let s = format!("{:?}", ctx);
    let k = s.find("rollover_counter: ").expect("Debug output of SrtpContext lost rollover_counter");
    s[k + 18..].chars().take_while(|c| c.is_ascii_digit()).collect::<String>().parse().unwrap()
}

#[derive(Clone, Debug, PartialEq)]
pub enum R<T> {
    Ok(T),
    Err(&'static str),
    Panic(String),
}
impl<T> R<T> {
    pub fn is_ok(&self) -> bool { matches!(self, R::Ok(_)) }
    pub fn class(&self) -> String {
        match self { R::Ok(_) => "Ok".into(), R::Err(e) => format!("Err({})", e), R::Panic(m) => format!("Panic({})", m) }
    }
    /// Gallina `res` constructor name (payload rendered by the caller)
    pub fn coq_err(&self) -> String {
        match self {
            R::Ok(_) => unreachable!(),
            R::Err("TooShort") => "XErr ETooShort".into(),
            R::Err("Auth") => "XErr EAuth".into(),
            R::Err("Unsupported") => "XErr EUnsupported".into(),
            R::Err(_) => "XErr EInternal".into(),
            R::Panic(_) => "XPanic".into(),
        }
    }
}

pub fn err_class(e: &rustrtc::errors::SrtpError) -> &'static str {
    use rustrtc::errors::SrtpError::*;
    match e {
        UnsupportedProfile => "Unsupported",
        PacketTooShort => "TooShort",
        AuthenticationFailed => "Auth",
        Internal(_) => "Internal",
    }
}

pub fn ctx_protect(ctx: &mut SrtpContext, pkt: &RtpPacket) -> R<Vec<u8>> {
    let n = ctx.protected_rtp_len(pkt);
    let mut out = vec![0u8; n];
    let r = catch(std::panic::AssertUnwindSafe(|| ctx.protect(pkt, &mut out)));
    match r {
        Ok(Ok(())) => R::Ok(out),
        Ok(Err(e)) => R::Err(err_class(&e)),
        Err(m) => R::Panic(m),
    }
}

/// SrtpPacket::parse + SrtpContext::unprotect; a header that does not parse is "Parse"
pub fn ctx_unprotect(ctx: &mut SrtpContext, raw: &[u8]) -> R<RtpPacket> {
    let r = catch(std::panic::AssertUnwindSafe(|| {
        let sp = match SrtpPacket::parse(BytesMut::from(raw)) { Ok(sp) => sp, Err(_) => return Err("Parse") };
        ctx.unprotect(sp).map_err(|e| err_class(&e))
    }));
    match r {
        Ok(Ok(p)) => R::Ok(p),
        Ok(Err(e)) => R::Err(e),
        Err(m) => R::Panic(m),
    }
}

pub fn ctx_protect_rtcp(ctx: &mut SrtpContext, pkt: &[u8]) -> R<Vec<u8>> {
    let mut v = pkt.to_vec();
    let r = catch(std::panic::AssertUnwindSafe(|| ctx.protect_rtcp(&mut v)));
    match r { Ok(Ok(())) => R::Ok(v), Ok(Err(e)) => R::Err(err_class(&e)), Err(m) => R::Panic(m) }
}
pub fn ctx_unprotect_rtcp(ctx: &mut SrtpContext, pkt: &[u8]) -> R<Vec<u8>> {
    let mut v = pkt.to_vec();
    let r = catch(std::panic::AssertUnwindSafe(|| ctx.unprotect_rtcp(&mut v)));
    match r { Ok(Ok(())) => R::Ok(v), Ok(Err(e)) => R::Err(err_class(&e)), Err(m) => R::Panic(m) }
}

pub fn sess_protect(s: &mut SrtpSession, pkt: &RtpPacket) -> R<Vec<u8>> {
    let n = s.protected_rtp_len(pkt);
    let mut out = vec![0u8; n];
    let r = catch(std::panic::AssertUnwindSafe(|| s.protect_rtp(pkt, &mut out)));
    match r { Ok(Ok(())) => R::Ok(out), Ok(Err(e)) => R::Err(err_class(&e)), Err(m) => R::Panic(m) }
}
pub fn sess_unprotect(s: &mut SrtpSession, raw: &[u8]) -> R<RtpPacket> {
    let r = catch(std::panic::AssertUnwindSafe(|| {
        let sp = match SrtpPacket::parse(BytesMut::from(raw)) { Ok(sp) => sp, Err(_) => return Err("Parse") };
        s.unprotect_rtp(sp).map_err(|e| err_class(&e))
    }));
    match r { Ok(Ok(p)) => R::Ok(p), Ok(Err(e)) => R::Err(e), Err(m) => R::Panic(m) }
}
pub fn sess_protect_rtcp(s: &mut SrtpSession, pkt: &[u8]) -> R<Vec<u8>> {
    let mut v = pkt.to_vec();
    let r = catch(std::panic::AssertUnwindSafe(|| s.protect_rtcp(&mut v)));
    match r { Ok(Ok(())) => R::Ok(v), Ok(Err(e)) => R::Err(err_class(&e)), Err(m) => R::Panic(m) }
}
pub fn sess_unprotect_rtcp(s: &mut SrtpSession, pkt: &[u8]) -> R<Vec<u8>> {
    let mut v = pkt.to_vec();
    let r = catch(std::panic::AssertUnwindSafe(|| s.unprotect_rtcp(&mut v)));
    match r { Ok(Ok(())) => R::Ok(v), Ok(Err(e)) => R::Err(err_class(&e)), Err(m) => R::Panic(m) }
}

// ------------------------------------------------------------------ packet generators
pub const PAYLOAD_SIZES: &[usize] = &[0, 1, 3, 15, 16, 17, 31, 32, 33, 100, 160, 1200];

pub fn gen_ext(r: &mut Rng) -> Option<RtpHeaderExtension> {
    match r.below(7) {
        0 | 1 | 2 => None,
        3 => {
            // one-byte header elements (RFC 8285), padded to 32 bits
            let mut d = vec![];
            for _ in 0..r.range(1, 3) {
                let len = r.range(1, 4) as usize;
                d.push(((r.range(1, 14) as u8) << 4) | (len as u8 - 1));
                d.extend(r.bytes(len));
            }
            while d.len() % 4 != 0 { d.push(0); }
            Some(RtpHeaderExtension::new(0xBEDE, d))
        }
        4 => {
            let mut d = vec![];
            for _ in 0..r.range(1, 2) {
                let len = r.range(0, 5) as usize;
                d.push(r.range(1, 200) as u8);
                d.push(len as u8);
                d.extend(r.bytes(len));
            }
            while d.len() % 4 != 0 { d.push(0); }
            Some(RtpHeaderExtension::new(0x1000, d))
        }
        5 => { let n = 4 * r.range(0, 3) as usize; let prof = r.next() as u16 | 0x4000; Some(RtpHeaderExtension::new(prof, r.bytes(n))) }
        _ => Some(RtpHeaderExtension::new(0xBEDE, vec![])),
    }
}

pub fn gen_packet(r: &mut Rng, ssrc: u32, seq: u16) -> RtpPacket {
    let mut h = RtpHeader::new(r.below(128) as u8, seq, r.next() as u32, ssrc);
    h.marker = r.chance(1, 3);
    let ncsrc = *r.pick(&[0usize, 0, 0, 1, 2, 15]);
    h.csrcs = (0..ncsrc).map(|_| r.next() as u32).collect();
    h.extension = gen_ext(r);
    let n = *r.pick(PAYLOAD_SIZES);
    let mut p = RtpPacket::new(h, r.bytes(n));
    p.padding_len = *r.pick(&[0u8, 0, 0, 1, 4, 255]);
    p
}

pub fn small_packet(r: &mut Rng, ssrc: u32, seq: u16) -> RtpPacket {
    let h = RtpHeader::new(96, seq, r.next() as u32, ssrc);
    let n = r.range(0, 6) as usize;
    RtpPacket::new(h, r.bytes(n))
}

pub fn gen_rtcp(r: &mut Rng, ssrc: u32) -> Vec<u8> {
    // RR without report blocks (8 bytes), SR, or a compound of them with extra words
    let mut out = vec![];
    let kind = r.below(5);
    let push = |out: &mut Vec<u8>, pt: u8, count: u8, ssrc: u32, body: &[u8]| {
        let words = (4 + body.len()) / 4;
        out.push(0x80 | count);
        out.push(pt);
        out.extend_from_slice(&(words as u16).to_be_bytes());
        out.extend_from_slice(&ssrc.to_be_bytes());
        out.extend_from_slice(body);
    };
    match kind {
        0 => push(&mut out, 201, 0, ssrc, &[]),
        1 => push(&mut out, 200, 0, ssrc, &r.bytes(20)),
        2 => { push(&mut out, 201, 1, ssrc, &r.bytes(24)); push(&mut out, 202, 1, ssrc, &[1, 2, b'h', b'i', 0, 0, 0, 0]); }
        3 => { let n = 4 * r.range(0, 290) as usize; push(&mut out, 204, 0, ssrc, &r.bytes(n)); }
        _ => push(&mut out, 205, 1, ssrc, &r.bytes(8)),
    }
    out
}

pub fn hex(b: &[u8]) -> String {
    b.iter().map(|x| format!("{:02x}", x)).collect()
}

pub fn pkt_json(p: &RtpPacket) -> serde_json::Value {
    serde_json::json!({"pt": p.header.payload_type, "marker": p.header.marker, "seq": p.header.sequence_number,
        "ts": p.header.timestamp, "ssrc": p.header.ssrc, "csrcs": p.header.csrcs,
        "ext": p.header.extension.as_ref().map(|e| serde_json::json!({"profile": e.profile, "data": hex(&e.data)})),
        "payload": hex(&p.payload), "padding_len": p.padding_len})
}

// ------------------------------------------------------------------ Gallina rendering
pub fn hdr_term(h: &RtpHeader) -> String {
    format!("(mkHdr {} {} {} {} {} {} {})", bool_term(h.marker), h.payload_type, h.sequence_number, h.timestamp, h.ssrc,
        zlist(h.csrcs.iter().map(|x| *x as i128)),
        opt_term(h.extension.as_ref().map(|e| format!("(mkExt {} {})", e.profile, bytes_term(&e.data)))))
}
pub fn rtp_term(p: &RtpPacket) -> String {
    format!("(mkRtp {} {} {})", hdr_term(&p.header), bytes_term(&p.payload), p.padding_len)
}

// ------------------------------------------------------------------ RFC-derived reference
// Written from RFC 3711 (4.1.1, 4.3), RFC 7714 (8.1, 9.1, 11) with integer arithmetic on the
// 128-bit IV, raw AES block encryptions for AES-CM, and the hmac / aes-gcm crates. It serves two
// purposes: (1) a third opinion on rustrtc's bytes, (2) it records every primitive evaluation in
// `Tables`, which is how the Coq model's symbolic crypto terms are interpreted.
#[derive(Default, Clone)]
pub struct Tables {
    pub ks: Vec<(Vec<u8>, Vec<u8>, Vec<u8>)>,
    pub mac: Vec<(Vec<u8>, Vec<u8>, Vec<u8>)>,
    pub seal: Vec<(Vec<u8>, Vec<u8>, Vec<u8>, Vec<u8>, Vec<u8>)>,
}

impl Tables {
    pub fn term(&self) -> String {
        let t3 = |v: &Vec<(Vec<u8>, Vec<u8>, Vec<u8>)>| list_term(&v.iter().map(|(a, b, c)| format!("({}, {}, {})", bytes_term(a), bytes_term(b), bytes_term(c))).collect::<Vec<_>>());
        let t5 = list_term(&self.seal.iter().map(|(a, b, c, d, e)| format!("({}, {}, {}, {}, {})", bytes_term(a), bytes_term(b), bytes_term(c), bytes_term(d), bytes_term(e))).collect::<Vec<_>>());
        format!("(mkTables {} {} {})", t3(&self.ks), t3(&self.mac), t5)
    }
}

pub fn aes_cm_stream(key: &[u8], iv: u128, n: usize) -> Vec<u8> {
    use aes::cipher::{BlockCipherEncrypt, KeyInit};
    let k: [u8; 16] = key[..16].try_into().unwrap();
    let c = aes::Aes128::new(&k.into());
    let mut out = Vec::with_capacity(n + 16);
    let mut ctr = iv;
    while out.len() < n {
        let mut b = aes::cipher::Block::<aes::Aes128>::from(ctr.to_be_bytes());
        c.encrypt_block(&mut b);
        out.extend_from_slice(&b);
        ctr = ctr.wrapping_add(1);
    }
    out.truncate(n);
    out
}

pub fn hmac_sha1(key: &[u8], msg: &[u8]) -> Vec<u8> {
    use hmac::{Hmac, KeyInit, Mac};
    let mut m = <Hmac<sha1::Sha1> as KeyInit>::new_from_slice(key).unwrap();
    m.update(msg);
    m.finalize().into_bytes().to_vec()
}

pub fn gcm_seal(key: &[u8], nonce: &[u8], aad: &[u8], pt: &[u8]) -> Vec<u8> {
    use aes_gcm::aead::{Aead, KeyInit, Payload};
    let c = aes_gcm::Aes128Gcm::new_from_slice(key).unwrap();
    c.encrypt(aes_gcm::Nonce::from_slice(nonce), Payload { msg: pt, aad }).unwrap()
}

fn be_int(b: &[u8]) -> u128 {
    b.iter().fold(0u128, |a, x| (a << 8) | *x as u128)
}

#[derive(Clone)]
pub struct RefKeys {
    pub cipher: Vec<u8>,
    pub auth: Vec<u8>,
    pub salt: Vec<u8>,
}

pub struct Reference {
    pub p: Prof,
    pub ssrc: u32,
    pub rtp: RefKeys,
    pub rtcp: RefKeys,
    pub t: Tables,
}

impl Reference {
    fn ks(&mut self, key: &[u8], iv: u128, n: usize) -> Vec<u8> {
        let ivb = iv.to_be_bytes().to_vec();
        if let Some(e) = self.t.ks.iter_mut().find(|e| e.0 == key && e.1 == ivb) {
            if e.2.len() < n { e.2 = aes_cm_stream(key, iv, n); }
            return e.2[..n].to_vec();
        }
        let s = aes_cm_stream(key, iv, n);
        self.t.ks.push((key.to_vec(), ivb, s.clone()));
        s
    }
    fn mac(&mut self, key: &[u8], msg: &[u8]) -> Vec<u8> {
        let m = hmac_sha1(key, msg);
        if !self.t.mac.iter().any(|e| e.0 == key && e.1 == msg) { self.t.mac.push((key.to_vec(), msg.to_vec(), m.clone())); }
        m
    }
    fn seal(&mut self, key: &[u8], nonce: &[u8], aad: &[u8], pt: &[u8]) -> Vec<u8> {
        let o = gcm_seal(key, nonce, aad, pt);
        if !self.t.seal.iter().any(|e| e.0 == key && e.1 == nonce && e.2 == aad && e.3 == pt) {
            self.t.seal.push((key.to_vec(), nonce.to_vec(), aad.to_vec(), pt.to_vec(), o.clone()));
        }
        o
    }

    /// RFC 3711 4.3.1 with key_derivation_rate 0: x = (label * 2^48) XOR master_salt (112 bits; a 96-bit
    /// GCM salt is first padded with 16 zero bits on the right, RFC 7714 11), IV = x * 2^16
    pub fn new(p: &Prof, ssrc: u32, mkey: &[u8], msalt: &[u8]) -> Reference {
        let mut r = Reference { p: *p, ssrc, rtp: RefKeys { cipher: vec![], auth: vec![], salt: vec![] }, rtcp: RefKeys { cipher: vec![], auth: vec![], salt: vec![] }, t: Tables::default() };
        let salt112 = if msalt.len() >= 14 { be_int(&msalt[..14]) } else { be_int(msalt) << (8 * (14 - msalt.len())) };
        let mut kdf = |r: &mut Reference, label: u8, n: usize| -> Vec<u8> {
            let x = salt112 ^ ((label as u128) << 48);
            r.ks(&mkey[..16], x << 16, n)
        };
        let auth = if p.gcm { 0 } else { 20 };
        r.rtp.cipher = kdf(&mut r, 0, 16);
        if auth > 0 { r.rtp.auth = kdf(&mut r, 1, auth); }
        r.rtp.salt = kdf(&mut r, 2, p.salt);
        r.rtcp.cipher = kdf(&mut r, 3, 16);
        if auth > 0 { r.rtcp.auth = kdf(&mut r, 4, auth); }
        r.rtcp.salt = kdf(&mut r, 5, p.salt);
        r
    }

    /// plain = marshalled RTP packet (header || payload || padding), hl = header length
    pub fn protect_rtp(&mut self, plain: &[u8], hl: usize, seq: u16, roc: u32) -> Vec<u8> {
        let k = self.rtp.clone();
        let index = ((roc as u128) << 16) | seq as u128;
        if self.p.gcm {
            let iv = ((self.ssrc as u128) << 48 | (roc as u128) << 16 | seq as u128) ^ be_int(&k.salt[..12]);
            let nonce = iv.to_be_bytes()[4..].to_vec();
            let mut out = plain[..hl].to_vec();
            let ct = self.seal(&k.cipher, &nonce, &plain[..hl], &plain[hl..]);
            out.extend_from_slice(&ct);
            out
        } else {
            let mut out = plain.to_vec();
            if !self.p.null && plain.len() > hl {
                let iv = (be_int(&k.salt[..14]) << 16) ^ ((self.ssrc as u128) << 64) ^ (index << 16);
                let s = self.ks(&k.cipher, iv, plain.len() - hl);
                for (a, b) in out[hl..].iter_mut().zip(s.iter()) { *a ^= b; }
            }
            let mut m = out.clone();
            m.extend_from_slice(&roc.to_be_bytes());
            let tag = self.mac(&k.auth, &m);
            out.extend_from_slice(&tag[..self.p.tag]);
            out
        }
    }

    pub fn protect_rtcp(&mut self, plain: &[u8], index: u32) -> Vec<u8> {
        let k = self.rtcp.clone();
        let e_index = 0x8000_0000u32 | index;
        if self.p.gcm {
            let iv = ((self.ssrc as u128) << 48 | index as u128) ^ be_int(&k.salt[..12]);
            let nonce = iv.to_be_bytes()[4..].to_vec();
            let mut aad = plain[..8].to_vec();
            aad.extend_from_slice(&e_index.to_be_bytes());
            let ct = self.seal(&k.cipher, &nonce, &aad, &plain[8..]);
            let mut out = plain[..8].to_vec();
            out.extend_from_slice(&ct);
            out.extend_from_slice(&e_index.to_be_bytes());
            out
        } else {
            let mut out = plain.to_vec();
            if plain.len() > 8 {
                // rustrtc encrypts SRTCP under every non-GCM profile, including its NULL-cipher profile
                let iv = (be_int(&k.salt[..14]) << 16) ^ ((self.ssrc as u128) << 64) ^ ((index as u128) << 16);
                let s = self.ks(&k.cipher, iv, plain.len() - 8);
                for (a, b) in out[8..].iter_mut().zip(s.iter()) { *a ^= b; }
            }
            out.extend_from_slice(&e_index.to_be_bytes());
            let tag = self.mac(&k.auth, &out.clone());
            out.extend_from_slice(&tag[..self.p.rtcp_tag]);
            out
        }
    }
}

// ------------------------------------------------------------------ scripts
#[derive(Clone, Debug)]
pub enum Op {
    /// packet, rollover count the plan expects the sender to use
    TxRtp(RtpPacket, u32),
    TxRtcp(Vec<u8>),
    RxGen(usize),
    RxFlip(usize, usize),
    RxTrunc(usize, usize),
    RxRawRtp(Vec<u8>),
    RxRawRtcp(Vec<u8>),
}

#[derive(Clone, Debug, PartialEq)]
pub enum RxOut {
    Rtp(RtpPacket),
    Rtcp(Vec<u8>),
}

#[derive(Clone, Debug)]
pub struct RxObs {
    pub res: R<RxOut>,
    pub roc: u32,
    pub rtcp_index: u32,
}

pub struct ScriptRun {
    pub term: String,
    /// (is_rtcp, datagram) of every successful Tx op, in order
    pub sent: Vec<(bool, Vec<u8>)>,
    /// plaintext behind each sent datagram
    pub plain: Vec<RxOut>,
    /// one entry per op: None for Tx ops
    pub obs: Vec<Option<RxObs>>,
    /// the datagram each Rx op delivered
    pub delivered: Vec<Option<(bool, Vec<u8>)>>,
    pub fails: Vec<String>,
    pub rx: SrtpContext,
}

/// SRTCP index of a context, observed by letting a clone protect one packet
pub fn rtcp_index_of(ctx: &SrtpContext, p: &Prof) -> u32 {
    let mut c = ctx.clone();
    let mut v = vec![0x80u8, 201, 0, 1, 0, 0, 0, 0];
    let r = catch(std::panic::AssertUnwindSafe(|| c.protect_rtcp(&mut v)));
    if !matches!(r, Ok(Ok(()))) { return u32::MAX; }
    let off = if p.gcm { v.len() - 4 } else { v.len() - p.rtcp_tag - 4 };
    let w = u32::from_be_bytes([v[off], v[off + 1], v[off + 2], v[off + 3]]);
    (w & 0x7FFF_FFFF).wrapping_sub(1) & 0x7FFF_FFFF
}

pub fn flip(d: &[u8], bit: usize) -> Vec<u8> {
    let mut v = d.to_vec();
    if bit / 8 < v.len() { v[bit / 8] ^= 0x80 >> (bit % 8); }
    v
}

fn rx_deliver(rx: &mut SrtpContext, p: &Prof, d: &(bool, Vec<u8>)) -> RxObs {
    let res = if d.0 {
        match ctx_unprotect_rtcp(rx, &d.1) { R::Ok(b) => R::Ok(RxOut::Rtcp(b)), R::Err(e) => R::Err(e), R::Panic(m) => R::Panic(m) }
    } else {
        match ctx_unprotect(rx, &d.1) { R::Ok(q) => R::Ok(RxOut::Rtp(q)), R::Err(e) => R::Err(e), R::Panic(m) => R::Panic(m) }
    };
    RxObs { res, roc: roc_of(rx), rtcp_index: rtcp_index_of(rx, p) }
}

fn xres_bytes(r: &R<Vec<u8>>) -> String {
    match r { R::Ok(b) => format!("(XOk {})", bytes_term(b)), other => format!("({})", other.coq_err()) }
}
fn robs_term(o: &RxObs) -> String {
    let r = match &o.res {
        R::Ok(RxOut::Rtp(p)) => format!("(XOk (ORtp {}))", rtp_term(p)),
        R::Ok(RxOut::Rtcp(b)) => format!("(XOk (ORtcp {}))", bytes_term(b)),
        R::Err("Parse") => "XParse".to_string(),
        other => format!("({})", other.coq_err()),
    };
    format!("({}, {}, {})", r, o.roc, o.rtcp_index)
}

/// Runs the script on the real implementation and on the reference; renders the `Sess` term.
pub fn run_script(r: &mut Rng, p: &Prof, ssrc: u32, km: &SrtpKeyingMaterial, warm: &[u16], ops: &[Op]) -> ScriptRun {
    let mut tx = SrtpContext::new(ssrc, p.r, km.clone(), SrtpDirection::Sender).unwrap();
    let mut rx = SrtpContext::new(ssrc, p.r, km.clone(), SrtpDirection::Receiver).unwrap();
    let mut reference = Reference::new(p, ssrc, &km.master_key, &km.master_salt);
    let mut fails = vec![];
    for &s in warm {
        let pk = small_packet(r, ssrc, s);
        match ctx_protect(&mut tx, &pk) {
            R::Ok(raw) => if !ctx_unprotect(&mut rx, &raw).is_ok() { fails.push(format!("warm-up packet seq {} refused", s)); },
            other => fails.push(format!("warm-up protect seq {}: {}", s, other.class())),
        }
    }
    let mut sent: Vec<(bool, Vec<u8>)> = vec![];
    let mut plain: Vec<RxOut> = vec![];
    let mut obs = vec![];
    let mut delivered = vec![];
    let mut terms = vec![];
    let mut rtcp_sent = 0u32;
    for op in ops {
        match op {
            Op::TxRtp(pk, roc) => {
                let out = ctx_protect(&mut tx, pk);
                if let R::Ok(raw) = &out {
                    let pl = pk.marshal().unwrap();
                    let hl = pl.len() - pk.payload.len() - pk.padding_len as usize;
                    let want = reference.protect_rtp(&pl, hl, pk.header.sequence_number, *roc);
                    if *raw != want { fails.push(format!("protect(seq {}, roc {}): rustrtc's bytes differ from the RFC reference", pk.header.sequence_number, roc)); }
                    sent.push((false, raw.clone()));
                    plain.push(RxOut::Rtp(pk.clone()));
                }
                terms.push(format!("TxRtp {} {} {}", rtp_term(pk), xres_bytes(&out), roc_of(&tx)));
                obs.push(None);
                delivered.push(None);
            }
            Op::TxRtcp(b) => {
                let out = ctx_protect_rtcp(&mut tx, b);
                if let R::Ok(raw) = &out {
                    rtcp_sent += 1;
                    if b.len() >= 8 {
                        let want = reference.protect_rtcp(b, rtcp_sent);
                        if *raw != want { fails.push(format!("protect_rtcp #{}: rustrtc's bytes differ from the RFC reference", rtcp_sent)); }
                    }
                    sent.push((true, raw.clone()));
                    plain.push(RxOut::Rtcp(b.clone()));
                }
                terms.push(format!("TxRtcp {} {}", bytes_term(b), xres_bytes(&out)));
                obs.push(None);
                delivered.push(None);
            }
            Op::RxGen(k) | Op::RxFlip(k, _) | Op::RxTrunc(k, _) => {
                let base = sent[*k].clone();
                let d = match op {
                    Op::RxGen(_) => base,
                    Op::RxFlip(_, bit) => (base.0, flip(&base.1, *bit)),
                    Op::RxTrunc(_, len) => (base.0, base.1[..(*len).min(base.1.len())].to_vec()),
                    _ => unreachable!(),
                };
                let o = rx_deliver(&mut rx, p, &d);
                terms.push(match op {
                    Op::RxGen(k) => format!("RxGen {} {}", k, robs_term(&o)),
                    Op::RxFlip(k, bit) => format!("RxFlip {} {} {}", k, bit, robs_term(&o)),
                    Op::RxTrunc(k, len) => format!("RxTrunc {} {} {}", k, len, robs_term(&o)),
                    _ => unreachable!(),
                });
                obs.push(Some(o));
                delivered.push(Some(d));
            }
            Op::RxRawRtp(raw) | Op::RxRawRtcp(raw) => {
                let is_rtcp = matches!(op, Op::RxRawRtcp(_));
                let d = (is_rtcp, raw.clone());
                let o = rx_deliver(&mut rx, p, &d);
                terms.push(format!("{} {} {}", if is_rtcp { "RxRawRtcp" } else { "RxRawRtp" }, bytes_term(raw), robs_term(&o)));
                obs.push(Some(o));
                delivered.push(Some(d));
            }
        }
    }
    let term = format!("Sess {} {} {} {} {} {} {}", p.coq, ssrc, bytes_term(&km.master_key), bytes_term(&km.master_salt),
        reference.t.term(), zlist(warm.iter().map(|x| *x as i128)), list_term(&terms));
    ScriptRun { term, sent, plain, obs, delivered, fails, rx }
}
