//! C05 — SRTP rejects forged packets and a rejection never disturbs receiver state.
//!
//! Real `SrtpContext` / `SrtpSession` through the public API:
//!  * flips   for base packets of several shapes and every profile: EVERY single-bit flip and EVERY
//!            truncation length of a protected RTP datagram and of a protected RTCP datagram is handed
//!            to a receiver between genuine deliveries;
//!  * mixed   random histories interleaving genuine traffic (wraps, reordering) with multi-bit
//!            forgeries: sequence numbers far ahead, forged SRTCP indices (incl. 0x7FFFFFFF), random
//!            bodies, re-tagged packets, truncated tags;
//!  * session SrtpSession with forged packets on live and on up to 60 fresh SSRCs; the F23 replay (33
//!            forged SSRCs, genuine context idle for 61 s of wall clock; must pass since the fix) runs in
//!            a background thread.
//! Direct oracle (independent of the model): a forged datagram returns an error and no packet, never
//! panics, leaves the rollover counter (Debug impl) and the SRTCP index (observed through a clone)
//! unchanged; a *shadow receiver* fed only the genuine datagrams returns identical results for them
//! and ends in the identical observable state.
//! Model comparison: every step's result class / decoded packet / rollover counter / SRTCP index
//! against Model/SrtpRun.v (crypto terms interpreted by tables from the RFC reference).
#[path = "c04_common/mod.rs"]
mod common;
use common::*;
use rustrtc::rtp::{RtpHeader, RtpHeaderExtension, RtpPacket};
use rustrtc::srtp::*;
use serde_json::json;
use std::collections::BTreeMap;
use vh::*;

fn op_json(o: &Op) -> serde_json::Value {
    match o {
        Op::TxRtp(pk, roc) => json!({"tx_rtp": pkt_json(pk), "roc": roc}),
        Op::TxRtcp(b) => json!({"tx_rtcp": hex(b)}),
        Op::RxGen(k) => json!({"rx_genuine": k}),
        Op::RxFlip(k, b) => json!({"rx_flip": [k, b]}),
        Op::RxTrunc(k, l) => json!({"rx_trunc": [k, l]}),
        Op::RxRawRtp(b) => json!({"rx_raw_rtp": hex(b)}),
        Op::RxRawRtcp(b) => json!({"rx_raw_rtcp": hex(b)}),
    }
}

/// the direct oracle over one script run; `genuine` = datagrams the key holder produced
fn oracle(p: &Prof, ssrc: u32, km: &SrtpKeyingMaterial, warm: &[u16], ops: &[Op], run: &ScriptRun, r: &mut Rng) -> Option<String> {
    let mut fail: Option<String> = run.fails.first().cloned();
    // shadow receiver: same keys, same warm-up, sees only the genuine deliveries
    let mut shadow = SrtpContext::new(ssrc, p.r, km.clone(), SrtpDirection::Receiver).unwrap();
    {
        let mut wtx = SrtpContext::new(ssrc, p.r, km.clone(), SrtpDirection::Sender).unwrap();
        for &s in warm {
            let pk = small_packet(r, ssrc, s);
            if let R::Ok(raw) = ctx_protect(&mut wtx, &pk) { let _ = ctx_unprotect(&mut shadow, &raw); }
        }
    }
    let mut prev: Option<(u32, u32)> = None; // observable state before the op
    let mut first = true;
    for (i, op) in ops.iter().enumerate() {
        let (Some(o), Some(d)) = (&run.obs[i], &run.delivered[i]) else { continue };
        if first {
            // state before the first delivery = state of the shadow right now
            prev = Some((roc_of(&shadow), rtcp_index_of(&shadow, p)));
            first = false;
        }
        let is_genuine = run.sent.iter().any(|g| g.0 == d.0 && g.1 == d.1);
        if let R::Panic(m) = &o.res { fail.get_or_insert(format!("op {} ({:?}): receive path panicked: {}", i, short(op), m)); }
        if is_genuine {
            // the shadow receiver must agree exactly
            let so = if d.0 {
                match ctx_unprotect_rtcp(&mut shadow, &d.1) { R::Ok(b) => R::Ok(RxOut::Rtcp(b)), R::Err(e) => R::Err(e), R::Panic(m) => R::Panic(m) }
            } else {
                match ctx_unprotect(&mut shadow, &d.1) { R::Ok(q) => R::Ok(RxOut::Rtp(q)), R::Err(e) => R::Err(e), R::Panic(m) => R::Panic(m) }
            };
            if so != o.res {
                fail.get_or_insert(format!("op {}: genuine datagram: receiver that also saw forgeries returned {} but the shadow receiver (genuine traffic only) returned {}", i, o.res.class(), so.class()));
            }
            let (sr, si) = (roc_of(&shadow), rtcp_index_of(&shadow, p));
            if (sr, si) != (o.roc, o.rtcp_index) {
                fail.get_or_insert(format!("op {}: after a genuine datagram the receiver state (roc {}, srtcp index {}) differs from the shadow receiver's (roc {}, srtcp index {})", i, o.roc, o.rtcp_index, sr, si));
            }
            if let R::Ok(got) = &o.res {
                let k = run.sent.iter().position(|g| g.0 == d.0 && g.1 == d.1).unwrap();
                if *got != run.plain[k] { fail.get_or_insert(format!("op {}: genuine datagram decoded to a different packet", i)); }
            }
        } else {
            if o.res.is_ok() { fail.get_or_insert(format!("op {} ({:?}): forged datagram was ACCEPTED", i, short(op))); }
            if let Some((pr, pi)) = prev {
                if pr != o.roc { fail.get_or_insert(format!("op {} ({:?}): rejected datagram changed the rollover counter {} -> {}", i, short(op), pr, o.roc)); }
                if pi != o.rtcp_index { fail.get_or_insert(format!("op {} ({:?}): rejected datagram changed the SRTCP index {} -> {}", i, short(op), pi, o.rtcp_index)); }
            }
        }
        if !o.res.is_ok() {
            if let Some((pr, pi)) = prev {
                if (pr, pi) != (o.roc, o.rtcp_index) { fail.get_or_insert(format!("op {} ({:?}): a datagram that returned {} changed the receiver state ({}, {}) -> ({}, {})", i, short(op), o.res.class(), pr, pi, o.roc, o.rtcp_index)); }
            }
        }
        prev = Some((o.roc, o.rtcp_index));
    }
    fail
}

fn rb(r: &mut Rng, lo: u64, hi: u64) -> Vec<u8> { let n = r.range(lo, hi) as usize; r.bytes(n) }

fn short(op: &Op) -> String {
    match op {
        Op::RxFlip(k, b) => format!("flip bit {} of datagram {}", b, k),
        Op::RxTrunc(k, l) => format!("datagram {} cut to {} bytes", k, l),
        Op::RxRawRtp(b) => format!("raw rtp {}", hex(&b[..b.len().min(24)])),
        Op::RxRawRtcp(b) => format!("raw rtcp {}", hex(&b[..b.len().min(24)])),
        Op::RxGen(k) => format!("genuine {}", k),
        _ => "tx".into(),
    }
}

fn base_packets(ssrc: u32, seq: u16) -> Vec<(&'static str, RtpPacket)> {
    let mut v = vec![];
    v.push(("plain", RtpPacket::new(RtpHeader::new(96, seq, 0x01020304, ssrc), vec![0xA1, 0xA2, 0xA3, 0xA4, 0xA5])));
    let mut h = RtpHeader::new(111, seq, 0xFFFFFFFF, ssrc);
    h.marker = true;
    h.csrcs = vec![0x11111111];
    h.extension = Some(RtpHeaderExtension::new(0xBEDE, vec![0x10, 0x55, 0, 0]));
    v.push(("csrc+ext", RtpPacket::new(h, vec![1, 2, 3])));
    let mut p = RtpPacket::new(RtpHeader::new(0, seq, 7, ssrc), vec![9, 8, 7, 6]);
    p.padding_len = 4;
    v.push(("padded", p));
    v.push(("empty", RtpPacket::new(RtpHeader::new(127, seq, 0, ssrc), vec![])));
    v
}

fn base_rtcp(ssrc: u32) -> Vec<(&'static str, Vec<u8>)> {
    let mut rr = vec![0x80, 201, 0, 1];
    rr.extend_from_slice(&ssrc.to_be_bytes());
    let mut sr = vec![0x80, 200, 0, 6];
    sr.extend_from_slice(&ssrc.to_be_bytes());
    sr.extend_from_slice(&[1, 2, 3, 4, 5, 6, 7, 8, 9, 10, 11, 12, 13, 14, 15, 16, 17, 18, 19, 20]);
    vec![("rr8", rr), ("sr28", sr)]
}

/// every bit flip and every truncation of datagram `k`
fn all_forgeries(k: usize, len: usize) -> Vec<Op> {
    let mut v = vec![];
    for b in 0..len * 8 { v.push(Op::RxFlip(k, b)); }
    for l in 0..len { v.push(Op::RxTrunc(k, l)); }
    v
}

struct Built { warm: Vec<u16>, ops: Vec<Op>, kind: String, shape: String }

fn flips_script(r: &mut Rng, p: &Prof, ssrc: u32, which: usize, rtcp: bool, warm_roc: bool) -> Built {
    let (warm, idx): (Vec<u16>, u64) = if warm_roc { (vec![0, 32767, 65534, 10], 65536 + 10) } else { (vec![], 0) };
    let seq0 = ((idx + 1) % 65536) as u16;
    let roc = ((idx + 1) / 65536) as u32;
    let mut ops = vec![];
    let shape;
    // datagram 0 : a genuine RTP packet accepted first; datagram 1 : the base under attack; datagram 2 : a later genuine one
    let p0 = small_packet(r, ssrc, seq0);
    ops.push(Op::TxRtp(p0, roc));
    let len;
    if rtcp {
        let (name, b) = base_rtcp(ssrc)[which % 2].clone();
        shape = format!("rtcp/{}", name);
        len = b.len() + 4 + p.rtcp_tag;
        ops.push(Op::TxRtcp(b));
    } else {
        let bp = base_packets(ssrc, seq0.wrapping_add(1));
        let (name, pk) = bp[which % bp.len()].clone();
        shape = format!("rtp/{}", name);
        len = pk.marshal().unwrap().len() + p.tag;
        ops.push(Op::TxRtp(pk, roc));
    }
    let p2 = small_packet(r, ssrc, seq0.wrapping_add(2));
    ops.push(Op::TxRtp(p2, roc));
    let rr = base_rtcp(ssrc)[0].1.clone();
    ops.push(Op::TxRtcp(rr)); // datagram 3
    ops.push(Op::RxGen(0));
    // half of the forgeries before the genuine base datagram has been seen, half after
    let f = all_forgeries(1, len);
    let (a, b) = f.split_at(f.len() / 2);
    ops.extend_from_slice(a);
    ops.push(Op::RxGen(1));
    ops.extend_from_slice(b);
    ops.push(Op::RxGen(2));
    ops.push(Op::RxGen(3));
    ops.push(Op::RxGen(1));
    Built { warm, ops, kind: "flips".into(), shape }
}

fn forge_rtp(r: &mut Rng, ssrc: u32, base: Option<&Vec<u8>>, p: &Prof, cur_seq: u16) -> Vec<u8> {
    match (r.below(6), base) {
        (0, Some(b)) => {
            // forged sequence number far ahead / behind (rollover attack), rest genuine
            let mut v = b.clone();
            let s = cur_seq.wrapping_add(*r.pick(&[1u16, 2, 100, 30000, 32767, 32768, 32769, 40000, 65535, 65000]));
            v[2..4].copy_from_slice(&s.to_be_bytes());
            v
        }
        (1, Some(b)) => { let mut v = b.clone(); let n = v.len(); for _ in 0..r.range(2, 6) { let i = r.below(n as u64) as usize; v[i] ^= r.range(1, 255) as u8; } v }
        (2, Some(b)) => { let mut v = b.clone(); let n = v.len(); let t = p.tag.min(n); for x in v[n - t..].iter_mut() { *x = r.next() as u8; } v }
        (3, Some(b)) => { let mut v = b.clone(); v.extend(rb(r, 1, 8)); v }
        (4, _) => {
            // well-formed header for this SSRC with a far-ahead sequence number and a random body
            let mut v = vec![0x80, 96];
            v.extend_from_slice(&cur_seq.wrapping_add(*r.pick(&[1u16, 3000, 32767, 32768, 50000])).to_be_bytes());
            v.extend(r.bytes(4));
            v.extend_from_slice(&ssrc.to_be_bytes());
            v.extend(rb(r, 0, 40));
            v
        }
        _ => rb(r, 0, 60),
    }
}

fn forge_rtcp(r: &mut Rng, ssrc: u32, base: Option<&Vec<u8>>, p: &Prof) -> Vec<u8> {
    match (r.below(5), base) {
        (0, Some(b)) | (1, Some(b)) => {
            // forged SRTCP index (far ahead, maximal, zero, E bit cleared), rest genuine
            let mut v = b.clone();
            let off = if p.gcm { v.len() - 4 } else { v.len() - p.rtcp_tag - 4 };
            let w: u32 = *r.pick(&[0xFFFF_FFFFu32, 0x7FFF_FFFF, 0x8000_0000, 0, 0x8000_FFFF, 0x8000_0002, 0xC000_0000]);
            v[off..off + 4].copy_from_slice(&w.to_be_bytes());
            v
        }
        (2, Some(b)) => { let mut v = b.clone(); let n = v.len(); for _ in 0..r.range(2, 6) { let i = r.below(n as u64) as usize; v[i] ^= r.range(1, 255) as u8; } v }
        (3, _) => {
            let mut v = vec![0x80, 201, 0, 1];
            v.extend_from_slice(&ssrc.to_be_bytes());
            v.extend(rb(r, 0, 30));
            v.extend_from_slice(&(*r.pick(&[0xFFFF_FFFFu32, 0x8000_0005])).to_be_bytes());
            if !p.gcm { v.extend(r.bytes(p.rtcp_tag)); }
            v
        }
        _ => rb(r, 0, 40),
    }
}

fn mixed_script(r: &mut Rng, p: &Prof, ssrc: u32, long: bool) -> Built {
    let (warm, mut idx): (Vec<u16>, u64) = match r.below(3) {
        0 => (vec![], *r.pick(&[0u64, 65000, 32760])),
        1 => (vec![0, 32767, 65534, 10], 65536 + 10),
        _ => (vec![65535], 65535),
    };
    let fresh = warm.is_empty();
    let n = if long { r.range(30, 90) } else { r.range(8, 36) };
    let mut ops = vec![];
    let mut sent: Vec<bool> = vec![]; // is_rtcp per datagram
    let mut last_rtp: Option<usize> = None;
    let mut last_rtcp: Option<usize> = None;
    let mut first = true;
    // datagram bytes are not known before the run: forged variants of genuine datagrams are expressed
    // with RxFlip / RxTrunc; raw forgeries are built from a locally protected twin of the stream
    let km_twin = SrtpKeyingMaterial::new(vec![0x42; 16], vec![0x24; p.salt]);
    let mut twin = SrtpContext::new(ssrc, p.r, km_twin, SrtpDirection::Sender).unwrap();
    let mut twin_last_rtp: Option<Vec<u8>> = None;
    let mut twin_last_rtcp: Option<Vec<u8>> = None;
    for _ in 0..n {
        let k = r.below(100);
        if k < 30 || last_rtp.is_none() {
            if !(first && fresh) { idx += *r.pick(&[1u64, 1, 1, 2, 9, 3000, 32767]); }
            first = false;
            let pk = small_packet(r, ssrc, (idx % 65536) as u16);
            if let R::Ok(raw) = ctx_protect(&mut twin, &pk) { twin_last_rtp = Some(raw); }
            ops.push(Op::TxRtp(pk, (idx / 65536) as u32));
            sent.push(false);
            let is_first_datagram = last_rtp.is_none();
            last_rtp = Some(sent.len() - 1);
            if is_first_datagram && r.chance(2, 3) {
                // forgeries reach the context before its first genuine packet
                for _ in 0..r.range(1, 3) {
                    if r.chance(1, 3) { ops.push(Op::RxFlip(sent.len() - 1, *r.pick(&[16usize, 17, 18, 31, 70, 100]))); }
                    else { ops.push(Op::RxRawRtp(forge_rtp(r, ssrc, twin_last_rtp.as_ref(), p, (idx % 65536) as u16))); }
                }
            }
            ops.push(Op::RxGen(sent.len() - 1));
        } else if k < 38 {
            let rr = gen_rtcp(r, ssrc);
            let rr = if rr.len() > 60 { base_rtcp(ssrc)[1].1.clone() } else { rr };
            if let R::Ok(raw) = ctx_protect_rtcp(&mut twin, &rr) { twin_last_rtcp = Some(raw); }
            ops.push(Op::TxRtcp(rr));
            sent.push(true);
            last_rtcp = Some(sent.len() - 1);
            ops.push(Op::RxGen(sent.len() - 1));
        } else if k < 48 {
            // re-delivery of an earlier genuine datagram (reordering / duplicate)
            ops.push(Op::RxGen(r.below(sent.len() as u64) as usize));
        } else if k < 62 {
            let t = r.below(sent.len() as u64) as usize;
            ops.push(Op::RxFlip(t, r.below(8 * 40) as usize));
        } else if k < 68 {
            let t = r.below(sent.len() as u64) as usize;
            ops.push(Op::RxTrunc(t, r.below(30) as usize));
        } else if k < 86 {
            ops.push(Op::RxRawRtp(forge_rtp(r, ssrc, twin_last_rtp.as_ref(), p, (idx % 65536) as u16)));
        } else {
            ops.push(Op::RxRawRtcp(forge_rtcp(r, ssrc, twin_last_rtcp.as_ref(), p)));
        }
    }
    let _ = last_rtcp;
    Built { warm, ops, kind: "mixed".into(), shape: format!("n{}", n) }
}

fn corpus(p: &Prof, ssrc: u32) -> Vec<Built> {
    let mut v = vec![];
    // F9 witness: forged SRTCP datagram whose index word is 0xFFFF_FFFF (index 0x7FFFFFFF, E bit set)
    let mut forged: Vec<u8> = vec![0x80, 201, 0, 1];
    forged.extend_from_slice(&ssrc.to_be_bytes());
    forged.extend_from_slice(&[0u8; 16]);
    forged.extend_from_slice(&0xFFFF_FFFFu32.to_be_bytes());
    if !p.gcm { forged.extend_from_slice(&[0u8; 10]); }
    let rr = base_rtcp(ssrc)[0].1.clone();
    v.push(Built { warm: vec![], ops: vec![Op::TxRtcp(rr.clone()), Op::RxRawRtcp(forged.clone()), Op::RxGen(0), Op::RxRawRtcp(forged), Op::TxRtcp(rr), Op::RxGen(1)],
        kind: "corpus".into(), shape: "F9 forged SRTCP index 0x7FFFFFFF".into() });
    // forged far-ahead sequence numbers around a wrap must not move the rollover counter
    let pk = |s: u16| RtpPacket::new(RtpHeader::new(96, s, 1, ssrc), vec![1, 2, 3]);
    let far = |s: u16| { let mut b = vec![0x80, 96]; b.extend_from_slice(&s.to_be_bytes()); b.extend_from_slice(&[0, 0, 0, 1]); b.extend_from_slice(&ssrc.to_be_bytes()); b.extend_from_slice(&[0u8; 24]); b };
    v.push(Built { warm: vec![], ops: vec![Op::TxRtp(pk(65000), 0), Op::RxGen(0), Op::RxRawRtp(far(100)), Op::RxRawRtp(far(32233)), Op::RxRawRtp(far(32232)),
        Op::TxRtp(pk(65001), 0), Op::RxGen(1), Op::TxRtp(pk(2), 1), Op::RxGen(2), Op::RxRawRtp(far(40000)), Op::RxGen(1), Op::RxGen(2)],
        kind: "corpus".into(), shape: "forged sequence numbers far ahead".into() });
    // a forged / corrupted datagram is the FIRST datagram a fresh context ever sees (its sequence number
    // 1, 32767, 32768, 32769, 40000 away from the genuine start), then the genuine stream: the rejected
    // datagram must not anchor the rollover estimate -- the shadow receiver accepts the same packets
    for s0 in [100u16, 65000] {
        for d in [1u16, 32767, 32768, 32769, 40000] {
            let mut ops = vec![];
            for k in 0..4u16 { let q = s0.wrapping_add(k); ops.push(Op::TxRtp(pk(q), if q < s0 { 1 } else { 0 })); }
            ops.push(Op::RxRawRtp(far(s0.wrapping_add(d))));
            for k in 0..4 { ops.push(Op::RxGen(k)); }
            v.push(Built { warm: vec![], ops, kind: "corpus".into(), shape: format!("forged first datagram, seq {}+{}", s0, d) });
        }
        // corrupted copies of later genuine packets overtake the first genuine packet (sequence MSBs flipped)
        let mut ops = vec![];
        for k in 0..4u16 { let q = s0.wrapping_add(k); ops.push(Op::TxRtp(pk(q), if q < s0 { 1 } else { 0 })); }
        ops.push(Op::RxFlip(1, 16));
        ops.push(Op::RxFlip(2, 16));
        ops.push(Op::RxFlip(2, 17));
        ops.push(Op::RxTrunc(3, 20));
        for k in 0..4 { ops.push(Op::RxGen(k)); }
        v.push(Built { warm: vec![], ops, kind: "corpus".into(), shape: format!("corrupted copies of later packets first, start {}", s0) });
    }
    v
}

// ---------------------------------------------------------------- SrtpSession level (direct oracle)
fn session_case(r: &mut Rng, p: &Prof) -> (serde_json::Value, Option<String>, String) {
    let km = keying(r, p);
    let mut tx = SrtpSession::new(p.r, km.clone(), km.clone()).unwrap();
    let mut rx = SrtpSession::new(p.r, km.clone(), km.clone()).unwrap();
    let mut shadow = SrtpSession::new(p.r, km.clone(), km.clone()).unwrap();
    let live: Vec<u32> = (0..r.range(1, 4)).map(|k| 0x1000_0000 + k as u32).collect();
    let mut idx: Vec<u64> = live.iter().map(|_| *r.pick(&[0u64, 65500, 32000])).collect();
    let mut fail: Option<String> = None;
    let mut fresh = 0u32;
    let steps = r.range(10, 40);
    let mut forged_n = 0;
    for step in 0..steps {
        let s = r.below(live.len() as u64) as usize;
        if step > 0 { idx[s] += *r.pick(&[1u64, 1, 40, 32767]); }
        let pk = small_packet(r, live[s], (idx[s] % 65536) as u16);
        let R::Ok(raw) = sess_protect(&mut tx, &pk) else { fail.get_or_insert("protect failed".into()); continue };
        // forgeries before the genuine packet: on the live SSRC and on fresh SSRCs (table stays below the watermark)
        for _ in 0..r.below(4) {
            let f = if r.chance(1, 4) {
                // genuine body under a sequence number far ahead (also as the very first datagram of the SSRC)
                let mut v = raw.clone(); let q = pk.header.sequence_number.wrapping_add(*r.pick(&[32769u16, 40000, 32768, 50000])); v[2..4].copy_from_slice(&q.to_be_bytes()); v
            } else if r.chance(1, 2) || fresh >= 60 {
                let mut v = raw.clone(); let n = v.len(); let i = r.range(2, n as u64 - 1) as usize; v[i] ^= 1 << r.below(8); if i >= 8 && i < 12 { v[i] ^= 0; } v
            } else {
                fresh += 1;
                let mut v = raw.clone(); v[8..12].copy_from_slice(&(0x7000_0000u32 + fresh).to_be_bytes()); v
            };
            if f == raw { continue; }
            forged_n += 1;
            match sess_unprotect(&mut rx, &f) {
                R::Ok(_) => { fail.get_or_insert(format!("step {}: forged datagram accepted by the session", step)); }
                R::Panic(m) => { fail.get_or_insert(format!("step {}: panic: {}", step, m)); }
                R::Err(_) => {}
            }
            if r.chance(1, 3) {
                let mut fr = vec![0x80, 201, 0, 1]; fr.extend_from_slice(&live[s].to_be_bytes()); fr.extend(r.bytes(20)); fr.extend_from_slice(&0xFFFF_FFFFu32.to_be_bytes()); fr.extend(r.bytes(10));
                match sess_unprotect_rtcp(&mut rx, &fr) { R::Ok(_) => { fail.get_or_insert(format!("step {}: forged SRTCP accepted", step)); } R::Panic(m) => { fail.get_or_insert(format!("step {}: panic: {}", step, m)); } _ => {} }
            }
        }
        let a = sess_unprotect(&mut rx, &raw);
        let b = sess_unprotect(&mut shadow, &raw);
        if a != b { fail.get_or_insert(format!("step {} ssrc#{} index {}: session that saw forgeries returned {} but the shadow session returned {}", step, s, idx[s], a.class(), b.class())); }
        if let R::Ok(q) = &a { if *q != pk { fail.get_or_insert(format!("step {}: decoded packet differs", step)); } }
    }
    (json!({"kind": "session", "profile": p.name, "live_ssrcs": live.len(), "fresh_forged_ssrcs": fresh, "forged": forged_n, "steps": steps}), fail,
     format!("{}|session|{}|{}|{:?}", p.name, fresh, forged_n, idx))
}

/// F23 replay on the real code: genuine stream reaches ROC 1, then 33 forged packets with fresh SSRCs,
/// the genuine context stays idle for `idle` seconds, one more forged SSRC triggers eviction; is the
/// next genuine packet still accepted?  Returns (accepted_with_forgeries, accepted_by_shadow).
fn eviction_replay(idle_secs: u64) -> (bool, bool, bool) {
    let p = profiles()[0];
    let km = SrtpKeyingMaterial::new((1..=16).collect(), (1..=14).collect());
    let ssrc = 0x0BAD_CAFEu32;
    let mut tx = SrtpSession::new(p.r, km.clone(), km.clone()).unwrap();
    let mut rx = SrtpSession::new(p.r, km.clone(), km.clone()).unwrap();
    let mut shadow = SrtpSession::new(p.r, km.clone(), km.clone()).unwrap();
    let mk = |s: u16| RtpPacket::new(RtpHeader::new(96, s, 0, ssrc), vec![1, 2, 3]);
    for s in [0u16, 32767, 65534, 10] {
        let R::Ok(raw) = sess_protect(&mut tx, &mk(s)) else { return (false, false, false) };
        let _ = sess_unprotect(&mut rx, &raw);
        let _ = sess_unprotect(&mut shadow, &raw);
    }
    let mut all_rejected = true;
    let forged = |k: u32| { let mut v = vec![0x80, 96, 0, 5, 0, 0, 0, 0]; v.extend_from_slice(&(0x5000_0000u32 + k).to_be_bytes()); v.extend_from_slice(&[0u8; 13]); v };
    for k in 0..32 { if sess_unprotect(&mut rx, &forged(k)).is_ok() { all_rejected = false; } }
    std::thread::sleep(std::time::Duration::from_secs(idle_secs));
    if sess_unprotect(&mut rx, &forged(32)).is_ok() { all_rejected = false; }
    let R::Ok(raw) = sess_protect(&mut tx, &mk(11)) else { return (false, false, all_rejected) };
    (sess_unprotect(&mut rx, &raw).is_ok(), sess_unprotect(&mut shadow, &raw).is_ok(), all_rejected)
}

fn main() {
    let args = parse_args();
    silence_panics();
    let thorough = args.tier == "thorough";
    // the 61 s wall-clock replay runs beside everything else
    let evict = std::thread::spawn(|| (eviction_replay(61), eviction_replay(1)));
    let mut out = Out::new(&args.out);
    let mut r = Rng::new(args.seed);
    let profs = profiles();
    let mut kinds: BTreeMap<String, u64> = BTreeMap::new();
    let mut forged_total = 0u64;
    let mut genuine_total = 0u64;
    let mut built: Vec<(Prof, u32, Built)> = vec![];
    for p in &profs {
        let ssrc = 0x1122_3344;
        for b in corpus(p, ssrc) { built.push((*p, ssrc, b)); }
    }
    // exhaustive flips + truncations
    for p in &profs {
        let shapes = if thorough { 4 } else { 2 };
        for which in 0..shapes {
            for warm_roc in [false, true] {
                if !thorough && warm_roc && which > 0 { continue; }
                let ssrc = r.next() as u32;
                built.push((*p, ssrc, flips_script(&mut r, p, ssrc, which + if warm_roc { 1 } else { 0 } + args.seed as usize, false, warm_roc)));
            }
        }
        for which in 0..2 {
            let ssrc = r.next() as u32;
            built.push((*p, ssrc, flips_script(&mut r, p, ssrc, which, true, which == 1)));
        }
    }
    let nm = if thorough { 1500 } else { 360 };
    for n in 0..nm {
        let p = profs[n % profs.len()];
        let ssrc = r.next() as u32;
        let b = mixed_script(&mut r, &p, ssrc, thorough && n % 3 == 0);
        built.push((p, ssrc, b));
    }
    for (p, ssrc, b) in built {
        let km = keying(&mut r, &p);
        let run = run_script(&mut r, &p, ssrc, &km, &b.warm, &b.ops);
        let fail = oracle(&p, ssrc, &km, &b.warm, &b.ops, &run, &mut r);
        let mut nf = 0u64;
        let mut ng = 0u64;
        for d in run.delivered.iter().flatten() { if run.sent.iter().any(|g| g == d) { ng += 1 } else { nf += 1 } }
        forged_total += nf;
        genuine_total += ng;
        *kinds.entry(format!("{}:{}", b.kind, p.name)).or_default() += 1;
        let ops_desc: Vec<serde_json::Value> = if b.ops.len() > 60 {
            let mut v: Vec<_> = b.ops[..8].iter().map(op_json).collect(); v.push(json!(format!("... {} ops ...", b.ops.len() - 8))); v
        } else { b.ops.iter().map(op_json).collect() };
        out.push(Case { term: run.term, desc: json!({"kind": b.kind, "shape": b.shape, "profile": p.name, "ssrc": ssrc, "key": hex(&km.master_key), "salt": hex(&km.master_salt),
                "warm": b.warm, "forged_datagrams": nf, "genuine_deliveries": ng, "ops": ops_desc,
                "impl_obs[result, roc, srtcp_index]": run.obs.iter().flatten().take(40).map(|o| json!([o.res.class(), o.roc, o.rtcp_index])).collect::<Vec<_>>() }),
            oracle_fail: fail, known: None, nontrivial: nf > 0,
            key: format!("{}|{}|{}|{}|{:?}", p.name, b.kind, b.shape, ssrc, b.ops.len()), kind: b.kind.clone() });
    }
    // SrtpSession level
    let ns = if thorough { 2000 } else { 300 };
    for n in 0..ns {
        let p = &profs[n % profs.len()];
        let (desc, fail, key) = session_case(&mut r, p);
        out.push(Case { term: "-".into(), desc, oracle_fail: fail, known: None, nontrivial: true, key, kind: "session".into() });
    }
    // F23 replay result (fixed in /repo 9085571: forged SSRCs create no receive context, so the genuine
    // context survives the flood and the 61 s idle period; must pass)
    let ((acc, shadow_acc, rejected), (acc1, shadow1, rejected1)) = evict.join().unwrap();
    out.push(Case { term: "-".into(),
        desc: json!({"kind": "eviction-replay", "idle_s": 61, "all_33_forged_rejected": rejected, "genuine_accepted_by_shadow_session": shadow_acc, "genuine_accepted_after_forgeries": acc}),
        oracle_fail: if !rejected { Some("eviction replay: a forged packet was accepted".into()) }
            else if !shadow_acc { Some("eviction replay: the shadow session refused the genuine packet".into()) }
            else if !acc { Some("genuine stream at ROC 1, 33 forged datagrams with fresh SSRCs (all rejected), 61 s idle: the next genuine packet is refused although the shadow session accepts it (rejected datagrams created receive contexts and evicted the genuine one)".into()) }
            else { None },
        known: None, nontrivial: true, key: "eviction-61".into(), kind: "eviction-replay".into() });
    out.push(Case { term: "-".into(),
        desc: json!({"kind": "eviction-replay", "idle_s": 1, "all_33_forged_rejected": rejected1, "genuine_accepted_by_shadow_session": shadow1, "genuine_accepted_after_forgeries": acc1}),
        oracle_fail: if !(rejected1 && shadow1 && acc1) { Some("33 forged SSRCs without the 60 s idle period already disturb the genuine stream".into()) } else { None },
        known: None, nontrivial: true, key: "eviction-1".into(), kind: "eviction-replay".into() });
    out.finish(json!({"generator": {"scripts": kinds, "forged_datagrams_delivered": forged_total, "genuine_deliveries": genuine_total,
        "profiles": profs.iter().map(|p| p.name).collect::<Vec<_>>() }}));
}
