//! C06 — only authenticated STUN connectivity checks can influence ICE state.
//!
//! Drives a real, started `IceTransport` (one UDP host candidate on loopback, WebRTC mode)
//! through its public API and with crafted datagrams sent from harness-owned UDP sockets,
//! records the observable ICE state after every operation (state(), remote_candidates(),
//! get_selected_pair(), nomination flag, Binding responses returned), evaluates the direct
//! property oracle on these observations and emits the operation list as a Gallina term for
//! the model (`Run/C06Run.v`, `Model/IceAuth.v`).
//!
//! All facts about a datagram that the model receives (first byte, message type, well-formed,
//! transaction id, USE-CANDIDATE, USERNAME present/right, MESSAGE-INTEGRITY present/valid) are
//! computed from the bytes actually sent by harness-own code (RFC 5389 attribute walk +
//! HMAC-SHA1), cross-checked against the webrtc-rs `stun` reference crate.
use hmac::Mac;
use rustrtc::transports::ice::stun::{StunAttribute, StunMessage};
use rustrtc::transports::ice::{IceParameters, IceTransportBuilder};
use rustrtc::{IceCandidate, IceCandidatePair, IceCandidateType, IceGathererState, IceRole, IceTransport, IceTransportState, RtcConfiguration};
use serde_json::json;
use std::collections::BTreeMap;
use std::net::{IpAddr, Ipv4Addr, SocketAddr};
use std::sync::Arc;
use std::time::{Duration, Instant};
use tokio::net::UdpSocket;
use vh::*;

const STUN_TIMEOUT_MS: u64 = 300;
const NOM_TIMEOUT_MS: u64 = 400;
const MAGIC: u32 = 0x2112_A442;
static NEXT_TCP_PORT: std::sync::atomic::AtomicU16 = std::sync::atomic::AtomicU16::new(0);
static NEXT_PORT: std::sync::atomic::AtomicU16 = std::sync::atomic::AtomicU16::new(0);

// ------------------------------------------------------------------ STUN wire helpers (own code)
type HmacSha1 = hmac::Hmac<sha1::Sha1>;
fn hmac_sha1(key: &[u8], data: &[u8]) -> [u8; 20] {
    let mut mac = <HmacSha1 as hmac::digest::KeyInit>::new_from_slice(key).expect("hmac key");
    mac.update(data);
    let r = mac.finalize().into_bytes();
    let mut o = [0u8; 20];
    o.copy_from_slice(&r);
    o
}

fn put_attr(buf: &mut Vec<u8>, typ: u16, val: &[u8]) {
    buf.extend_from_slice(&typ.to_be_bytes());
    buf.extend_from_slice(&(val.len() as u16).to_be_bytes());
    buf.extend_from_slice(val);
    while buf.len() % 4 != 0 { buf.push(0); }
}
fn set_len(buf: &mut [u8], len: usize) { buf[2..4].copy_from_slice(&(len as u16).to_be_bytes()); }

#[derive(Clone, Copy, Debug, PartialEq)]
enum MiKind { None, WrongKey, Corrupt, Right }

/// RFC 5389 message: header, attributes, optional MESSAGE-INTEGRITY (key), optional FINGERPRINT
fn build_stun(ty: u16, tx: &[u8; 12], attrs: &[(u16, Vec<u8>)], mi_key: Option<&[u8]>, corrupt_mi: bool, fp: bool) -> Vec<u8> {
    let mut b = vec![0u8; 20];
    b[0..2].copy_from_slice(&ty.to_be_bytes());
    b[4..8].copy_from_slice(&MAGIC.to_be_bytes());
    b[8..20].copy_from_slice(tx);
    for (t, v) in attrs { put_attr(&mut b, *t, v); }
    let l = b.len() - 20; set_len(&mut b, l);
    if let Some(k) = mi_key {
        let l = b.len() - 20 + 24; set_len(&mut b, l);
        let mut h = hmac_sha1(k, &b);
        if corrupt_mi { h[7] ^= 0x40; }
        put_attr(&mut b, 0x0008, &h);
    }
    if fp {
        let l = b.len() - 20 + 8; set_len(&mut b, l);
        let crc = crc32fast::hash(&b) ^ 0x5354_554e;
        put_attr(&mut b, 0x8028, &crc.to_be_bytes());
    }
    b
}

/// attribute walk: None when the message is not well-formed (short, length field inconsistent)
fn walk(b: &[u8]) -> Option<Vec<(u16, usize, usize)>> {
    if b.len() < 20 { return None; }
    let l = u16::from_be_bytes([b[2], b[3]]) as usize;
    if l + 20 != b.len() { return None; }
    let mut v = vec![];
    let mut o = 20;
    while o + 4 <= b.len() {
        let t = u16::from_be_bytes([b[o], b[o + 1]]);
        let n = u16::from_be_bytes([b[o + 2], b[o + 3]]) as usize;
        if o + 4 + n > b.len() { break; }
        v.push((t, o, n));
        o += 4 + n + (4 - n % 4) % 4;
    }
    Some(v)
}

#[derive(Clone, Debug, Default, PartialEq)]
struct Facts { b0: u8, ty: u16, wf: bool, tx: u128, uc: bool, has_user: bool, user_ok: bool, has_mi: bool, mi_ok: bool, prio: u32, ufrag: u8 }

fn tx_num(tx: &[u8]) -> u128 { tx.iter().fold(0u128, |a, b| (a << 8) | *b as u128) }

/// what a verifying agent would establish about this datagram (own implementation)
fn facts(b: &[u8], want_user: &str, local_pwd: &str) -> Facts {
    let local_ufrag = want_user.split(':').next().unwrap_or("");
    let mut f = Facts { b0: b.first().copied().unwrap_or(0), ..Default::default() };
    f.ty = if b.len() >= 2 { u16::from_be_bytes([b[0], b[1]]) } else { (f.b0 as u16) << 8 };
    if b.len() >= 20 { f.tx = tx_num(&b[8..20]); }
    if let Some(attrs) = walk(b) {
        f.wf = true;
        for (t, o, n) in attrs {
            let val = &b[o + 4..o + 4 + n];
            match t {
                0x0006 if !f.has_user => {
                    f.has_user = true;
                    f.user_ok = val == want_user.as_bytes();
                    // what the shared-UDP demux reads: text before the first ':' of a UTF-8 USERNAME
                    f.ufrag = match std::str::from_utf8(val).ok().and_then(|t| t.split_once(':')) {
                        Some((peer, _)) => if peer == local_ufrag { 1 } else { 2 },
                        None => 0 };
                }
                0x0025 => f.uc = true,
                0x0024 if n >= 4 => f.prio = u32::from_be_bytes([val[0], val[1], val[2], val[3]]),
                0x0008 if !f.has_mi => {
                    f.has_mi = true;
                    if n == 20 {
                        let mut head = b[..o].to_vec();
                        set_len(&mut head, o - 20 + 24);
                        f.mi_ok = hmac_sha1(local_pwd.as_bytes(), &head)[..] == *val;
                    }
                }
                _ => {}
            }
        }
    }
    f
}

/// the same facts from the webrtc-rs `stun` crate (second opinion); None if it cannot parse
fn facts_ref(b: &[u8], want_user: &str, local_pwd: &str) -> Option<(bool, bool, bool, bool, bool)> {
    use stun::attributes::{ATTR_MESSAGE_INTEGRITY, ATTR_USERNAME, ATTR_USE_CANDIDATE};
    let mut m = stun::message::Message::new();
    m.unmarshal_binary(b).ok()?;
    let has_user = m.contains(ATTR_USERNAME);
    let user_ok = has_user && m.get(ATTR_USERNAME).map(|v| v == want_user.as_bytes()).unwrap_or(false);
    let has_mi = m.contains(ATTR_MESSAGE_INTEGRITY);
    let mi_ok = has_mi && stun::integrity::MessageIntegrity::new_short_term_integrity(local_pwd.to_string()).check(&mut m).is_ok();
    Some((has_user, user_ok, has_mi, mi_ok, m.contains(ATTR_USE_CANDIDATE)))
}

// ------------------------------------------------------------------ case description
#[derive(Clone, Copy, Debug, PartialEq)]
enum UserKind { None, WrongBoth, WrongRemote, Reversed, NoColon, Right }
#[derive(Clone, Copy, Debug, PartialEq)]
enum Enc { Own, Rustrtc }
#[derive(Clone, Copy, Debug, PartialEq)]
enum TxRef { Random, Live(usize), Stale(usize) }
#[derive(Clone, Debug, PartialEq)]
enum RawKind { Indication, Truncated, LenMismatch, UnknownMethod, RandomStunish(Vec<u8>), Dtls, Rtp, OneByte(u8),
    /// the agent's own captured check sent back verbatim (hair-pinning NAT / reflector / replay), or as an indication with the same transaction id
    Echo { cap: usize, indication: bool } }

#[derive(Clone, Debug)]
enum HOp {
    Start,
    AddRemote { sock: usize, prio: u32, typ: u8 },
    SelectPair { sock: usize },
    /// `tcp: Some(i)`: sent as an RFC 4571 frame on the i-th TCP connection to the passive ICE-TCP candidate (sock ignored)
    Req { sock: usize, user: UserKind, mi: MiKind, uc: bool, prio: Option<u32>, method: u16, enc: Enc, fp: bool, tcp: Option<usize> },
    /// `ecode` (error responses): 0 = ERROR-CODE 401, 1 = no ERROR-CODE attribute, 2 = truncated ERROR-CODE (2 bytes), 3 = 487, 4 = 400
    Resp { sock: usize, succ: bool, tx: TxRef, method: u16, with_mi: bool, ecode: u8 },
    Raw { sock: usize, kind: RawKind },
    /// an outgoing Binding request of the agent is expected on this socket; it becomes `Launch`
    Capture { sock: usize, round: i64, nom: bool },
    AwaitRound { round: i64 },
    AwaitNom { round: i64 },
}

#[derive(Clone, Debug)]
struct Spec { role: IceRole, latching: bool, mux: bool, tcp: bool, ops: Vec<HOp>, kind: String }

#[derive(Clone, Debug, PartialEq)]
struct CandObs { addr: SocketAddr, typ: u8, prio: u32, tcp: bool }
#[derive(Clone, Debug, PartialEq)]
struct Obs { state: u8, remotes: Vec<CandObs>, selected: Option<(SocketAddr, CandObs)>, nom: u8, sends: Vec<(SocketAddr, u128)> }

fn typ_code(t: IceCandidateType) -> u8 {
    match t { IceCandidateType::Host => 0, IceCandidateType::ServerReflexive => 1, IceCandidateType::PeerReflexive => 2, IceCandidateType::Relay => 3 }
}
fn typ_of(c: u8) -> IceCandidateType {
    match c { 0 => IceCandidateType::Host, 1 => IceCandidateType::ServerReflexive, 2 => IceCandidateType::PeerReflexive, _ => IceCandidateType::Relay }
}
fn typ_term(c: u8) -> &'static str {
    match c { 0 => "IceCandidateType_Host", 1 => "IceCandidateType_ServerReflexive", 2 => "IceCandidateType_PeerReflexive", _ => "IceCandidateType_Relay" }
}
fn state_code(s: IceTransportState) -> u8 {
    match s {
        IceTransportState::New => 0, IceTransportState::Checking => 1, IceTransportState::Connected => 2, IceTransportState::Completed => 3,
        IceTransportState::Failed => 4, IceTransportState::Disconnected => 5, IceTransportState::Closed => 6,
    }
}
fn cand_obs(c: &IceCandidate) -> CandObs { CandObs { addr: c.address, typ: typ_code(c.typ), prio: c.priority, tcp: c.transport == "tcp" } }

fn addr_term(a: &SocketAddr) -> String {
    let ip = match a.ip() { IpAddr::V4(v) => u32::from(v) as i128, _ => 0 };
    format!("({}, {})", ip, a.port())
}
fn cand_term(a: &SocketAddr, base: &SocketAddr, typ: u8, prio: u32, tcp: bool) -> String {
    format!("(mkCand {} {} {} {} {} false)", addr_term(a), addr_term(base), typ_term(typ), prio, bool_term(tcp))
}
fn local_cand_term(c: &IceCandidate) -> String {
    format!("(mkCand {} {} {} {} {} {})", addr_term(&c.address), addr_term(&c.base_address()), typ_term(typ_code(c.typ)), c.priority,
        bool_term(c.transport == "tcp"), bool_term(c.tcp_type == Some(rustrtc::TcpType::Passive)))
}
fn cand_obs_term(c: &CandObs) -> String { format!("({}, {}, {}, {})", addr_term(&c.addr), c.typ, c.prio, bool_term(c.tcp)) }
fn obs_term(o: &Obs) -> String {
    format!("({}, {}, {}, {}, {})", o.state, list_term(&o.remotes.iter().map(cand_obs_term).collect::<Vec<_>>()),
        opt_term(o.selected.as_ref().map(|(l, r)| format!("({}, {})", addr_term(l), cand_obs_term(r)))), o.nom,
        list_term(&o.sends.iter().map(|(d, t)| format!("({}, {})", addr_term(d), t)).collect::<Vec<_>>()))
}
fn pkt_term(f: &Facts) -> String {
    format!("(mkPkt {} {} {} {} {} {} {} {} {} {} {})", f.b0, f.ty, bool_term(f.wf), f.tx, bool_term(f.uc), bool_term(f.has_user),
        bool_term(f.user_ok), bool_term(f.has_mi), bool_term(f.mi_ok), f.prio, f.ufrag)
}
fn role_term(r: IceRole) -> &'static str { if r == IceRole::Controlling { "IceRole_Controlling" } else { "IceRole_Controlled" } }

// ------------------------------------------------------------------ running one case on the implementation
struct Sock { s: Arc<UdpSocket>, addr: SocketAddr, log: Vec<(Vec<u8>, SocketAddr)>, seen: usize }
impl Sock {
    fn drain(&mut self) {
        let mut buf = [0u8; 2048];
        while let Ok((n, from)) = self.s.try_recv_from(&mut buf) { self.log.push((buf[..n].to_vec(), from)); }
    }
}

async fn bind(ip: Ipv4Addr, port: u16) -> std::io::Result<Sock> {
    let s = UdpSocket::bind(SocketAddr::new(IpAddr::V4(ip), port)).await?;
    let addr = s.local_addr()?;
    Ok(Sock { s: Arc::new(s), addr, log: vec![], seen: 0 })
}

/// a TCP connection to the agent's passive ICE-TCP candidate (RFC 4571 framing)
struct TcpCli { s: tokio::net::TcpStream, addr: SocketAddr, buf: Vec<u8> }
impl TcpCli {
    fn frames(&mut self) -> Vec<Vec<u8>> {
        let mut tmp = [0u8; 4096];
        while let Ok(n) = self.s.try_read(&mut tmp) { if n == 0 { break; } self.buf.extend_from_slice(&tmp[..n]); }
        let mut out = vec![];
        loop {
            if self.buf.len() < 2 { break; }
            let l = u16::from_be_bytes([self.buf[0], self.buf[1]]) as usize;
            if self.buf.len() < 2 + l { break; }
            out.push(self.buf[2..2 + l].to_vec());
            self.buf.drain(..2 + l);
        }
        out
    }
}

struct Captured { tx: [u8; 12], sock: usize, nom: bool, round: i64, answered: bool, bytes: Vec<u8>, at: Instant, got_response: bool }

struct Ran {
    terms: Vec<String>,          // one list of model ops per harness operation
    obs: Vec<Obs>,
    descs: Vec<serde_json::Value>,
    local: SocketAddr,
    locals_term: String,
    fail: Option<String>,
    known: Option<String>,
    nontrivial: bool,
    harness_err: Option<String>,
    stats: Vec<String>,
}

fn observe(t: &IceTransport, sends: Vec<(SocketAddr, u128)>) -> Obs {
    let nom = match *t.subscribe_nomination_complete().borrow() { None => 0, Some(true) => 1, Some(false) => 2 };
    Obs {
        state: state_code(t.state()),
        remotes: t.remote_candidates().iter().map(cand_obs).collect(),
        selected: t.get_selected_pair().map(|p| (p.local.address, cand_obs(&p.remote))),
        nom,
        sends,
    }
}
fn protected_eq(a: &Obs, b: &Obs) -> bool { a.state == b.state && a.remotes == b.remotes && a.selected == b.selected && a.nom == b.nom }

async fn run_case(spec: &Spec, seed: u64) -> Ran {
    let mut r = Rng::new(seed);
    let mut ran = Ran { terms: vec![], obs: vec![], descs: vec![], local: "0.0.0.0:0".parse().unwrap(), locals_term: "[]".into(), fail: None, known: None,
        nontrivial: false, harness_err: None, stats: vec![] };
    // ---- the agent under test
    let mut made = None;
    for _attempt in 0..4 {
        let mut cfg = RtcConfiguration::default();
        cfg.bind_ip = Some("127.0.0.1".into());
        cfg.enable_latching = spec.latching;
        cfg.stun_timeout = Duration::from_millis(STUN_TIMEOUT_MS);
        cfg.nomination_timeout = Duration::from_millis(NOM_TIMEOUT_MS);
        if spec.tcp { cfg.ice_tcp_policy = rustrtc::IceTcpPolicy::Enabled; }
        if spec.mux {
            // shared-UDP mux socket kind: one process-wide socket per port, demux by ufrag / source address
            let port = loop {
                let p = 20000 + NEXT_PORT.fetch_add(1, std::sync::atomic::Ordering::Relaxed) % 10000;
                if std::net::UdpSocket::bind(("127.0.0.1", p)).is_ok() { break p; }
            };
            cfg.ice_udp_mux = true;
            cfg.ice_udp_mux_port = Some(port);
        }
        let (t, runner) = IceTransportBuilder::new(cfg).role(spec.role).build();
        let runner = tokio::spawn(runner);
        let t0 = Instant::now();
        while t.gather_state() != IceGathererState::Complete {
            if t0.elapsed() > Duration::from_secs(5) { break; }
            tokio::time::sleep(Duration::from_millis(1)).await;
        }
        if t.gather_state() == IceGathererState::Complete && t.local_candidates().len() == if spec.tcp { 2 } else { 1 } { made = Some((t, runner)); break; }
        t.stop(); runner.abort();
    }
    let Some((t, runner)) = made else { ran.harness_err = Some("could not create an agent with exactly one local candidate".into()); return ran; };
    let locals = t.local_candidates();
    let Some(lc) = locals.iter().find(|c| c.transport == "udp").cloned() else { ran.harness_err = Some("no UDP local candidate".into()); t.stop(); runner.abort(); return ran; };
    let ltc = locals.iter().find(|c| c.transport == "tcp").cloned();
    if spec.tcp && ltc.is_none() { ran.harness_err = Some("no TCP local candidate".into()); t.stop(); runner.abort(); return ran; }
    ran.local = lc.address;
    ran.locals_term = list_term(&locals.iter().map(local_cand_term).collect::<Vec<_>>());
    let mut tcps: Vec<TcpCli> = vec![];
    let lpar = t.local_parameters();
    let rpar = IceParameters::new(format!("R{:08x}", r.next() as u32), format!("remotepw{:016x}", r.next()));
    let want_user = format!("{}:{}", lpar.username_fragment, rpar.username_fragment);
    // ---- harness sockets: 0,1 peers, 2 stranger (all 127.0.0.1), 3 = 127.0.0.2 with the port of socket 0
    let mut socks: Vec<Sock> = vec![];
    for _attempt in 0..20 {
        socks.clear();
        let s0 = match bind(Ipv4Addr::new(127, 0, 0, 1), 0).await { Ok(s) => s, Err(_) => continue };
        let p0 = s0.addr.port();
        let s3 = match bind(Ipv4Addr::new(127, 0, 0, 2), p0).await { Ok(s) => s, Err(_) => continue };
        let s1 = match bind(Ipv4Addr::new(127, 0, 0, 1), 0).await { Ok(s) => s, Err(_) => continue };
        let s2 = match bind(Ipv4Addr::new(127, 0, 0, 1), 0).await { Ok(s) => s, Err(_) => continue };
        socks = vec![s0, s1, s2, s3];
        break;
    }
    if socks.len() != 4 { ran.harness_err = Some("could not bind harness sockets".into()); t.stop(); runner.abort(); return ran; }
    let agent_addr = lc.address;
    let mut remote_cands: BTreeMap<usize, IceCandidate> = BTreeMap::new();
    let mut captured: Vec<Captured> = vec![];
    let mut finished: Vec<(i64, bool)> = vec![];
    let mut prev = observe(&t, vec![]);
    let mut routes: std::collections::HashMap<SocketAddr, bool> = std::collections::HashMap::new();
    let case_start = Instant::now();
    let local_term = local_cand_term(&lc);
    let mut unsolicited_seen = false;
    let mut baseline_after_unsolicited: Option<Obs> = None;

    for op in &spec.ops {
        let mut sends: Vec<(SocketAddr, u128)> = vec![];
        let term: String;
        let mut desc = json!(format!("{:?}", op));
        let mut req_view: Option<ReqView> = None;
        let mut udp_pkt: Option<(SocketAddr, Facts)> = None;      // a datagram sent to the agent's UDP socket by this operation
        let mut must_honour: Option<String> = None;             // a genuine answer to an outstanding transaction
        let mut must_not_advance: Option<(String, bool)> = None; // a live id answered by something that is no Binding success (what, nominated phase)
        match op {
            HOp::Start => {
                if let Err(e) = t.start(rpar.clone()) { ran.harness_err = Some(format!("start: {e}")); break; }
                tokio::time::sleep(Duration::from_millis(3)).await;
                term = "ApiStart".into();
            }
            HOp::AddRemote { sock, prio, typ } => {
                let mut c = IceCandidate::host(socks[*sock].addr, 1);
                c.priority = *prio;
                c.typ = typ_of(*typ);
                remote_cands.insert(*sock, c.clone());
                t.add_remote_candidate(c);
                tokio::time::sleep(Duration::from_millis(3)).await;
                term = format!("ApiAddRemote {}", cand_term(&socks[*sock].addr, &socks[*sock].addr, *typ, *prio, false));
            }
            HOp::SelectPair { sock } => {
                let rc = remote_cands.get(sock).cloned().unwrap_or_else(|| IceCandidate::host(socks[*sock].addr, 1));
                t.select_pair(IceCandidatePair::new(lc.clone(), rc.clone()));
                tokio::time::sleep(Duration::from_millis(2)).await;
                term = format!("ApiSelectPair (mkPair {} {})", local_term,
                    cand_term(&rc.address, &rc.address, typ_code(rc.typ), rc.priority, false));
            }
            HOp::Req { sock, user, mi, uc, prio, method, enc, fp, tcp } => {
                let tx: [u8; 12] = r.bytes(12).try_into().unwrap();
                let uname: Option<String> = match user {
                    UserKind::None => None,
                    UserKind::Right => Some(want_user.clone()),
                    UserKind::WrongBoth => Some("deadbeefdeadbeef:cafecafe".into()),
                    UserKind::WrongRemote => Some(format!("{}:someoneelse", lpar.username_fragment)),
                    UserKind::Reversed => Some(format!("{}:{}", rpar.username_fragment, lpar.username_fragment)),
                    UserKind::NoColon => Some(lpar.username_fragment.clone()),
                };
                let wrong_pwd = if r.chance(1, 2) { rpar.password.clone() } else { "0123456789abcdef0123456789abcdef".to_string() };
                let key: Option<String> = match mi { MiKind::None => None, MiKind::WrongKey => Some(wrong_pwd), _ => Some(lpar.password.clone()) };
                let bytes = if *enc == Enc::Rustrtc && *mi != MiKind::Corrupt && *method == 0x0001 {
                    let mut m = StunMessage::binding_request(tx, Some("c06"));
                    if let Some(u) = &uname { m.attributes.push(StunAttribute::Username(u.clone())); }
                    if let Some(p) = prio { m.attributes.push(StunAttribute::Priority(*p)); }
                    m.attributes.push(StunAttribute::IceControlling(r.next()));
                    if *uc { m.attributes.push(StunAttribute::UseCandidate); }
                    m.encode(key.as_deref().map(|k| k.as_bytes()), *fp).unwrap()
                } else {
                    let mut attrs: Vec<(u16, Vec<u8>)> = vec![];
                    if let Some(u) = &uname { attrs.push((0x0006, u.as_bytes().to_vec())); }
                    if let Some(p) = prio { attrs.push((0x0024, p.to_be_bytes().to_vec())); }
                    attrs.push((0x802A, r.next().to_be_bytes().to_vec()));
                    if *uc { attrs.push((0x0025, vec![])); }
                    build_stun(*method, &tx, &attrs, key.as_deref().map(|k| k.as_bytes()), *mi == MiKind::Corrupt, *fp)
                };
                let f = facts(&bytes, &want_user, &lpar.password);
                // self-checks of the harness against the reference crate and the construction
                if let Some((hu, uo, hm, mo, ucr)) = facts_ref(&bytes, &want_user, &lpar.password) {
                    if (hu, uo, hm, mo, ucr) != (f.has_user, f.user_ok, f.has_mi, f.mi_ok, f.uc) {
                        ran.harness_err = Some(format!("credential facts disagree with the stun reference crate: own {:?} ref {:?}", f, (hu, uo, hm, mo, ucr)));
                    }
                } else { ran.harness_err = Some("reference crate cannot parse a request built by the harness".into()); }
                let expect = (uname.is_some(), *user == UserKind::Right, *mi != MiKind::None, *mi == MiKind::Right, *uc);
                if expect != (f.has_user, f.user_ok, f.has_mi, f.mi_ok, f.uc) {
                    ran.harness_err = Some(format!("facts {:?} differ from construction {:?}", f, expect));
                }
                let dec_ok = StunMessage::decode(&bytes).is_ok();
                if !dec_ok { ran.harness_err = Some("rustrtc decoder rejects a well-formed request".into()); }
                // ---- where it is sent from / to
                let mut via_tcp: Option<usize> = None;
                if let (Some(i), Some(ltc)) = (tcp, &ltc) {
                    while tcps.len() <= *i {
                        // source port below the ephemeral range: a controlling agent actively connects to learned TCP
                        // candidates, and a connect() to an ephemeral loopback port can pick that same port as its source
                        // and connect to itself (the agent then answers its own check) -- keep that out of the experiment
                        let mut conn = None;
                        for _ in 0..3000 {
                            let p = 10000 + (std::process::id() as u16).wrapping_mul(37).wrapping_add(NEXT_TCP_PORT.fetch_add(1, std::sync::atomic::Ordering::Relaxed)) % 9000;
                            let Ok(sock) = tokio::net::TcpSocket::new_v4() else { continue };
                            let _ = sock.set_reuseaddr(true);
                            if sock.bind(SocketAddr::new(IpAddr::V4(Ipv4Addr::LOCALHOST), p)).is_err() { continue; }
                            if let Ok(st) = sock.connect(ltc.address).await { conn = Some(st); break; }
                        }
                        match conn {
                            Some(st) => { let a = st.local_addr().unwrap(); tcps.push(TcpCli { s: st, addr: a, buf: vec![] }); }
                            None => { ran.harness_err = Some("TCP connect to the passive candidate failed".into()); break; }
                        }
                    }
                    if ran.harness_err.is_some() { break; }
                    tokio::time::sleep(Duration::from_millis(2)).await;
                    via_tcp = Some(*i);
                }
                let src = match via_tcp { Some(i) => tcps[i].addr, None => socks[*sock].addr };
                let dst_local = match (via_tcp, &ltc) { (Some(_), Some(l)) => l.address, _ => agent_addr };
                if let Some(i) = via_tcp {
                    use tokio::io::AsyncWriteExt;
                    let mut framed = (bytes.len() as u16).to_be_bytes().to_vec();
                    framed.extend_from_slice(&bytes);
                    if tcps[i].s.write_all(&framed).await.is_err() { ran.harness_err = Some("TCP write failed".into()); break; }
                } else {
                    socks[*sock].drain();
                    socks[*sock].s.send_to(&bytes, agent_addr).await.ok();
                }
                let scan_from = socks[*sock].log.len();
                // the reply (if any) is the synchronisation point
                // (bounded by yields to the runtime, not only by wall time: the agent runs on this thread, and a
                //  descheduled process must not turn into a spurious "no reply")
                let deadline = Instant::now() + Duration::from_millis(80);
                let mut got = false;
                let mut spins = 0;
                while (Instant::now() < deadline || spins < 40) && !got {
                    spins += 1;
                    tokio::time::sleep(Duration::from_millis(1)).await;
                    let incoming: Vec<(Vec<u8>, SocketAddr)> = match via_tcp {
                        Some(i) => tcps[i].frames().into_iter().map(|f| (f, agent_addr)).collect(),
                        None => { socks[*sock].drain(); socks[*sock].log[scan_from..].to_vec() }
                    };
                    for (b, from) in incoming.iter() {
                        if *from == agent_addr && b.len() >= 20 && b[0] == 0x01 && b[1] == 0x01 && b[8..20] == tx {
                            got = true;
                            sends.push((src, tx_num(&tx)));
                            // response content: XOR-MAPPED-ADDRESS = source, MESSAGE-INTEGRITY under the local password
                            let mut m = stun::message::Message::new();
                            let mut ok = m.unmarshal_binary(b).is_ok();
                            if ok {
                                let mut x = stun::xoraddr::XorMappedAddress::default();
                                ok = x.get_from_as(&m, stun::attributes::ATTR_XORMAPPED_ADDRESS).is_ok() && SocketAddr::new(x.ip, x.port) == src
                                    && stun::integrity::MessageIntegrity::new_short_term_integrity(lpar.password.clone()).check(&mut m).is_ok();
                            }
                            if !ok && ran.fail.is_none() { ran.fail = Some(format!("Binding response to {} is malformed (XOR-MAPPED-ADDRESS / MESSAGE-INTEGRITY)", src)); }
                        }
                    }
                }
                tokio::time::sleep(Duration::from_millis(1)).await;
                if via_tcp.is_none() { udp_pkt = Some((src, f.clone())); }
                term = format!("Pkt {} {} {} {}", if via_tcp.is_some() { "KTcp" } else { "KUdp" }, addr_term(&dst_local), addr_term(&src), pkt_term(&f));
                desc = json!({"req": {"from": src.to_string(), "ice_tcp_stream": via_tcp, "user": format!("{:?}", user), "mi": format!("{:?}", mi), "use_candidate": uc,
                    "priority": prio, "method": method, "encoder": format!("{:?}", enc), "fingerprint": fp,
                    "bytes": bytes.iter().map(|b| format!("{:02x}", b)).collect::<String>(), "replied": got}});
                req_view = Some(ReqView { src, authentic: authenticated(&f), uc: f.uc, tcp: via_tcp.is_some(),
                    what: format!("request from {}{} with USERNAME {:?}, MESSAGE-INTEGRITY {:?}, USE-CANDIDATE {}", src, if via_tcp.is_some() { " (ICE-TCP stream)" } else { "" }, user, mi, uc) });
                ran.stats.push(format!("req:{}", if authenticated(&f) { "auth" } else { "unauth" }));
            }
            HOp::Resp { sock, succ, tx, method, with_mi, ecode } => {
                let txb: [u8; 12] = match tx {
                    TxRef::Random => r.bytes(12).try_into().unwrap(),
                    TxRef::Live(i) | TxRef::Stale(i) => match captured.get(*i) { Some(c) => c.tx, None => { ran.harness_err = Some("no captured transaction to answer".into()); break; } },
                };
                if let TxRef::Live(i) = tx { captured[*i].answered = true; }
                let ty: u16 = method | if *succ { 0x0100 } else { 0x0110 };
                let src = socks[*sock].addr;
                let mut attrs: Vec<(u16, Vec<u8>)> = vec![];
                if *succ {
                    // XOR-MAPPED-ADDRESS of the agent
                    let mut v = vec![0u8, 1];
                    v.extend_from_slice(&(agent_addr.port() ^ (MAGIC >> 16) as u16).to_be_bytes());
                    if let IpAddr::V4(ip) = agent_addr.ip() { v.extend_from_slice(&(u32::from(ip) ^ MAGIC).to_be_bytes()); }
                    attrs.push((0x0020, v));
                } else {
                    match ecode {
                        1 => {}
                        2 => attrs.push((0x0009, vec![0, 0])),
                        3 => attrs.push((0x0009, vec![0, 0, 4, 87, b'R', b'o', b'l', b'e'])),
                        4 => attrs.push((0x0009, vec![0, 0, 4, 0, b'B', b'a', b'd', b' '])),
                        _ => attrs.push((0x0009, vec![0, 0, 4, 1, b'U', b'n', b'a', b'u'])),
                    }
                }
                let bytes = build_stun(ty, &txb, &attrs, if *with_mi { Some(rpar.password.as_bytes()) } else { None }, false, true);
                let f = facts(&bytes, &want_user, &lpar.password);
                // the first response with the id of a still outstanding check, a Binding success, sent well inside the
                // transaction's lifetime: whatever other datagrams arrived in between, it must be honoured
                if let TxRef::Live(i) = tx {
                    let c = &mut captured[*i];
                    let age = c.at.elapsed();
                    let limit = Duration::from_millis(if c.nom { NOM_TIMEOUT_MS } else { STUN_TIMEOUT_MS } * 2 / 3);
                    if !c.got_response && *succ && *method == 1 && age < limit {
                        must_honour = Some(format!("Binding success response for the agent's own outstanding {} (transaction captured {} ms earlier on {})",
                            if c.nom { "nomination check" } else { "connectivity check" }, age.as_millis(), socks[c.sock].addr));
                    }
                    c.got_response = true;
                    if !(*succ && *method == 1) {
                        must_not_advance = Some((format!("{} response (method {:#x}, ERROR-CODE kind {}) echoing the live transaction id of the agent's own {}",
                            if *succ { "success" } else { "error" }, method, ecode, if c.nom { "nomination check" } else { "connectivity check" }), c.nom));
                    }
                }
                udp_pkt = Some((src, f.clone()));
                socks[*sock].s.send_to(&bytes, agent_addr).await.ok();
                tokio::time::sleep(Duration::from_millis(8)).await;
                let mut t_ = format!("Pkt KUdp {} {} {}", addr_term(&agent_addr), addr_term(&src), pkt_term(&f));
                // when this answer was the last outstanding one of its (round, phase), the collection loop of
                // perform_connectivity_checks_async ends at once: the round's selection step belongs to this operation
                if let TxRef::Live(i) = tx {
                    let (rd, nm) = (captured[*i].round, captured[*i].nom);
                    if captured.iter().filter(|c| c.round == rd && c.nom == nm).all(|c| c.answered) && !finished.contains(&(rd, nm)) {
                        finished.push((rd, nm));
                        t_ = format!("{}; {} {}", t_, if nm { "NomDone" } else { "RoundDone" }, rd);
                    }
                }
                term = t_;
                desc = json!({"resp": {"from": src.to_string(), "success": succ, "tx": format!("{:?}", tx), "type": ty,
                    "bytes": bytes.iter().map(|b| format!("{:02x}", b)).collect::<String>()}});
                if !matches!(tx, TxRef::Live(_)) { unsolicited_seen = true; }
                ran.stats.push(format!("resp:{}", match tx { TxRef::Random => "random", TxRef::Live(_) => "live", TxRef::Stale(_) => "stale" }));
            }
            HOp::Raw { sock, kind } => {
                let tx: [u8; 12] = r.bytes(12).try_into().unwrap();
                let bytes: Vec<u8> = match kind {
                    RawKind::Indication => build_stun(0x0011, &tx, &[(0x0025, vec![])], None, false, true),
                    RawKind::Truncated => { let mut b = build_stun(0x0001, &tx, &[(0x0025, vec![])], None, false, true); b.truncate(19); b }
                    RawKind::LenMismatch => { let mut b = build_stun(0x0001, &tx, &[(0x0025, vec![])], None, false, false); b.push(0); b }
                    RawKind::UnknownMethod => build_stun(0x0002, &tx, &[(0x0025, vec![])], None, false, false),
                    RawKind::RandomStunish(b) => b.clone(),
                    RawKind::Dtls => { let mut b = vec![22u8, 254, 253]; b.extend_from_slice(&r.bytes(20)); b }
                    RawKind::Rtp => { let mut b = vec![0x80u8, 96]; b.extend_from_slice(&r.bytes(20)); b }
                    RawKind::OneByte(x) => vec![*x],
                    RawKind::Echo { cap, indication } => match captured.get(*cap) {
                        Some(c) => { let mut b = c.bytes.clone(); if *indication { b[0] = 0x00; b[1] = 0x11; } b }
                        None => { ran.harness_err = Some("nothing captured to echo".into()); break; }
                    },
                };
                let f = facts(&bytes, &want_user, &lpar.password);
                let dec_ok = StunMessage::decode(&bytes).is_ok();
                let known_method = matches!(f.ty & 0x3EEF, 1 | 3 | 4 | 8 | 9 | 6 | 7);
                if bytes[0] < 2 && dec_ok != (f.wf && known_method) {
                    ran.harness_err = Some(format!("rustrtc decoder ok={} but harness wf={} method_known={}", dec_ok, f.wf, known_method));
                }
                let src = socks[*sock].addr;
                socks[*sock].drain(); socks[*sock].seen = socks[*sock].log.len();
                socks[*sock].s.send_to(&bytes, agent_addr).await.ok();
                tokio::time::sleep(Duration::from_millis(5)).await;
                socks[*sock].drain();
                let sk = &socks[*sock];
                for i in sk.seen..sk.log.len() {
                    let (b, from) = &sk.log[i];
                    if *from == agent_addr && b.len() >= 20 && b[0] == 0x01 && b[1] == 0x01 && tx_num(&b[8..20]) == f.tx { sends.push((src, f.tx)); }
                }
                udp_pkt = Some((src, f.clone()));
                term = format!("Pkt KUdp {} {} {}", addr_term(&agent_addr), addr_term(&src), pkt_term(&f));
                desc = json!({"raw": {"from": src.to_string(), "kind": format!("{:?}", kind).chars().take(40).collect::<String>(),
                    "bytes": bytes.iter().map(|b| format!("{:02x}", b)).collect::<String>()}});
                if request_shaped(&f) {
                    req_view = Some(ReqView { src, authentic: authenticated(&f), uc: f.uc, tcp: false,
                        what: format!("request-shaped datagram {} from {}", bytes.iter().map(|b| format!("{:02x}", b)).collect::<String>(), src) });
                    ran.stats.push("raw:request-shaped".into());
                } else { ran.stats.push("raw".into()); }
            }
            HOp::Capture { sock, round, nom } => {
                let deadline = Instant::now() + Duration::from_millis(250);
                let mut found: Option<([u8; 12], bool, Vec<u8>)> = None;
                let mut spins = 0;
                while (Instant::now() < deadline || spins < 60) && found.is_none() {
                    spins += 1;
                    socks[*sock].drain();
                    let sk = &mut socks[*sock];
                    while sk.seen < sk.log.len() {
                        let (b, from) = &sk.log[sk.seen];
                        sk.seen += 1;
                        if *from == agent_addr && b.len() >= 20 && b[0] == 0 && b[1] == 1 {
                            let txb: [u8; 12] = b[8..20].try_into().unwrap();
                            if captured.iter().any(|c| c.tx == txb) { continue; } // retransmission
                            let attrs = walk(b).unwrap_or_default();
                            let uc = attrs.iter().any(|(t, _, _)| *t == 0x0025);
                            // connectivity checks carry ICE-CONTROLLING / ICE-CONTROLLED, keepalives do not
                            if !attrs.iter().any(|(t, _, _)| *t == 0x802A || *t == 0x8029) || uc != *nom { continue; }
                            found = Some((txb, uc, b.clone()));
                            break;
                        }
                    }
                    if found.is_none() { tokio::time::sleep(Duration::from_millis(2)).await; }
                }
                let Some((txb, uc, cbytes)) = found else { ran.harness_err = Some(format!("no outgoing Binding request captured on socket {}", sock)); break; };
                captured.push(Captured { tx: txb, sock: *sock, nom: uc, round: *round, answered: false, bytes: cbytes, at: Instant::now(), got_response: false });
                let rc = remote_cands.get(sock).cloned();
                let rterm = match rc {
                    Some(c) => cand_term(&c.address, &c.address, typ_code(c.typ), c.priority, false),
                    None => { // a candidate the agent learned itself
                        let c = t.remote_candidates().into_iter().find(|c| c.address == socks[*sock].addr);
                        match c { Some(c) => cand_term(&c.address, &c.address, typ_code(c.typ), c.priority, false),
                                  None => { ran.harness_err = Some("captured a check towards an address that is not a remote candidate".into()); break; } }
                    }
                };
                term = format!("Launch (mkTxn {} (mkPair {} {}) {} {})", tx_num(&txb), local_term, rterm, bool_term(uc), round);
                desc = json!({"captured": {"on": socks[*sock].addr.to_string(), "use_candidate": uc, "round": round}});
            }
            HOp::AwaitRound { round } | HOp::AwaitNom { round } => {
                let is_nom = matches!(op, HOp::AwaitNom { .. });
                let already = finished.contains(&(*round, is_nom));
                if !already {
                    finished.push((*round, is_nom));
                    let any_ok = captured.iter().any(|c| c.round == *round && c.nom == is_nom && c.answered);
                    let budget = if is_nom { NOM_TIMEOUT_MS + 200 } else { STUN_TIMEOUT_MS + 350 };
                    let deadline = Instant::now() + Duration::from_millis(budget);
                    let before = observe(&t, vec![]);
                    while Instant::now() < deadline {
                        tokio::time::sleep(Duration::from_millis(3)).await;
                        if any_ok && !protected_eq(&observe(&t, vec![]), &before) { break; }
                    }
                }
                tokio::time::sleep(Duration::from_millis(3)).await;
                term = if already { String::new() } else if is_nom { format!("NomDone {}", round) } else { format!("RoundDone {}", round) };
            }
        }
        let cur = observe(&t, sends);
        // ------------------------------------------------------------ direct property oracle
        // (a) shared-UDP demux (shared_udp.rs module doc): a datagram is routed to a session by the ufrag before ':' in the
        //     USERNAME of a Binding request, else by the recorded source address; nothing else may reach the session
        let mut demux_dropped = false;
        if spec.mux {
            if let Some((src, f)) = &udp_pkt {
                let names = f.b0 < 2 && f.wf && (f.ty & 0x3EEF) == 1 && (f.ty & 0x0110) == 0 && f.ufrag != 0;
                let routed = if names { routes.insert(*src, f.ufrag == 1); f.ufrag == 1 } else { routes.get(src).copied().unwrap_or(false) };
                // (the agent's keepalives record the selected remote as well: they start 1 s after creation)
                let maybe_keepalive = case_start.elapsed() > Duration::from_millis(900) && prev.selected.as_ref().map(|(_, r)| r.addr == *src).unwrap_or(false);
                if !routed && !maybe_keepalive {
                    demux_dropped = true;
                    if (!cur.sends.is_empty() || !protected_eq(&prev, &cur)) && ran.fail.is_none() {
                        ran.fail = Some(format!("shared-UDP demux delivered a datagram from {} to the session although it carries no USERNAME naming the session's ufrag and its source address was never recorded for it (recorded: {:?}): {} -> {}",
                            src, routes.iter().filter(|(_, v)| **v).map(|(a, _)| a.to_string()).collect::<Vec<_>>(), obs_json(&prev), obs_json(&cur)));
                    }
                }
            }
        }
        // (b) an outstanding transaction is consumed by its response only
        if let (Some(what), false) = (&must_honour, demux_dropped) {
            let honoured = match (spec.role, op) {
                (_, HOp::Resp { tx: TxRef::Live(i), .. }) if captured[*i].nom => cur.nom == 1 || !finished.contains(&(captured[*i].round, true)),
                (IceRole::Controlled, HOp::Resp { tx: TxRef::Live(i), .. }) =>
                    prev.nom != 0 || prev.selected.is_some() || !finished.contains(&(captured[*i].round, false))
                    || cur.selected.as_ref().map(|(_, r)| r.addr == socks[captured[*i].sock].addr).unwrap_or(false),
                (IceRole::Controlling, HOp::Resp { tx: TxRef::Live(i), .. }) =>
                    prev.state != 1 || !finished.contains(&(captured[*i].round, false)) || cur.state == 2,
                _ => true,
            };
            if !honoured && ran.fail.is_none() {
                ran.fail = Some(format!("the {} was not honoured: the transaction had been consumed by an earlier datagram that is not a response to it (history: {}); {} -> {}",
                    what, ran.descs.iter().map(|d| d["op"].to_string().chars().take(90).collect::<String>()).collect::<Vec<_>>().join(" | "), obs_json(&prev), obs_json(&cur)));
            }
        }
        // (c) only a Binding SUCCESS response may advance a check: an error response (with, without or with a truncated
        //     ERROR-CODE), or a success of another method, for a live id must not select a pair / connect / nominate
        if let Some((what, nom_phase)) = &must_not_advance {
            let advanced = if *nom_phase { cur.nom == 1 && prev.nom != 1 }
                           else { (cur.state == 2 && prev.state != 2) || (cur.selected.is_some() && prev.selected.is_none()) };
            if advanced && ran.fail.is_none() {
                ran.fail = Some(format!("a {} was taken for a successful check: {} -> {}", what, obs_json(&prev), obs_json(&cur)));
            }
        }
        if !demux_dropped { oracle_step(spec, op, req_view.as_ref(), &prev, &cur, &mut ran.fail, &mut ran.known); }
        if unsolicited_seen && baseline_after_unsolicited.is_none() { baseline_after_unsolicited = Some(prev.clone()); }
        if !protected_eq(&prev, &cur) { ran.nontrivial = true; }
        ran.terms.push(format!("[{}]", term));
        ran.descs.push(json!({"op": desc, "obs": obs_json(&cur)}));
        ran.obs.push(cur.clone());
        prev = cur;
        if ran.harness_err.is_some() { break; }
    }
    t.stop();
    runner.abort();
    ran
}

fn authenticated(f: &Facts) -> bool { f.has_user && f.user_ok && f.has_mi && f.mi_ok }

fn obs_json(o: &Obs) -> serde_json::Value {
    json!({"state": o.state, "remotes": o.remotes.iter().map(|c| format!("{}/{}/{}", c.addr, c.typ, c.prio)).collect::<Vec<_>>(),
        "selected": o.selected.as_ref().map(|(l, r)| format!("{} -> {}", l, r.addr)), "nomination": o.nom,
        "responses": o.sends.iter().map(|(d, _)| d.to_string()).collect::<Vec<_>>()})
}

/// The property predicate, evaluated on the implementation's own observations, written from the
/// property text (not from the model):
///  * a request lacking valid credentials must leave remote candidates / selected pair /
///    nomination flag / state untouched.  A change is reported under the listed finding
///    `unauth_request_mutates` only if it is exactly one of the three effects that finding
///    describes for that request; any other change is an unlisted violation;
///  * a response whose transaction id the agent does not have outstanding, an indication, an
///    undecodable or non-STUN datagram must leave them untouched as well.
/// a datagram that is (at most) a STUN request, as established by the harness' own parse
#[derive(Clone, Debug)]
struct ReqView { src: SocketAddr, authentic: bool, uc: bool, tcp: bool, what: String }

fn request_shaped(f: &Facts) -> bool {
    f.b0 < 2 && f.wf && (f.ty & 0x0110) == 0 && matches!(f.ty & 0x3EEF, 1 | 3 | 4 | 8 | 9 | 6 | 7)
}

/// RFC 8445 6.1.2.3 pair priority, G = controlling agent's candidate priority, D = controlled agent's
fn rfc_pair_priority(local: u32, remote: u32, role: IceRole) -> u128 {
    let (g, d) = if role == IceRole::Controlling { (local as u128, remote as u128) } else { (remote as u128, local as u128) };
    (1u128 << 32) * g.min(d) + 2 * g.max(d) + if g > d { 1 } else { 0 }
}

fn oracle_step(spec: &Spec, op: &HOp, rv: Option<&ReqView>, prev: &Obs, cur: &Obs, fail: &mut Option<String>, known: &mut Option<String>) {
    let mut set_fail = |s: String| { if fail.is_none() { *fail = Some(s); } };
    if let Some(rv) = rv {
        // RFC 8445 7.3.1.5 / the handler's own documentation: once a pair is nominated, a later USE-CANDIDATE
        // must not re-nominate; the code documents one exception, an upgrade to a STRICTLY higher-priority pair
        if prev.nom != 0 && spec.role == IceRole::Controlled {
            if let (Some((_, pr)), Some((cl, cr))) = (&prev.selected, &cur.selected) {
                let retarget = spec.latching && pr.addr.port() == cr.addr.port() && pr.addr.ip() != cr.addr.ip();
                if pr.addr != cr.addr && !retarget && cl.ip().is_loopback() {
                    let (old, new) = (rfc_pair_priority(HOST_PRIO, pr.prio, spec.role), rfc_pair_priority(HOST_PRIO, cr.prio, spec.role));
                    if new <= old {
                        set_fail(format!("after nomination a request from {} moved the selected pair from {} (pair priority {}) to {} (pair priority {}): not a strict upgrade",
                            rv.src, pr.addr, old, cr.addr, new));
                    }
                }
            }
        }
        if rv.authentic || protected_eq(prev, cur) { return; }
        let src = rv.src;
        let uc = rv.uc;
        let what = format!("{} (role {:?}, state {})", rv.what, spec.role, prev.state);
        let mut listed = true;
        // (1) remote candidates: at most one peer-reflexive candidate for the (previously unknown) source appended
        if cur.remotes != prev.remotes {
            let was_known = prev.remotes.iter().any(|c| c.addr == src);
            let appended = cur.remotes.len() == prev.remotes.len() + 1 && cur.remotes[..prev.remotes.len()] == prev.remotes[..]
                && cur.remotes.last().map(|c| c.addr == src && c.typ == 2 && c.tcp == rv.tcp && c.prio == PRFLX_PRIO).unwrap_or(false);
            if was_known || !appended { listed = false; }
        }
        // (2) selected pair: latching retarget (same port, other ip) or -- on the controlled side -- USE-CANDIDATE on a
        //     datagram socket / any request on an ICE-TCP stream while nomination is open, selecting the source
        let controlled_uc = spec.role == IceRole::Controlled && if rv.tcp { prev.nom == 0 } else { uc };
        if cur.selected != prev.selected {
            let retarget = spec.latching && match (&prev.selected, &cur.selected) {
                (Some((pl, pr)), Some((cl, cr))) => pl == cl && pr.addr.port() == src.port() && pr.addr.ip() != src.ip() && cr.addr == src,
                _ => false };
            let nominated_src = controlled_uc && cur.selected.as_ref().map(|(_, r)| r.addr == src).unwrap_or(false);
            if !(retarget || nominated_src) { listed = false; }
        }
        // (3) nomination flag and state: only by USE-CANDIDATE on the controlled side, only to complete / Connected
        if cur.nom != prev.nom && !(controlled_uc && cur.nom == 1) { listed = false; }
        if cur.state != prev.state && !(controlled_uc && cur.state == 2) { listed = false; }
        if listed { known.get_or_insert("unauth_request_mutates".to_string()); }
        else { set_fail(format!("unauthenticated {} changed ICE state in a way not covered by the listed finding: {} -> {}", what, obs_json(prev), obs_json(cur))); }
        return;
    }
    match op {
        HOp::Resp { tx, .. } => {
            if !matches!(tx, TxRef::Live(_)) && !protected_eq(prev, cur) {
                set_fail(format!("unsolicited response ({:?}) changed ICE state: {} -> {}", tx, obs_json(prev), obs_json(cur)));
            }
        }
        HOp::Raw { kind, .. } => {
            if !protected_eq(prev, cur) { set_fail(format!("datagram {:?} that is no request changed ICE state: {} -> {}", kind, obs_json(prev), obs_json(cur))); }
            if !cur.sends.is_empty() { set_fail(format!("datagram {:?} that is no request was answered", kind)); }
        }
        _ => {}
    }
}

// ------------------------------------------------------------------ generators
const HOST_PRIO: u32 = (126 << 24) | (65535 << 8) | 255;
/// RFC 8445 5.1.2.1: peer-reflexive type preference 110, local preference 65535, component 1
const PRFLX_PRIO: u32 = (110 << 24) | (65535 << 8) | 255;

fn req(sock: usize, user: UserKind, mi: MiKind, uc: bool) -> HOp {
    HOp::Req { sock, user, mi, uc, prio: Some(1845501695), method: 1, enc: Enc::Own, fp: true, tcp: None }
}

fn corpus() -> Vec<Spec> {
    let mut v = vec![];
    // F18: controlled agent in Checking, one request from an unknown address with USE-CANDIDATE and no credentials
    v.push(Spec { role: IceRole::Controlled, latching: false, mux: false, tcp: false, kind: "corpus".into(),
        ops: vec![HOp::Start, req(2, UserKind::None, MiKind::None, true)] });
    // same, but the agent already has a legitimate peer candidate and an outstanding check towards it
    v.push(Spec { role: IceRole::Controlled, latching: false, mux: false, tcp: false, kind: "corpus".into(),
        ops: vec![HOp::AddRemote { sock: 0, prio: HOST_PRIO, typ: 0 }, HOp::Start, HOp::Capture { sock: 0, round: 1, nom: false },
                  req(2, UserKind::None, MiKind::None, true)] });
    // the legitimate flow: authenticated USE-CANDIDATE from the signalled peer
    v.push(Spec { role: IceRole::Controlled, latching: false, mux: false, tcp: false, kind: "corpus".into(),
        ops: vec![HOp::AddRemote { sock: 0, prio: HOST_PRIO, typ: 0 }, HOp::Start, req(0, UserKind::Right, MiKind::Right, true)] });
    // nominated by the peer, then a stranger without credentials sends USE-CANDIDATE: prflx priority is lower -> pair kept, candidate learned
    v.push(Spec { role: IceRole::Controlled, latching: false, mux: false, tcp: false, kind: "corpus".into(),
        ops: vec![HOp::AddRemote { sock: 0, prio: HOST_PRIO, typ: 0 }, HOp::Start, req(0, UserKind::Right, MiKind::Right, true),
                  req(2, UserKind::None, MiKind::None, true)] });
    // nominated on a low-priority (relay) peer candidate, then the stranger: priority upgrade to the stranger
    v.push(Spec { role: IceRole::Controlled, latching: false, mux: false, tcp: false, kind: "corpus".into(),
        ops: vec![HOp::AddRemote { sock: 0, prio: 16777215, typ: 3 }, HOp::Start, req(0, UserKind::Right, MiKind::Right, true),
                  req(2, UserKind::WrongBoth, MiKind::WrongKey, true)] });
    // latching retarget by a request without credentials from the same port on another ip
    v.push(Spec { role: IceRole::Controlling, latching: true, mux: false, tcp: false, kind: "corpus".into(),
        ops: vec![HOp::AddRemote { sock: 0, prio: HOST_PRIO, typ: 0 }, HOp::SelectPair { sock: 0 }, req(3, UserKind::None, MiKind::None, false)] });
    // F18 over ICE-TCP: controlled agent in Checking, one request WITHOUT USE-CANDIDATE and without credentials on an accepted stream
    v.push(Spec { role: IceRole::Controlled, latching: false, mux: false, tcp: true, kind: "corpus".into(),
        ops: vec![HOp::Start, HOp::Req { sock: 0, user: UserKind::None, mi: MiKind::None, uc: false, prio: None, method: 1, enc: Enc::Own, fp: true, tcp: Some(0) }] });
    // responses: random id, then the live id of the agent's own check answered from a third socket
    v.push(Spec { role: IceRole::Controlled, latching: false, mux: false, tcp: false, kind: "corpus".into(),
        ops: vec![HOp::AddRemote { sock: 0, prio: HOST_PRIO, typ: 0 }, HOp::Start, HOp::Capture { sock: 0, round: 1, nom: false },
                  HOp::Resp { sock: 2, succ: true, tx: TxRef::Random, method: 1, with_mi: false, ecode: 0 },
                  HOp::Resp { sock: 2, succ: true, tx: TxRef::Live(0), method: 1, with_mi: false, ecode: 0 }, HOp::AwaitRound { round: 1 }] });
    // the agent's own check looped back (hair-pinning NAT / reflector / replay) as a request and as an indication with the
    // same transaction id must not consume the transaction: the genuine response that follows is honoured
    for (role, from) in [(IceRole::Controlled, 0usize), (IceRole::Controlled, 2), (IceRole::Controlling, 0)] {
        let mut ops = vec![HOp::AddRemote { sock: 0, prio: HOST_PRIO, typ: 0 }, HOp::Start, HOp::Capture { sock: 0, round: 1, nom: false },
            HOp::Raw { sock: from, kind: RawKind::Echo { cap: 0, indication: false } },
            HOp::Raw { sock: from, kind: RawKind::Echo { cap: 0, indication: true } },
            HOp::Resp { sock: 0, succ: true, tx: TxRef::Live(0), method: 1, with_mi: true, ecode: 0 }, HOp::AwaitRound { round: 1 }];
        if role == IceRole::Controlling {
            ops.extend([HOp::Capture { sock: 0, round: 1, nom: true }, HOp::Raw { sock: 0, kind: RawKind::Echo { cap: 1, indication: false } },
                HOp::Resp { sock: 0, succ: true, tx: TxRef::Live(1), method: 1, with_mi: true, ecode: 0 }, HOp::AwaitNom { round: 1 }]);
        }
        v.push(Spec { role, latching: false, mux: false, tcp: false, kind: "corpus".into(), ops });
    }
    // shared-UDP mux: a legitimate peer's route is recorded, then a bare request (no USERNAME) from the same ip, another port
    for uc in [false, true] {
        v.push(Spec { role: IceRole::Controlled, latching: false, mux: true, tcp: false, kind: "corpus".into(),
            ops: vec![HOp::AddRemote { sock: 0, prio: HOST_PRIO, typ: 0 }, HOp::Start, req(0, UserKind::Right, MiKind::Right, false),
                      req(2, UserKind::None, MiKind::None, uc), HOp::Raw { sock: 2, kind: RawKind::Dtls }] });
    }
    // only a Binding SUCCESS may complete a check: error responses for the live id with ERROR-CODE 401 / none / truncated / 487 / 400,
    // a success of another method, an indication with the live id
    for role in [IceRole::Controlled, IceRole::Controlling] {
        for ecode in 0u8..7 {
            let bad = |i: usize| match ecode {
                5 => HOp::Resp { sock: 0, succ: true, tx: TxRef::Live(i), method: 3, with_mi: false, ecode: 0 },
                6 => HOp::Raw { sock: 0, kind: RawKind::Echo { cap: i, indication: true } },
                e => HOp::Resp { sock: 0, succ: false, tx: TxRef::Live(i), method: 1, with_mi: e % 2 == 0, ecode: e },
            };
            v.push(Spec { role, latching: false, mux: false, tcp: false, kind: "corpus".into(),
                ops: vec![HOp::AddRemote { sock: 0, prio: HOST_PRIO, typ: 0 }, HOp::Start, HOp::Capture { sock: 0, round: 1, nom: false },
                          bad(0), HOp::AwaitRound { round: 1 }] });
            if role == IceRole::Controlling {
                v.push(Spec { role, latching: false, mux: false, tcp: false, kind: "corpus".into(),
                    ops: vec![HOp::AddRemote { sock: 0, prio: HOST_PRIO, typ: 0 }, HOp::Start, HOp::Capture { sock: 0, round: 1, nom: false },
                              HOp::Resp { sock: 0, succ: true, tx: TxRef::Live(0), method: 1, with_mi: true, ecode: 0 }, HOp::AwaitRound { round: 1 },
                              HOp::Capture { sock: 0, round: 1, nom: true }, bad(1), HOp::AwaitNom { round: 1 }] });
            }
        }
    }
    // error response consumes the transaction: a later success with the same id is not honoured
    v.push(Spec { role: IceRole::Controlled, latching: false, mux: false, tcp: false, kind: "corpus".into(),
        ops: vec![HOp::AddRemote { sock: 0, prio: HOST_PRIO, typ: 0 }, HOp::Start, HOp::Capture { sock: 0, round: 1, nom: false },
                  HOp::Resp { sock: 0, succ: false, tx: TxRef::Live(0), method: 1, with_mi: false, ecode: 0 },
                  HOp::Resp { sock: 0, succ: true, tx: TxRef::Stale(0), method: 1, with_mi: false, ecode: 0 }, HOp::AwaitRound { round: 1 }] });
    // controlling: check answered, nomination answered
    v.push(Spec { role: IceRole::Controlling, latching: false, mux: false, tcp: false, kind: "corpus".into(),
        ops: vec![HOp::AddRemote { sock: 0, prio: HOST_PRIO, typ: 0 }, HOp::Start, HOp::Capture { sock: 0, round: 1, nom: false },
                  HOp::Resp { sock: 0, succ: true, tx: TxRef::Live(0), method: 1, with_mi: true, ecode: 0 }, HOp::AwaitRound { round: 1 },
                  HOp::Capture { sock: 0, round: 1, nom: true }, HOp::Resp { sock: 0, succ: true, tx: TxRef::Live(1), method: 1, with_mi: true, ecode: 0 },
                  HOp::AwaitNom { round: 1 }] });
    // controlling: check answered, nomination never answered -> nomination failed
    v.push(Spec { role: IceRole::Controlling, latching: false, mux: false, tcp: false, kind: "corpus".into(),
        ops: vec![HOp::AddRemote { sock: 0, prio: HOST_PRIO, typ: 0 }, HOp::Start, HOp::Capture { sock: 0, round: 1, nom: false },
                  HOp::Resp { sock: 0, succ: true, tx: TxRef::Live(0), method: 1, with_mi: true, ecode: 0 }, HOp::AwaitRound { round: 1 },
                  HOp::Capture { sock: 0, round: 1, nom: true }, HOp::Resp { sock: 2, succ: true, tx: TxRef::Random, method: 1, with_mi: true, ecode: 0 },
                  HOp::AwaitNom { round: 1 }] });
    v
}

const USERS3: [UserKind; 3] = [UserKind::None, UserKind::WrongBoth, UserKind::Right];
const MIS3: [MiKind; 3] = [MiKind::None, MiKind::WrongKey, MiKind::Right];

/// how the agent is brought into an ICE state before the datagram under test arrives
#[derive(Clone, Copy, Debug, PartialEq)]
enum Pre { New, NewWithPeers, Checking, CheckingWithPeers, ConnectedSelected, ConnectedNominated }

fn prelude(pre: Pre, p0: u32, p1: u32) -> Vec<HOp> {
    let peers = vec![HOp::AddRemote { sock: 0, prio: p0, typ: 0 }, HOp::AddRemote { sock: 1, prio: p1, typ: 0 }];
    match pre {
        Pre::New => vec![],
        Pre::NewWithPeers => peers,
        Pre::Checking => vec![HOp::Start],
        Pre::CheckingWithPeers => { let mut v = peers; v.push(HOp::Start); v }
        Pre::ConnectedSelected => { let mut v = peers; v.push(HOp::Start); v.push(HOp::SelectPair { sock: 0 }); v }
        Pre::ConnectedNominated => { let mut v = peers; v.push(HOp::Start); v.push(req(0, UserKind::Right, MiKind::Right, true)); v }
    }
}

fn matrix() -> Vec<Spec> {
    let mut v = vec![];
    for role in [IceRole::Controlling, IceRole::Controlled] {
        for pre in [Pre::New, Pre::NewWithPeers, Pre::Checking, Pre::CheckingWithPeers, Pre::ConnectedSelected, Pre::ConnectedNominated] {
            for latching in [false, true] {
                for src in [2usize, 1, 3] {
                    if latching && src == 2 && !matches!(pre, Pre::ConnectedSelected) { continue; } // latching only matters with a selected pair
                    if src == 3 && !latching { continue; }
                    for user in USERS3 { for mi in MIS3 { for uc in [false, true] {
                        let mut ops = prelude(pre, HOST_PRIO, HOST_PRIO - 256);
                        ops.push(req(src, user, mi, uc));
                        v.push(Spec { role, latching, mux: false, tcp: false, ops, kind: "matrix".into() });
                    } } }
                }
            }
        }
    }
    v
}

/// the priority-upgrade rule after nomination, around its boundary, with and without credentials
fn upgrade_family() -> Vec<Spec> {
    let mut v = vec![];
    for base in [HOST_PRIO - 4096, 1862270975u32, 16777215, 1] {
        for delta in [-1i64, 0, 1] {
            for auth in [true, false] {
                for latching in [false, true] {
                    let p1 = (base as i64 + delta) as u32;
                    let mut ops = prelude(Pre::ConnectedNominated, base, p1);
                    let (u, m) = if auth { (UserKind::Right, MiKind::Right) } else { (UserKind::WrongRemote, MiKind::WrongKey) };
                    ops.push(req(1, u, m, true));
                    ops.push(req(2, u, m, true)); // and the stranger (learned prflx priority 1862270975)
                    ops.push(req(0, UserKind::Right, MiKind::Right, true)); // the original peer again
                    v.push(Spec { role: IceRole::Controlled, latching, mux: false, tcp: false, ops, kind: "upgrade".into() });
                    // after nomination: a stranger's USE-CANDIDATE whose PRIORITY attribute is below / equal / above the nominated
                    // candidate's, at the host priority, 0x7FFFFFFF and 0xFFFFFFFF (the attribute must not matter)
                    if delta == 0 {
                        for pa in [base.wrapping_sub(1), base, base.saturating_add(1), HOST_PRIO, 0x7FFF_FFFF, 0xFFFF_FFFF] {
                            let mut ops = prelude(Pre::ConnectedNominated, base, p1);
                            ops.push(HOp::Req { sock: 2, user: u, mi: m, uc: true, prio: Some(pa), method: 1, enc: Enc::Own, fp: true, tcp: None });
                            ops.push(HOp::Req { sock: 2, user: u, mi: m, uc: true, prio: Some(pa), method: 1, enc: Enc::Own, fp: true, tcp: None });
                            v.push(Spec { role: IceRole::Controlled, latching, mux: false, tcp: false, ops, kind: "upgrade".into() });
                        }
                    }
                }
            }
        }
    }
    v
}

/// the shared-UDP mux socket kind: what the demux lets through (USERNAME naming the session / recorded sources)
fn mux_family() -> Vec<Spec> {
    let mut v = vec![];
    let users = [UserKind::None, UserKind::WrongBoth, UserKind::WrongRemote, UserKind::Reversed, UserKind::NoColon, UserKind::Right];
    for role in [IceRole::Controlling, IceRole::Controlled] {
        for pre in [Pre::New, Pre::CheckingWithPeers, Pre::ConnectedSelected] {
            for src in [2usize, 0] {
                for user in users { for mi in MIS3 { for uc in [false, true] {
                    let mut ops = prelude(pre, HOST_PRIO, HOST_PRIO - 256);
                    ops.push(req(src, user, mi, uc));
                    // a second datagram from the same source: now routed by the recorded address (if the first was)
                    ops.push(req(src, UserKind::None, MiKind::None, uc));
                    v.push(Spec { role, latching: false, mux: true, tcp: false, ops, kind: "mux".into() });
                } } }
            }
        }
        // a legitimate peer's route is recorded (from socket 0); then datagrams without a routable USERNAME from the same ip,
        // other ports (sockets 2 and 1): the demux must drop them
        for pre in [Pre::New, Pre::CheckingWithPeers, Pre::ConnectedSelected] {
            for (lu, lm) in [(UserKind::Right, MiKind::Right), (UserKind::WrongRemote, MiKind::None)] {
                for uc in [false, true] {
                    let mut ops = prelude(pre, HOST_PRIO, HOST_PRIO - 256);
                    ops.push(req(0, lu, lm, false));
                    ops.push(req(2, UserKind::None, MiKind::None, uc));
                    ops.push(req(1, UserKind::NoColon, MiKind::Right, uc));
                    ops.push(HOp::Raw { sock: 2, kind: RawKind::Dtls });
                    ops.push(HOp::Resp { sock: 2, succ: true, tx: TxRef::Random, method: 1, with_mi: false, ecode: 0 });
                    ops.push(req(2, UserKind::WrongBoth, MiKind::None, uc)); // names another session: recorded as not ours
                    ops.push(req(2, UserKind::None, MiKind::None, uc));
                    v.push(Spec { role, latching: false, mux: true, tcp: false, ops, kind: "mux".into() });
                }
            }
        }
        // responses to the agent's own check reach it only from a recorded source
        for map_first in [false, true] {
            let mut ops = vec![HOp::AddRemote { sock: 0, prio: HOST_PRIO, typ: 0 }, HOp::Start, HOp::Capture { sock: 0, round: 1, nom: false }];
            if map_first { ops.push(req(0, UserKind::WrongRemote, MiKind::None, false)); }
            ops.push(HOp::Resp { sock: 0, succ: true, tx: TxRef::Live(0), method: 1, with_mi: false, ecode: 0 });
            ops.push(HOp::AwaitRound { round: 1 });
            v.push(Spec { role, latching: false, mux: true, tcp: false, ops, kind: "mux".into() });
        }
    }
    v
}

/// the passive ICE-TCP socket kind: requests framed on accepted TCP streams
fn tcp_family() -> Vec<Spec> {
    let mut v = vec![];
    let creds = [(UserKind::None, MiKind::None), (UserKind::Right, MiKind::WrongKey), (UserKind::WrongRemote, MiKind::Right), (UserKind::Right, MiKind::Right)];
    for role in [IceRole::Controlling, IceRole::Controlled] {
        for pre in [Pre::New, Pre::Checking, Pre::CheckingWithPeers, Pre::ConnectedSelected, Pre::ConnectedNominated] {
            for latching in [false, true] {
                for (user, mi) in creds { for uc in [false, true] {
                    let mut ops = prelude(pre, HOST_PRIO, HOST_PRIO - 256);
                    let on = |c: usize, u: UserKind, m: MiKind, uc: bool| HOp::Req { sock: 0, user: u, mi: m, uc, prio: Some(1845501695), method: 1, enc: Enc::Own, fp: true, tcp: Some(c) };
                    ops.push(on(0, user, mi, uc));
                    ops.push(on(0, user, mi, !uc));               // same stream again: source now known
                    ops.push(on(1, UserKind::None, MiKind::None, uc)); // a second stream
                    ops.push(req(1, user, mi, true));              // and a datagram on the UDP socket
                    v.push(Spec { role, latching, mux: false, tcp: true, ops, kind: "tcp".into() });
                } }
            }
        }
    }
    v
}

fn pick_user(r: &mut Rng) -> UserKind { *r.pick(&[UserKind::None, UserKind::WrongBoth, UserKind::WrongRemote, UserKind::Reversed, UserKind::NoColon, UserKind::Right, UserKind::Right, UserKind::Right]) }
fn pick_mi(r: &mut Rng) -> MiKind { *r.pick(&[MiKind::None, MiKind::WrongKey, MiKind::Corrupt, MiKind::Right, MiKind::Right, MiKind::Right]) }

fn random_req(r: &mut Rng, nsock: usize) -> HOp {
    HOp::Req { sock: r.below(nsock as u64) as usize, user: pick_user(r), mi: pick_mi(r), uc: r.chance(3, 5),
        prio: if r.chance(4, 5) { Some(*r.pick(&[0u32, 1, 1845501695, HOST_PRIO, u32::MAX])) } else { None },
        method: if r.chance(9, 10) { 1 } else { *r.pick(&[3u16, 4, 8, 9, 6, 7]) },
        enc: if r.chance(1, 3) { Enc::Rustrtc } else { Enc::Own }, fp: r.chance(4, 5), tcp: None }
}

fn random_raw(r: &mut Rng, nsock: usize) -> HOp {
    let kind = match r.below(9) {
        0 => RawKind::Indication, 1 => RawKind::Truncated, 2 => RawKind::LenMismatch, 3 => RawKind::UnknownMethod,
        4 => RawKind::Dtls, 5 => RawKind::Rtp, 6 => RawKind::OneByte(*r.pick(&[0u8, 1, 2, 255])),
        _ => { let n = *r.pick(&[1usize, 4, 19, 20, 21, 24, 28, 60]); let mut b = r.bytes(n); b[0] = *r.pick(&[0u8, 0, 1, 1, 2]);
               if n >= 4 && r.chance(1, 2) { let l = (n as u16).saturating_sub(20); b[2] = (l >> 8) as u8; b[3] = l as u8; }
               if n >= 2 && r.chance(1, 2) { b[1] = *r.pick(&[0x01u8, 0x11, 0x03]); }
               RawKind::RandomStunish(b) }
    };
    HOp::Raw { sock: r.below(nsock as u64) as usize, kind }
}

/// random sequences: prelude with priorities around the upgrade boundary, then 1..6 datagrams
fn random_seq(r: &mut Rng) -> Spec {
    let role = if r.chance(3, 5) { IceRole::Controlled } else { IceRole::Controlling };
    let latching = r.chance(1, 3);
    // socket kinds: plain UDP host socket, shared-UDP mux, UDP + passive ICE-TCP
    let (mux, tcp) = match r.below(6) { 0 => (true, false), 1 => (false, true), _ => (false, false) };
    let pre = *r.pick(&[Pre::New, Pre::NewWithPeers, Pre::Checking, Pre::CheckingWithPeers, Pre::ConnectedSelected, Pre::ConnectedNominated, Pre::ConnectedNominated]);
    // priorities of the two signalled peers: equal, +-1, far apart; the learned prflx priority is 1862270975
    let base = *r.pick(&[HOST_PRIO, 1862270975u32, 1862270974, 1862270976, 16777215, 1, u32::MAX - 1]);
    let delta: i64 = *r.pick(&[-1i64, 0, 1, 1, -256, 4096]);
    let p1 = (base as i64 + delta).clamp(0, u32::MAX as i64) as u32;
    let mut ops = prelude(pre, base, p1);
    let n = r.range(1, 6);
    for _ in 0..n {
        let k = r.below(100);
        let nsock = if latching { 4 } else { 3 };
        ops.push(if k < 70 { let mut q = random_req(r, nsock);
                             if tcp && r.chance(1, 2) { if let HOp::Req { tcp: t, .. } = &mut q { *t = Some(r.below(2) as usize); } }
                             q }
            else if k < 80 { HOp::Resp { sock: r.below(3) as usize, succ: r.chance(2, 3), tx: TxRef::Random, method: if r.chance(4, 5) { 1 } else { 3 }, with_mi: r.chance(1, 2), ecode: (r.below(5)) as u8 } }
            else if k < 92 { random_raw(r, nsock) }
            else if k < 96 { HOp::SelectPair { sock: r.below(2) as usize } }
            else { HOp::AddRemote { sock: 2, prio: *r.pick(&[HOST_PRIO, 1862270975u32, 5]), typ: *r.pick(&[0u8, 1, 2, 3]) } });
    }
    Spec { role, latching, mux, tcp, ops, kind: "random".into() }
}

/// scenarios around the agent's own transactions (live / stale / random ids, success / error, wrong method)
fn response_scenarios(r: &mut Rng, n: usize) -> Vec<Spec> {
    let mut v = vec![];
    for i in 0..n {
        let role = if i % 3 == 2 { IceRole::Controlling } else { IceRole::Controlled };
        let mut ops = vec![HOp::AddRemote { sock: 0, prio: HOST_PRIO, typ: 0 }, HOp::Start, HOp::Capture { sock: 0, round: 1, nom: false }];
        // junk before the live answer
        for _ in 0..r.below(3) {
            ops.push(match r.below(5) {
                3 | 4 => HOp::Raw { sock: *r.pick(&[0usize, 0, 2]), kind: RawKind::Echo { cap: 0, indication: r.chance(1, 3) } },
                0 => HOp::Resp { sock: r.below(3) as usize, succ: r.chance(1, 2), tx: TxRef::Random, method: 1, with_mi: r.chance(1, 2), ecode: (r.below(5)) as u8 },
                1 => random_raw(r, 3),
                _ => req(1 + r.below(2) as usize, pick_user(r), pick_mi(r), false),
            });
        }
        let variant = r.below(6);
        let from = r.below(3) as usize;
        match variant {
            0 | 1 => { ops.push(HOp::Resp { sock: from, succ: true, tx: TxRef::Live(0), method: 1, with_mi: r.chance(1, 2), ecode: (r.below(5)) as u8 }); }
            2 => { ops.push(HOp::Resp { sock: from, succ: false, tx: TxRef::Live(0), method: 1, with_mi: false, ecode: (i % 5) as u8 });
                   ops.push(HOp::Resp { sock: from, succ: true, tx: TxRef::Stale(0), method: 1, with_mi: false, ecode: 0 }); }
            3 => { ops.push(HOp::Resp { sock: from, succ: true, tx: TxRef::Live(0), method: 3, with_mi: false, ecode: 0 }); } // Allocate success on a Binding transaction
            4 => { ops.push(HOp::Resp { sock: from, succ: true, tx: TxRef::Live(0), method: 1, with_mi: false, ecode: 0 });
                   ops.push(HOp::Resp { sock: from, succ: false, tx: TxRef::Stale(0), method: 1, with_mi: false, ecode: 0 }); }
            _ => {} // nobody answers: the transaction expires
        }
        ops.push(HOp::AwaitRound { round: 1 });
        let answered_ok = matches!(variant, 0 | 1 | 4);
        if role == IceRole::Controlling && answered_ok {
            ops.push(HOp::Capture { sock: 0, round: 1, nom: true });
            if r.chance(1, 2) { ops.push(HOp::Raw { sock: 0, kind: RawKind::Echo { cap: 1, indication: r.chance(1, 3) } }); }
            match r.below(3) {
                0 => ops.push(HOp::Resp { sock: from, succ: true, tx: TxRef::Live(1), method: 1, with_mi: false, ecode: 0 }),
                1 => ops.push(HOp::Resp { sock: from, succ: true, tx: TxRef::Stale(0), method: 1, with_mi: false, ecode: 0 }),
                _ => ops.push(HOp::Resp { sock: from, succ: false, tx: TxRef::Live(1), method: 1, with_mi: false, ecode: (i % 5) as u8 }),
            }
            ops.push(HOp::AwaitNom { round: 1 });
        } else if !answered_ok {
            // after the round is over its transaction id is stale: a late success must not be honoured
            ops.push(HOp::Resp { sock: 0, succ: true, tx: TxRef::Stale(0), method: 1, with_mi: true, ecode: 0 });
            ops.push(HOp::AwaitRound { round: 2 });
        }
        v.push(Spec { role, latching: false, mux: false, tcp: false, ops, kind: "responses".into() });
    }
    v
}

#[tokio::main(flavor = "current_thread")]
async fn main() {
    let args = parse_args();
    let mut out = Out::new(&args.out);
    let mut r = Rng::new(args.seed);
    let thorough = args.tier == "thorough";
    let mut specs: Vec<Spec> = corpus();
    specs.extend(matrix());
    specs.extend(upgrade_family());
    specs.extend(mux_family());
    specs.extend(tcp_family());
    specs.extend(response_scenarios(&mut r, if thorough { 240 } else { 60 }));
    for _ in 0..(if thorough { 12000 } else { 2200 }) { specs.push(random_seq(&mut r)); }
    if let Ok(k) = std::env::var("C06_ONLY") { specs.retain(|s| s.kind == k); }
    if let Ok(n) = std::env::var("C06_LIMIT") { specs.truncate(n.parse().unwrap_or(usize::MAX)); }

    let mut stats: BTreeMap<String, u64> = BTreeMap::new();
    let mut harness_errors: Vec<String> = vec![];
    let batch = 48;
    let mut idx = 0usize;
    while idx < specs.len() {
        let end = (idx + batch).min(specs.len());
        let futs: Vec<_> = (idx..end).map(|i| { let s = specs[i].clone(); let seed = args.seed.wrapping_mul(1_000_003).wrapping_add(i as u64); async move { run_case(&s, seed).await } }).collect();
        let results = futures::future::join_all(futs).await;
        for (k, ran) in results.into_iter().enumerate() {
            let spec = &specs[idx + k];
            for s in &ran.stats { *stats.entry(s.clone()).or_default() += 1; }
            *stats.entry(format!("kind:{}", spec.kind)).or_default() += 1;
            let mut fail = ran.fail.clone();
            if let Some(e) = &ran.harness_err { harness_errors.push(format!("case {}: {}", idx + k, e)); if fail.is_none() { fail = Some(format!("harness self-check: {}", e)); } }
            if ran.known.is_some() { *stats.entry("known:unauth_request_mutates".into()).or_default() += 1; }
            let lterm = ran.locals_term.clone();
            let term = if ran.harness_err.is_some() { "-".to_string() } else {
                format!("mkCase {} {} {} {} {} {}", role_term(spec.role), bool_term(spec.latching), bool_term(spec.mux), lterm,
                    list_term(&ran.terms), list_term(&ran.obs.iter().map(obs_term).collect::<Vec<_>>())) };
            // distinctness: the shape of the case (addresses and random ids abstracted away)
            let key = format!("{:?}|{}|{}|{}|{:?}", spec.role, spec.latching, spec.mux, spec.tcp, spec.ops);
            out.push(Case {
                term,
                desc: json!({"role": format!("{:?}", spec.role), "latching": spec.latching, "shared_udp_mux": spec.mux, "ice_tcp": spec.tcp, "local": ran.local.to_string(), "steps": ran.descs}),
                oracle_fail: fail,
                known: ran.known.clone(),
                nontrivial: ran.nontrivial,
                key,
                kind: spec.kind.clone(),
            });
        }
        idx = end;
    }
    out.finish(json!({"generator": {"counts": stats, "harness_errors": harness_errors.iter().take(10).collect::<Vec<_>>(),
        "stun_timeout_ms": STUN_TIMEOUT_MS, "nomination_timeout_ms": NOM_TIMEOUT_MS,
        "matrix": "role x {New, New+peers, Checking, Checking+peers, Connected(select_pair), Connected(nominated)} x latching x source {stranger, signalled peer, same-port-other-ip} x USERNAME {none, wrong, right} x MESSAGE-INTEGRITY {none, wrong key, right} x USE-CANDIDATE",
        "random": "prelude with peer priorities around the learned peer-reflexive priority (+-1), then 1..6 datagrams: 70% requests (USERNAME 6 kinds, MI 4 kinds, PRIORITY boundary values, 10% non-Binding methods, 1/3 encoded by rustrtc itself), 10% unsolicited responses, 12% malformed / non-STUN, 8% API calls"}}));
}
